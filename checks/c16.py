"""C16 tampered Data Secure frames are never delivered; unprotected control bits do not matter."""

from __future__ import annotations

from vlib.ds_harness import Node, auth_only_frame, group_payload, observing_management, scf_for
from xknx.cemi.flags import CEMIAddressType, CEMIFrameFormat
from xknx.exceptions import DataSecureError
from xknx.secure.data_secure_asdu import SecureData, SecurityControlField
from xknx.telegram import GroupAddress, Telegram, tpci
from xknx.telegram.apci import APCI

LEVEL = "exploration"
TECHNIQUE = (
    "runtime monitor: every single-bit flip / truncation / wrong-key variant of frames secured by the real sender is injected into "
    "CEMIHandler.handle_raw_cemi of a fresh real receiver; delivered telegrams are compared with a bit classification taken from the statement"
)
LEVEL_TEXT = (
    "Per generated frame (both algorithms, APDU lengths 1..240, group / tag-group / broadcast) the single-bit-flip space is completed "
    "(exhaustive per frame), plus every truncation length, length-changing edits of the secured APDU with the length octet repaired (append 1..16 zero / other octets, strip 1..16 trailing octets, insert / delete an octet at every position; half of the APDUs end in 0x00) and wrong keys; the receiver also knows every one-bit neighbour of the "
    "sender and holds the same key for every one-bit neighbour of the destination, so a rejection has to come from the MAC. "
    "Exploration: frames themselves are sampled."
)
LEVEL_NOTE = (
    "Bit classes are written from the statement, not from the code: protected = SA, DA, AT, EFF, TPCI, APCI, SCF, sequence number, "
    "secured APDU, MAC; unprotected = priority, repeat, hop count, frame type. Message code, additional-info length, length octet and "
    "the remaining Ctrl1 bits (reserved, system broadcast, ack request, confirm) carry no claim: outcome recorded, not judged. "
    "Second layer at SecureData.get_plain_apdu (address type, frame format and TPCI can not reach the MAC through the frame path "
    "because such frames are refused earlier); an exception other than DataSecureError there is recorded, not judged (not a delivery)."
)
SHARDS = {"quick": 1, "thorough": 16}
TIMEOUT = {"quick": 200, "thorough": 2000}

LENGTHS = (1, 1, 2, 2, 3, 4, 5, 6, 9, 14, 15, 16, 17, 30, 31, 33, 60, 100, 150, 240)


def classify(index: int, nbytes: int) -> str:
    """Class of bit `index` (0 = MSB of octet 0) of an L_Data.ind without additional info carrying a secure APDU."""
    octet, bit = divmod(index, 8)
    bit = 7 - bit  # bit number within the octet, 7 = MSB
    if octet == 0:
        return "noclaim:message_code"
    if octet == 1:
        return "noclaim:additional_info_length"
    if octet == 2:
        return {7: "unprotected:frame_type", 6: "noclaim:ctrl1_reserved", 5: "unprotected:repeat", 4: "noclaim:system_broadcast",
                3: "unprotected:priority", 2: "unprotected:priority", 1: "noclaim:ack_request", 0: "noclaim:confirm"}[bit]
    if octet == 3:
        if bit == 7:
            return "protected:address_type"
        return "unprotected:hop_count" if bit >= 4 else "protected:extended_frame_format"
    if octet in (4, 5):
        return "protected:source"
    if octet in (6, 7):
        return "protected:destination"
    if octet == 8:
        return "noclaim:length"
    if octet == 9:
        return "protected:tpci" if bit >= 2 else "protected:apci"
    if octet == 10:
        return "protected:apci"
    if octet == 11:
        return "protected:scf"
    if 12 <= octet <= 17:
        return "protected:sequence_number"
    if octet >= nbytes - 4:
        return "protected:mac"
    return "protected:secured_apdu"


def _tpci(kind):
    return {"group": tpci.TDataGroup, "broadcast": tpci.TDataBroadcast, "tag": tpci.TDataTagGroup}[kind]()


def _receiver(spec, key=None):
    key = bytes.fromhex(spec["key"]) if key is None else key
    da, sa, last = spec["da"], spec["sa"], spec["last"]
    keys = {da ^ (1 << b): key for b in range(16)}
    keys[da] = key
    senders = {sa ^ (1 << b): last for b in range(16)}
    senders[sa] = last
    return Node(keys, senders, own_address=spec["rx"])


def _base_frame(spec):
    key = bytes.fromhex(spec["key"])
    payload = APCI.from_knx(bytes.fromhex(spec["apdu"]))
    telegram = Telegram(destination_address=GroupAddress(spec["da"]), payload=payload, tpci=_tpci(spec["kind"]))
    if spec["alg"] == "auth" or spec["kind"] != "group" or spec.get("api"):
        return auth_only_frame(key, telegram, spec["sa"], spec["seq"], auth_only=spec["alg"] == "auth")
    return Node({spec["da"]: key}, {}, own_address=spec["sa"], last_seq_sending=spec["seq"]).secure_sync(telegram)


def _delivered_same(out, apdu):
    if out.exc is not None or len(out.delivered) != 1:
        return False
    t = out.delivered[0]
    try:
        return bytes(t.payload.to_knx()) == apdu and t.data_secure is True
    except Exception:  # noqa: BLE001
        return False


def _judge_rejected(ctx, spec, out, label, mech, variant):
    """A variant that must be discarded."""
    wit = {"spec": spec, "variant": variant, "outcome": out.kind()}
    if out.exc is not None:
        ctx.violation(f"tampered-frame-makes-receiver-raise-{type(out.exc).__name__}-{label}", dict(wit, exception=repr(out.exc)[:200]),
                      f"{label}: handle_raw_cemi raised {type(out.exc).__name__}")
        return
    if out.delivered:
        t = out.delivered[0]
        ctx.violation(mech, dict(wit, delivered=repr(t.payload)[:200], data_secure=t.data_secure),
                      f"{label}: tampered {spec['alg']} frame was delivered as {t.payload!r:.100}")
        return
    ctx.count("rejected_" + label.split(":")[-1])
    ctx.count("rejected_via_" + out.kind())


def _flip(raw, index):
    b = bytearray(raw)
    b[index // 8] ^= 0x80 >> (index % 8)
    return bytes(b)


def _variant(raw, variant):
    kind = variant[0]
    if kind == "flip":
        return _flip(raw, variant[1])
    if kind == "trunc":
        return raw[: variant[1]]
    if kind == "trunc_fix":
        cut = bytearray(raw[: variant[1]])
        cut[8] = len(cut) - 10
        return bytes(cut)
    # length-changing edits of the secured APDU (octets 18 .. -5), length octet repaired
    head, sec, mac = bytearray(raw[:18]), bytearray(raw[18:-4]), raw[-4:]
    if kind == "append":
        sec += bytes.fromhex(variant[1])
    elif kind == "strip":
        del sec[len(sec) - variant[1] :]
    elif kind == "insert":
        sec.insert(variant[1], variant[2])
    elif kind == "delete":
        del sec[variant[1]]
    else:
        return raw
    out = head + sec + mac
    if len(out) - 10 > 255:
        return None
    out[8] = len(out) - 10
    return bytes(out)


def _length_variants(raw, rng):
    n = len(raw) - 22  # octets of the secured APDU
    out = [("append", bytes(k).hex()) for k in range(1, 17)]
    out += [("append", "ff"), ("append", "00ff"), ("append", rng.randbytes(3).hex()), ("append", "80")]
    out += [("strip", k) for k in range(1, min(n, 17) + 1)]
    positions = range(n + 1) if n <= 24 else sorted({0, 1, 2, n - 1, n, *rng.sample(range(n + 1), 12)})
    for pos in positions:
        out.append(("insert", pos, 0))
        out.append(("insert", pos, rng.randrange(1, 256)))
        if pos < n:
            out.append(("delete", pos))
    return out


def _frame(ctx, spec, only=None):
    raw = _base_frame(spec)
    apdu = bytes.fromhex(spec["apdu"])
    alg, kind = spec["alg"], spec["kind"]
    nbits = len(raw) * 8
    base = _receiver(spec).feed(raw)
    if not _delivered_same(base, apdu):
        ctx.violation("baseline-genuine-frame-not-delivered", {"spec": spec, "raw": raw, "outcome": base.kind()},
                      "the untampered frame is not delivered (C15 territory); its variants are not judged")
        return
    ctx.count("baseline_delivered")
    ctx.count(f"frames_{alg}")
    ctx.count(f"frames_{kind}")
    ctx.count("frames_long" if len(apdu) > 15 else "frames_short")
    variants = []
    if only is None:
        variants += [("flip", i) for i in range(nbits)]
        variants += [("trunc", k) for k in range(len(raw))]
        variants += [("trunc_fix", k) for k in range(10, len(raw))]
        variants += _length_variants(raw, ctx.rng)
    else:
        variants.append(tuple(only))
    for variant in variants:
        if variant[0] in ("wrongkey", "api"):
            continue
        tampered = _variant(raw, variant)
        if tampered is None or tampered == raw:
            continue
        out = _receiver(spec).feed(tampered)
        ctx.ev()
        if variant[0] == "flip":
            cls = classify(variant[1], len(raw))
            group, name = cls.split(":")
            ctx.count(f"flips_{group}")
            ctx.distinct((alg, kind, min(len(apdu), 40), cls, variant[1] % 8 if group == "protected" else 0, out.kind()))
            if group == "protected":
                _judge_rejected(ctx, spec, out, cls, f"tampered-{name}-bit-delivered-{alg}", list(variant))
            elif group == "unprotected":
                if _delivered_same(out, apdu):
                    ctx.count("unprotected_flip_accepted")
                    ctx.count("accepted_" + name)
                elif out.exc is not None:
                    ctx.violation(f"unprotected-{name}-flip-raises-{type(out.exc).__name__}", {"spec": spec, "variant": list(variant)},
                                  f"flipping a {name} bit makes handle_raw_cemi raise {type(out.exc).__name__}")
                elif out.delivered:
                    ctx.violation(f"unprotected-{name}-flip-changes-delivery", {"spec": spec, "variant": list(variant), "outcome": out.kind(),
                                  "delivered": repr(out.delivered[0].payload)[:200]}, f"flipping a {name} bit changes what is delivered")
                else:
                    ctx.violation(f"unprotected-{name}-flip-rejected", {"spec": spec, "variant": list(variant), "outcome": out.kind()},
                                  f"flipping only a {name} bit makes the receiver discard the frame ({out.kind()})")
            else:
                ctx.count(f"noclaim_{name}_{out.kind()}")
        elif variant[0] in ("trunc", "trunc_fix"):
            ctx.count("truncations")
            ctx.distinct((alg, variant[0], min(variant[1], 30), out.kind()))
            _judge_rejected(ctx, spec, out, variant[0], f"truncated-frame-delivered-{alg}", list(variant))
        else:
            ctx.count("length_tampers")
            ctx.count(f"length_tamper_{variant[0]}")
            if apdu.endswith(b"\x00"):
                ctx.count("length_tampers_on_apdu_ending_in_zero")
            ctx.distinct((alg, variant[0], out.kind(), apdu.endswith(b"\x00")))
            _judge_rejected(ctx, spec, out, "secured-apdu-" + variant[0], f"secured-apdu-length-changed-by-{variant[0]}-delivered-{alg}",
                            list(variant))
    if len(ctx.samples) < 4 and only is None:
        ctx.sample({"alg": alg, "kind": kind, "apdu_len": len(apdu) - 1, "raw": raw[:40], "bits_flipped": nbits,
                    "truncations": 2 * len(raw) - 10})


def _wrong_keys(ctx, spec, rng, only=None):
    raw = _base_frame(spec)
    key = bytes.fromhex(spec["key"])
    others = []
    if only is None:
        others += [bytes(x ^ (0x80 >> (i % 8)) if j == i // 8 else x for j, x in enumerate(key)) for i in range(128)]
        others += [rng.randbytes(16) for _ in range(8)] + [bytes(16), bytes(reversed(key))]
    else:
        others.append(bytes.fromhex(only))
    for other in others:
        if other == key:
            continue
        out = _receiver(spec, key=other).feed(raw)
        ctx.ev()
        ctx.count("wrong_keys")
        ctx.distinct((spec["alg"], "wrongkey", bin(int.from_bytes(bytes(a ^ b for a, b in zip(key, other)), "big")).count("1") > 1, out.kind()))
        _judge_rejected(ctx, spec, out, "wrong_key", f"frame-delivered-with-wrong-key-{spec['alg']}", ["wrongkey", other.hex()])


def _api(ctx, spec, rng):
    """Parameter tampering at SecureData.get_plain_apdu (reaches AT / EFF / TPCI, which the frame path refuses earlier)."""
    key = bytes.fromhex(spec["key"])
    apdu = bytes.fromhex(spec["apdu"])
    alg = spec["alg"]
    scf = scf_for(alg == "auth")
    t0 = _tpci(spec["kind"])
    addr = spec["sa"].to_bytes(2, "big") + spec["da"].to_bytes(2, "big")
    base = dict(key=key, scf=scf, address_fields_raw=addr, address_type=CEMIAddressType.GROUP, frame_format=CEMIFrameFormat.STANDARD, tpci=t0)
    sd = SecureData.init_from_plain_apdu(apdu=apdu, sequence_number=spec["seq"], **base)
    body = sd.to_knx()
    try:
        ok = bytes(SecureData.from_knx(body).get_plain_apdu(**base)) == apdu
    except Exception:  # noqa: BLE001
        ok = False
    if not ok:
        ctx.violation("baseline-get_plain_apdu-rejects-own-output", {"spec": spec}, "get_plain_apdu rejects init_from_plain_apdu's own output")
        return
    ctx.count("api_baseline_ok")
    variants = [("address_type", dict(address_type=CEMIAddressType.INDIVIDUAL)),
                ("extended_frame_format", dict(frame_format=CEMIFrameFormat.LTE_HEE)),
                ("tpci", dict(tpci=tpci.TDataTagGroup() if t0.to_knx() == 0 else tpci.TDataGroup())),
                # another TPCI *octet* (T_Data_Individual / Broadcast share octet 0 with T_Data_Group: same frame, not tampering)
                ("tpci", dict(tpci=tpci.TDataConnected(sequence_number=rng.randrange(16))))]
    for raw_scf in range(256):
        try:
            other = SecurityControlField.from_knx(raw_scf)
        except ValueError:
            continue
        if other.to_knx() != scf.to_knx():
            variants.append(("scf", dict(scf=other)))
    for i in range(32):
        variants.append(("address_fields", dict(address_fields_raw=bytes(x ^ (0x80 >> (i % 8)) if j == i // 8 else x for j, x in enumerate(addr)))))
    for i in rng.sample(range(128), 16):
        variants.append(("key", dict(key=bytes(x ^ (0x80 >> (i % 8)) if j == i // 8 else x for j, x in enumerate(key)))))
    for i in range(len(body) * 8):
        variants.append(("asdu_bit", i))
    for name, change in variants:
        ctx.ev()
        ctx.count("api_tampers")
        args = dict(base)
        data = body
        if name == "asdu_bit":
            data = _flip(body, change)
        else:
            args.update(change)
        try:
            plain = SecureData.from_knx(data).get_plain_apdu(**args)
        except DataSecureError:
            ctx.count("api_rejected_" + name)
            ctx.distinct((alg, "api", name, "rejected"))
            continue
        except Exception as exc:  # noqa: BLE001 - not delivered either; recorded
            ctx.count(f"api_other_exception_{name}_{type(exc).__name__}")
            continue
        ctx.violation(f"api-tampered-{name}-accepted-{alg}", {"spec": spec, "param": name,
                      "change": change if isinstance(change, int) else {k: repr(v) for k, v in change.items()}, "plain": bytes(plain)},
                      f"get_plain_apdu accepted a frame although {name} differs from what was secured")


# ---------------------------------------------------------------------------
# key rotation: same XKNX object, file based secure configuration, stop(), the .knxkeys file replaced by an export with
# rotated group keys, start(): frames secured with the OLD key are "a different key" from then on

def _rotation_case(ctx, spec):
    import os
    import shutil
    import tempfile

    from vlib.ds_harness import KEYRING_PASSWORD, InterfaceSession, make_project, sync_keyring_loading, write_project_keyring
    from xknx.dpt import DPTArray
    from xknx.io import SecureConfig
    from xknx.telegram.apci import GroupValueWrite

    import random

    r = random.Random(spec["seed"])
    gas = spec["gas"]
    senders = spec["senders"]
    generations = [{g: bytes.fromhex(k) for g, k in zip(gas, ks)} for ks in spec["keys"]]
    tmp = tempfile.mkdtemp(prefix="dsec-c16-", dir="/dev/shm" if os.path.isdir("/dev/shm") else None)
    path = os.path.join(tmp, "project.knxkeys")
    state = {"tag": 0, "counter": 10}
    frames = []  # (tag, phase, key generation, timing)

    def frame(phase, generation, timing):
        state["tag"] += 1
        state["counter"] += 1
        ga, sa = r.choice(gas), r.choice(senders)
        payload = GroupValueWrite(DPTArray((0xA5, state["tag"] & 0xFF, state["tag"] >> 8)))
        raw = Node({ga: generations[generation][ga]}, {}, own_address=sa, last_seq_sending=state["counter"]).secure_sync(
            Telegram(destination_address=GroupAddress(ga), payload=payload))
        frames.append((state["tag"], phase, generation, timing))
        return raw

    try:
        with sync_keyring_loading():
            write_project_keyring(make_project(generations[0], {a: 0 for a in senders}), r, path)
            s = InterfaceSession(spec["transport"], SecureConfig(knxkeys_file_path=path, knxkeys_password=KEYRING_PASSWORD))

            async def main():
                for phase in range(len(generations)):
                    if phase:
                        await s.xknx.stop()
                        write_project_keyring(make_project(generations[phase], {a: 0 for a in senders}), r, path)
                        ctx.count("restarts_with_rotated_key_file")
                    older = list(range(phase))
                    s.burst = [frame(phase, phase, "with-connect-response")] + [frame(phase, g, "with-connect-response") for g in older]
                    s.right_after = [frame(phase, g, "right-after-connect-response") for g in older] + [frame(phase, phase, "right-after-connect-response")]
                    await s.xknx.start()
                    for g in older + [phase]:
                        s.push(frame(phase, g, "later"), delay=0.02)
                    await s.settle(0.5)
                await s.xknx.stop()

            try:
                s.run(main())
            except Exception as exc:  # noqa: BLE001
                ctx.inconclusive(f"rotation case did not finish: {type(exc).__name__}: {exc}")
                return
            finally:
                s.close()
    finally:
        shutil.rmtree(tmp, ignore_errors=True)
    ctx.count("rotation_cases")
    tags = []
    for t in s.telegrams:
        try:
            v = t.payload.value.value
            tags.append(v[1] | (v[2] << 8) if v[0] == 0xA5 else None)
        except Exception:  # noqa: BLE001
            tags.append(None)
    for tag, phase, generation, timing in frames:
        ctx.ev()
        n = tags.count(tag)
        ctx.distinct(("rotation", spec["transport"], phase, generation == phase, timing, n))
        wit = {"spec": spec, "phase": phase, "frame_secured_with_key_generation": generation, "timing": timing, "delivered": n}
        if generation == phase:
            if n == 1:
                ctx.count("rotation_current_key_delivered")
            else:
                ctx.count("rotation_control_failed")
                ctx.inconclusive(f"control failed: frame secured with the configured key (phase {phase}, {timing}) delivered {n} times")
        elif n:
            ctx.violation("frame-secured-with-replaced-key-delivered-after-restart", wit,
                          f"{spec['transport']}: after the restart with a rotated-key keyring a frame secured with the old key ({timing}) was delivered")
        else:
            ctx.count("rotation_old_key_rejected")
            ctx.count(f"rotation_old_key_rejected_{timing}")


def _rotation_spec(rng, i):
    gas = rng.sample(range(1, 0x10000), rng.choice((1, 2)))
    return {"transport": ("tcp", "udp")[i % 2], "gas": gas, "senders": rng.sample(range(0x100, 0xFFFF), 2),
            "keys": [[rng.randbytes(16).hex() for _ in gas] for _ in range(2 + (i % 3 == 2))], "seed": rng.randrange(1 << 30)}


def _spec(rng, alg, kind, length):
    payload = group_payload(rng, length)
    if length >= 2 and rng.random() < 0.5:
        # APDU ending in zero octets (zero padding of the CBC-MAC input must not make its length malleable)
        from xknx.dpt import DPTArray
        from xknx.telegram.apci import GroupValueWrite

        data = bytearray(rng.randbytes(length - 1))
        k = rng.randrange(1, min(len(data), 4) + 1)
        data[len(data) - k :] = bytes(k)
        payload = GroupValueWrite(DPTArray(tuple(data)))
    sa = rng.randrange(1, 0x10000)
    da = 0 if kind == "broadcast" else rng.randrange(1, 0x10000)
    seq = rng.randrange(2, 1 << 48) if rng.random() < 0.8 else rng.choice((2, 255, 256, (1 << 48) - 1))
    rx = rng.randrange(1, 0x10000)
    return {"key": rng.randbytes(16).hex(), "sa": sa, "da": da, "kind": kind, "alg": alg, "seq": seq,
            "last": rng.choice((0, seq - 1, rng.randrange(0, seq))), "rx": rx if rx != sa else (sa % 0xFFFF) + 1,
            "apdu": bytes(payload.to_knx()).hex()}


def run(ctx):
    rng = ctx.rng
    ctx.rule = (
        "per generated frame: all single-bit flips (classified protected / unprotected / no-claim by position), all truncation lengths "
        "(with and without repaired length octet), 138 wrong keys on a subset, parameter tampering at get_plain_apdu; "
        "distinct = (algorithm, TPCI kind, APDU length class, bit class, bit position, outcome)"
    )
    ctx.require("baseline_delivered", "flips_protected", "flips_unprotected", "unprotected_flip_accepted", "truncations", "wrong_keys", "length_tampers", "length_tamper_append",
                "length_tamper_strip", "length_tamper_insert", "length_tamper_delete", "length_tampers_on_apdu_ending_in_zero",
                "frames_enc", "frames_auth", "frames_short", "frames_long", "api_baseline_ok", "api_tampers",
                "rejected_mac", "rejected_secured_apdu", "rejected_sequence_number", "rejected_scf", "rejected_source",
                "rejected_destination", "rejected_tpci", "rejected_address_type", "rejected_extended_frame_format",
                "api_rejected_address_type", "api_rejected_extended_frame_format", "api_rejected_tpci")
    nframes = ctx.scale(44, 4800)
    ctx.require("rotation_cases", "restarts_with_rotated_key_file", "rotation_current_key_delivered", "rotation_old_key_rejected_with-connect-response",
                "rotation_old_key_rejected_later")
    for i in range(ctx.scale(8, 320)):
        spec = _rotation_spec(rng, i)
        if ctx.mine(i):
            with observing_management():
                _rotation_case(ctx, spec)
    with observing_management():
        for i in range(nframes):
            alg = ("enc", "auth")[i % 2]
            kind = "group" if i % 8 < 6 else ("tag" if i % 8 == 6 else "broadcast")
            length = LENGTHS[(i // 2) % len(LENGTHS)] if i < 2 * len(LENGTHS) else rng.choice(LENGTHS + (rng.randrange(1, 241),))
            if ctx.quick and length > 100 and i >= 2 * len(LENGTHS):
                length = rng.randrange(1, 60)
            spec = _spec(rng, alg, kind, length)
            if not ctx.mine((i * 0x9E3779B1) >> 12):
                continue
            _frame(ctx, spec)
            if i % 4 < 2:
                _wrong_keys(ctx, spec, rng)
            _api(ctx, dict(spec, api=True), rng)
    ctx.exhaustive = True
    ctx.extra["exhaustive_part"] = "every single-bit flip and every truncation length of each generated frame"


def replay(ctx, witness):
    spec = witness["spec"]
    if "gas" in spec:
        with observing_management():
            _rotation_case(ctx, spec)
        ctx.distinct("replay")
        ctx.distinct("replay2")
        return
    with observing_management():
        variant = witness.get("variant")
        if variant and variant[0] == "wrongkey":
            _wrong_keys(ctx, spec, ctx.rng, only=variant[1])
        elif variant:
            _frame(ctx, spec, only=variant)
        else:
            _api(ctx, dict(spec, api=True), ctx.rng)
    ctx.distinct("replay")
    ctx.distinct("replay2")
