"""C25 connection lifecycle under any failure schedule (UDP and TCP tunnels, failures at every loop iteration)."""

from __future__ import annotations

import asyncio
from contextlib import contextmanager
import itertools

from vlib.peers_tunnel import (
    SECURE_DEVICE_PASSWORD,
    SECURE_USER_ID,
    SECURE_USER_PASSWORD,
    Gateway,
    IterationInjector,
    SecureGateway,
    make_cemi,
    secure_harness,
)
from vlib.vloop import Deadlock, LoopBudget, new_loop
from xknx import XKNX
from xknx.core import XknxConnectionState, XknxConnectionType
from xknx.core.connection_manager import ConnectionManager
from xknx.exceptions import CommunicationError
from xknx.io.tunnel import SecureTunnel, TCPTunnel, UDPTunnel, _Tunnel

LEVEL = "fault_enumeration"
TECHNIQUE = ("runtime monitor: failure events injected at every event-loop iteration (and in the middle of every sleep) of a real "
             "tunnel session; monitors on _Tunnel._reconnect concurrency, gateway-side handshakes, bytes after disconnect(), the two "
             "registered state callbacks, and 'connected' vs. an event-derived established-connection automaton at every sleep point")
LEVEL_TEXT = (
    "Baseline session (connect, send, heartbeat at 70 s, two sends, heartbeat at 140 s, disconnect, 200 s of silence) for the real "
    "UDPTunnel (also with route_back), TCPTunnel and SecureTunnel (against a scripted secure server built on the reference "
    "crypto) with auto-reconnect on and off, also after two disconnect()/connect() lives of the same tunnel object and as a "
    "second tunnel object on the same XKNX after a first one was disconnected (faults then start in the first one's life), on the virtual loop against a scripted gateway. Failure events "
    "{server DisconnectRequest (single / duplicated / with the next ConnectRequests unanswered / with the next ConnectResponse 0.7 s late), heartbeat unanswered x4 / x3, "
    "ACKs dropped x2 / x1, TCP connection lost, secure session closed by the server (status close / timeout), user disconnect()} are injected at EVERY loop iteration index of the run and in "
    "the middle of every sleep and, for the kinds that are in flight for a few ms, 2 ms before every sleep ends; plus ordered pairs of failure kinds with the second one at every iteration within a window after the first (quick: "
    "second kind in {server disconnect, user disconnect}, window 1; thorough: all kinds, window 10 and two farther points). "
    "Bounded exhaustive enumeration of single faults (pairs: windowed). UDP and TCP sessions are also run with "
    "ConnectionManager.register_loop() (state changes travel through call_soon_threadsafe, as with the threaded interface). "
    "ConnectionManager alone: every sequence of 1..6 (thorough 7) connection_state_changed() calls over the three states, with "
    "0 / 1 / 3 loop turns between the calls (all turn patterns up to length 4 / 5), with and without register_loop(), compared "
    "with the reference fold (issued sequence without consecutive duplicates)."
)
LEVEL_NOTE = (
    "Trusted: virtual loop, scripted gateway, the reference IP Secure crypto of the secure peer (PBKDF2 results memoised, ECDH "
    "keys seeded). Secure tunnel: single faults in quick, pairs in thorough; 'nothing sent' includes SessionRequest, wrapped "
    "keep-alives and new TCP connections. Judged: (1) never two _Tunnel._reconnect executions "
    "at once, never a ConnectRequest while an earlier handshake is still open; (2) after the first user disconnect() returned: no "
    "frame on any transport, no new TCP connection; (3) both state callbacks see the same sequence without consecutive "
    "duplicates; connected.is_set() == (state is CONNECTED) at every callback and sleep point; (4) at every point where virtual "
    "time is about to pass, state is CONNECTED exactly if a ConnectResponse(E_NO_ERROR) was accepted and since then no "
    "DisconnectRequest in either direction, no transport loss and no user disconnect happened; Zero-duration windows inside one virtual "
    "instant are not judged. Failures are injected from the iteration at which the user's initial connect() returned, and server-"
    "side disconnects / out-of-order frames only once the ConnectResponse of the current channel has been delivered (the "
    "statement's failure kinds presuppose a connection; a reconnect handshake overlapping the user's own connect() is recorded). ConnectionManager section: both callbacks get exactly the folded sequence, final state = last "
    "issued, connected event, connection_type and connected_since consistent (no real thread is used: register_loop() mode is "
    "driven from the loop itself). Recorded only: exceptions at the loop handler, "
    "tasks alive at the end, UDP endpoints opened after disconnect, sends that failed."
)
SHARDS = {"quick": 1, "thorough": 16}
TIMEOUT = {"quick": 300, "thorough": 3000}

EPS = 1e-9
CONFIGS = (("udp", True, False), ("udp", False, False), ("udp", True, True), ("udp", True, "registered-loop"),
           ("udp", True, "reuse-cycles"), ("udp", False, "reuse-cycles"), ("udp", True, "second-tunnel"),
           ("udp", False, "second-tunnel"), ("tcp", True, "reuse-cycles"), ("tcp", False, "second-tunnel"),
           ("tcp", True, False), ("tcp", False, False), ("tcp", True, "registered-loop"),
           ("secure", True, False), ("secure", False, False))
FAULTS_UDP = ("SD", "SD2", "SDL", "SDRE", "SDCR", "SDCD", "OOOL", "HB4", "HB3", "AD2", "AD1", "OOO", "BO", "BOUD", "UD")
FAULTS_TCP = ("SD", "SD2", "SDL", "SDRE", "SDCR", "SDCD", "HB4", "HB3", "TL", "TLCR", "BO", "BOUD", "UD")

FAULTS_SECURE = ("SD", "SD2", "SDL", "SDRE", "SDCR", "SDCD", "HB4", "HB3", "TL", "TLCR", "SC", "ST", "BO", "BOUD", "UD")

_current = {"session": None}


@contextmanager
def watch_reconnect():
    """Count concurrent executions of _Tunnel._reconnect (class-level wrapper, restored afterwards)."""
    orig = _Tunnel._reconnect

    async def wrapped(self):
        s = _current["session"]
        if s is not None:
            s.reconnect_enter()
        try:
            return await orig(self)
        finally:
            if s is not None:
                s.reconnect_exit()

    _Tunnel._reconnect = wrapped
    try:
        yield
    finally:
        _Tunnel._reconnect = orig


class Session:
    """One run of the session with its monitors."""

    def __init__(self, transport, auto, faults, route_back=False):
        self.transport = transport
        self.auto = auto
        # third configuration field: False | True (route_back) | "registered-loop" (ConnectionManager.register_loop() mode)
        # ... | "reuse-cycles" (disconnect()/connect() cycles on the same tunnel object first) | "second-tunnel" (a first tunnel
        # object is used and disconnected, then a second one on the same XKNX / ConnectionManager runs the session)
        self.variant = route_back if isinstance(route_back, str) else None
        self.registered = route_back == "registered-loop"
        self.route_back = route_back is True
        self.faults = faults  # list of (kind, iteration, frac)
        self.loop = new_loop()
        self.inj = IterationInjector(self.loop)
        self.gw = SecureGateway(self.loop) if transport == "secure" else Gateway(self.loop)
        self.problems = []
        self.counts = {}
        self.cb1 = []
        self.cb2 = []
        self.active_reconnects = 0
        self.max_reconnects = 0
        self.reconnects_started = 0
        self.hb_silent = 0
        self.ack_silent = 0
        self.connect_silent = 0
        self.connect_delayed = 0
        self.blackout_until = 0.0
        self.last_loss = "nothing"
        self.disconnect_again_after_reconnect = False
        self.established = False
        self.pending_connect = None  # (transport index, time)
        self.user_disconnect_called = False
        self.user_disconnect_returned = False
        self.tunnel = None
        self.xknx = None
        self.injected = []
        self.first_tunnel = None
        self.life = 0
        self.k_connected = 0
        gw = self.gw
        gw.hb_policy = self._hb_policy
        gw.ack_policy = self._ack_policy
        gw.connect_policy = self._connect_policy
        gw.disc_policy = self._disc_policy
        gw.listeners.append(self._on_event)
        self.inj.sleep_hook = self._sleep_point
        if transport == "secure":
            gw.session_policy = lambda: "silent" if self._blackout() else "ok"

            def on_connection(tr):
                self._on_tcp_connection(tr)
                gw.on_connection(tr)

            self.loop.on_connection = on_connection
        else:
            self.loop.on_connection = self._on_tcp_connection
        self.loop.on_datagram_endpoint = self._on_udp_endpoint

    # -- helpers ------------------------------------------------------------
    def flag(self, mech, **detail):
        if not any(m == mech for m, _ in self.problems):
            detail["t"] = round(self.loop.time() - 1000, 4)
            self.problems.append((mech, detail))

    def count(self, key, n=1):
        self.counts[key] = self.counts.get(key, 0) + n

    # -- gateway policies (fault state) -----------------------------------------
    def _blackout(self):
        if self.loop.time() < self.blackout_until:
            self.count("frames_swallowed_by_blackout")
            return True
        return False

    def _disc_policy(self, n, body):
        return "silent" if self._blackout() else "ok"

    def _hb_policy(self, n, body):
        if self._blackout():
            return "silent"
        if self.hb_silent > 0:
            self.hb_silent -= 1
            self.count("heartbeats_left_unanswered")
            return "silent"
        return "ok"

    def _ack_policy(self, n, body):
        if self._blackout():
            return "lost"
        if self.ack_silent > 0:
            self.ack_silent -= 1
            self.count("acks_dropped")
            return "lost"
        return "ok"

    def _connect_policy(self, n, body):
        if self._blackout():
            return "silent"
        if self.connect_silent > 0:
            self.connect_silent -= 1
            self.count("connect_requests_left_unanswered")
            return "silent"
        if self.connect_delayed > 0:
            self.connect_delayed -= 1
            self.count("connect_responses_delayed")
            return 0.7
        return "ok"

    # -- monitors -------------------------------------------------------------
    def reconnect_enter(self):
        self.active_reconnects += 1
        self.reconnects_started += 1
        self.max_reconnects = max(self.max_reconnects, self.active_reconnects)
        self.gw.note("reconnect_enter", active=self.active_reconnects)
        if self.active_reconnects > 1:
            self.flag("two-reconnect-attempts-at-once", active=self.active_reconnects)

    def reconnect_exit(self):
        self.active_reconnects -= 1
        self.gw.note("reconnect_exit", active=self.active_reconnects)
        if self.disconnect_again_after_reconnect and self.gw.is_open:
            self.disconnect_again_after_reconnect = False
            self.loop.call_soon(self._disconnect_again)

    def _disconnect_again(self):
        if self.gw.is_open:
            self.count("server_disconnect_right_after_reconnect")
            self.gw.note("fault", fault="SDRE-second")
            self.gw.send_disconnect_request()

    def _on_tcp_connection(self, tr):
        self.gw.note("tcp_connection_opened", tr=self.gw.tr_index(tr))
        if self.user_disconnect_returned:
            self.flag("tcp-connection-opened-after-user-disconnect")

    def _on_udp_endpoint(self, tr):
        self.gw.note("udp_endpoint_opened", tr=self.gw.tr_index(tr))
        if self.user_disconnect_returned:
            self.count("udp_endpoint_opened_after_disconnect_recorded")

    def _on_event(self, t, kind, info):
        typ = info.get("type")
        if kind == "tx":
            if self.user_disconnect_returned:
                self.flag(f"{typ}-sent-after-user-disconnect", frame=info)
            if typ == "ConnectRequest":
                if self.pending_connect is not None and t < self.pending_connect[1] + 1.0 - 1e-6:
                    if self.pending_connect[2]:
                        # the user's own connect() is still waiting: not a second *re*connect attempt - recorded only
                        self.count("reconnect_handshake_during_initial_connect_recorded")
                    else:
                        self.flag("connect-request-while-earlier-handshake-open", earlier=self.pending_connect[1] - 1000)
                self.pending_connect = (info["tr"], t, self.counts.get("handshakes_started", 0) == 0)
                self.established = False
                self.count("handshakes_started")
            elif typ == "DisconnectRequest":
                self.established = False
                self.last_loss = "own-DisconnectRequest"
        elif kind == "rx":
            if typ == "DisconnectRequest":
                self.established = False
                self.last_loss = "server-DisconnectRequest"
            elif typ == "SessionStatus":  # the server closed the secure session (close / timeout)
                self.established = False
                self.pending_connect = None
                self.last_loss = "server-session-close"
        elif kind == "rx_done":
            if typ == "ConnectResponse":
                pc = self.pending_connect
                if pc is not None and t <= pc[1] + 1.0 - 1e-6 and not self.user_disconnect_called:
                    self.established = True
                    self.count("handshakes_completed")
                self.pending_connect = None
        elif kind == "transport_lost":
            self.established = False
            self.pending_connect = None
            self.last_loss = "transport-loss"
        elif kind == "user_disconnect_called":
            self.established = False
            self.pending_connect = None
            self.last_loss = "user-disconnect"

    def _state_cb1(self, state):
        self.cb1.append(state.name)
        self.gw.note("state", state=state.name)
        cm = self.xknx.connection_manager
        if cm.connected.is_set() != (cm.state is XknxConnectionState.CONNECTED):
            self.flag("connected-event-differs-from-state-at-callback", state=state.name)
        if state is XknxConnectionState.CONNECTED and not self.established:
            # may be a zero-duration blip inside one virtual instant: judged at the next sleep point only
            self.count("CONNECTED_callback_without_established_connection_recorded")

    def _state_cb2(self, state):
        self.cb2.append(state.name)

    def _sleep_point(self, timeout):
        if self.xknx is None:
            return
        cm = self.xknx.connection_manager
        self.count("sleep_points_checked")
        connected = cm.state is XknxConnectionState.CONNECTED
        if cm.connected.is_set() != connected:
            self.flag("connected-event-differs-from-state-at-sleep-point", state=cm.state.name)
        if connected and not self.established:
            cause = "user-disconnect" if self.user_disconnect_called else self.last_loss
            self.flag(f"state-CONNECTED-with-no-connection-after-{cause}", iteration=self.inj.now)
        elif self.established and not connected:
            self.flag(f"state-{cm.state.name}-while-connection-established", iteration=self.inj.now)

    # -- faults -----------------------------------------------------------------
    def apply(self, kind):
        gw = self.gw
        self.injected.append((kind, self.inj.now, round(self.loop.time() - 1000, 4)))
        if kind in ("SD", "SD2", "SDCR", "SDRE", "SDCD"):
            if not gw.is_open:
                self.count("fault_not_applicable")
                return
            ch, tr = gw.channel, gw.transport
            if kind == "SDCR":
                self.connect_silent = 2
            if kind == "SDCD":  # ... and the next ConnectResponse is 0.7 s late
                self.connect_delayed = 1
            if kind == "SDRE":  # ... and the server disconnects again in the instant the reconnect has completed
                self.disconnect_again_after_reconnect = True
            gw.note("fault", fault=kind)
            gw.send_disconnect_request()
            if kind == "SD2":  # the datagram arrives twice
                gw.transport = tr
                gw.send_disconnect_request(channel=ch)
        elif kind == "SDL":  # in flight for one latency: crosses whatever the client does meanwhile
            if not gw.is_open:
                self.count("fault_not_applicable")
                return
            gw.note("fault", fault=kind)
            gw.send_disconnect_request(delay=gw.latency)
        elif kind == "OOO":  # a TunnellingRequest with an unexpected counter: the tunnel gives up 2 s later
            if not gw.is_open:
                self.count("fault_not_applicable")
                return
            gw.note("fault", fault=kind)
            gw.send_tunnelling_request(200, make_cemi(99).to_knx())
        elif kind == "OOOL":  # the same, in flight for one latency: may cross a DisconnectRequest of the client
            if not gw.is_open:
                self.count("fault_not_applicable")
                return
            gw.note("fault", fault=kind)
            gw.send_tunnelling_request(200, make_cemi(98).to_knx(), delay=gw.latency * 0.6)
        elif kind in ("BO", "BOUD"):  # the gateway / network goes silent for 5 s
            gw.note("fault", fault=kind)
            self.blackout_until = self.loop.time() + 5.0
            if kind == "BOUD" and not self.user_disconnect_called and self.tunnel is not None:
                self.loop.call_later(0.5, lambda: None if self.user_disconnect_called else self.loop.create_task(self.user_disconnect()))
        elif kind in ("SC", "ST"):  # secure session closed by the server: status close (5) / timeout (3)
            if not gw.is_open:
                self.count("fault_not_applicable")
                return
            gw.note("fault", fault=kind)
            gw.send_session_status(5 if kind == "SC" else 3)
        elif kind in ("HB4", "HB3"):
            gw.note("fault", fault=kind)
            self.hb_silent = 4 if kind == "HB4" else 3
        elif kind in ("AD2", "AD1"):
            gw.note("fault", fault=kind)
            self.ack_silent = 2 if kind == "AD2" else 1
        elif kind in ("TL", "TLCR"):
            tr = gw.transport
            if tr is None or tr.closed:
                self.count("fault_not_applicable")
                return
            if kind == "TLCR":
                self.connect_silent = 2
            gw.note("fault", fault=kind)
            gw.lose_transport(tr)
        elif kind == "UD":
            if self.user_disconnect_called or self.tunnel is None:
                self.count("fault_not_applicable")
                return
            gw.note("fault", fault=kind)
            self.loop.create_task(self.user_disconnect())
        self.count(f"fault_{kind}")

    async def user_disconnect(self):
        first = not self.user_disconnect_called
        life = self.life  # a disconnect() still running when the user connects again belongs to the previous life
        self.user_disconnect_called = True
        self.gw.note("user_disconnect_called")
        try:
            await self.tunnel.disconnect()
        except CommunicationError as exc:
            self.gw.note("user_disconnect_raised", exc=repr(exc)[:100])
        if life != self.life:
            return
        if first or not self.user_disconnect_returned:
            self.user_disconnect_returned = True
            self.gw.note("user_disconnect_returned")

    async def user_connect(self, tunnel=None):
        """The user opens a connection again (same object, or a new tunnel object on the same XKNX)."""
        if tunnel is not None:
            self.tunnel = tunnel
        self.user_disconnect_called = False
        self.user_disconnect_returned = False
        self.gw.note("user_connect_called")
        self.count("user_reconnects")
        try:
            await self.tunnel.connect()
        except CommunicationError:
            self.count("user_reconnect_failed_recorded")

    def make_tunnel(self):
        if self.transport == "udp":
            return UDPTunnel(self.xknx, cemi_received_callback=lambda raw: None, gateway_ip="10.0.0.2",
                             gateway_port=3671, local_ip="10.0.0.1", route_back=self.route_back,
                             auto_reconnect=self.auto, auto_reconnect_wait=3)
        if self.transport == "secure":
            return SecureTunnel(self.xknx, cemi_received_callback=lambda raw: None, gateway_ip="10.0.0.2",
                                gateway_port=3671, user_id=SECURE_USER_ID, user_password=SECURE_USER_PASSWORD,
                                device_authentication_password=SECURE_DEVICE_PASSWORD,
                                auto_reconnect=self.auto, auto_reconnect_wait=3)
        return TCPTunnel(self.xknx, cemi_received_callback=lambda raw: None, gateway_ip="10.0.0.2",
                         gateway_port=3671, auto_reconnect=self.auto, auto_reconnect_wait=3)

    # -- the session ------------------------------------------------------------
    async def send(self, tag):
        try:
            await self.tunnel.send_cemi(make_cemi(tag))
        except CommunicationError:
            self.count("sends_failed_recorded")
        else:
            self.count("sends_ok")

    async def main(self):
        loop = self.loop
        self.xknx = XKNX()
        cm = self.xknx.connection_manager
        if self.registered:
            await cm.register_loop()  # state changes now travel through call_soon_threadsafe
        cm.register_connection_state_changed_cb(self._state_cb1)
        cm.register_connection_state_changed_cb(self._state_cb2)
        self.tunnel = self.make_tunnel()
        if self.variant == "reuse-cycles":
            # object reuse: two complete lives of the same tunnel object before the judged session
            for n in range(2):
                try:
                    await self.tunnel.connect()
                except CommunicationError:
                    self.count("initial_connect_failed_recorded")
                await self.send(10 + n)
                await asyncio.sleep(1 + 75 * n)
                await self.user_disconnect()
                await asyncio.sleep(3)  # silence is judged here as well
                self.user_disconnect_called = self.user_disconnect_returned = False
                self.life += 1
                self.gw.note("user_connect_called")
                self.count("user_reconnects")
        elif self.variant == "second-tunnel":
            # a first tunnel object lives and is disconnected; failures are injected from here on, so that late events of
            # the first object (e.g. the 2 s out-of-order timer) fall into the life of the second one
            try:
                await self.tunnel.connect()
            except CommunicationError:
                self.count("initial_connect_failed_recorded")
            self.k_connected = self.inj.now
            await self.send(20)
            await asyncio.sleep(1)
            await self.user_disconnect()
            self.first_tunnel = self.tunnel
            self.tunnel = self.make_tunnel()
            self.user_disconnect_called = self.user_disconnect_returned = False
            self.life += 1
            self.gw.note("user_connect_called")
            self.count("second_tunnel_objects")
        t0 = loop.time()
        try:
            await self.tunnel.connect()
        except CommunicationError:
            self.count("initial_connect_failed_recorded")
        if self.variant != "second-tunnel":
            self.k_connected = self.inj.now
        await self.send(1)
        await asyncio.sleep(max(0.0, t0 + 75 - loop.time()))  # heartbeat at 70 s
        await self.send(2)
        await self.send(3)
        await asyncio.sleep(max(0.0, t0 + 150 - loop.time()))  # heartbeat at 140 s
        await self.user_disconnect()
        await asyncio.sleep(200)  # silence?
        return [t for t in asyncio.all_tasks() if t is not asyncio.current_task() and not t.done()]

    def run(self):
        for kind, k, frac in self.faults:
            self.inj.at(k, lambda kind=kind: self.apply(kind), frac)
        _current["session"] = self
        err = None
        alive = []
        try:
            alive = self.loop.run(self.main(), max_vtime=3000)
        except (Deadlock, LoopBudget) as exc:
            err = repr(exc)
        finally:
            _current["session"] = None
            self.iterations = self.inj.now
            self.sleeps = list(self.inj.sleeps)
            self.loop.finish()
        self.driver_error = err
        self.tasks_alive = len(alive)
        # end-of-run oracles
        if self.cb1 != self.cb2:
            self.flag("state-callbacks-saw-different-sequences", first=self.cb1, second=self.cb2)
        for a, b in zip(self.cb1, self.cb1[1:]):
            if a == b:
                self.flag("state-callback-notified-twice-for-one-state", state=a, sequence=self.cb1)
                break
        return self


def history(s, limit=80):
    out = []
    for t, kind, info in s.gw.log:
        if kind == "rx_done":
            continue
        d = {k: v for k, v in info.items() if k not in ("cemi",)}
        out.append([round(t - 1000, 4), kind, d])
    return out[-limit:]


def judge_session(ctx, transport, auto, faults, sample=False, route_back=False):
    ctx.ev()
    s = Session(transport, auto, faults, route_back).run()
    applied = [f for f in s.injected]
    for k, v in s.counts.items():
        ctx.count(k, v)
    ctx.count(f"runs_{transport}_{'auto' if auto else 'noauto'}{'_route_back' if route_back is True else '_' + route_back.replace('-', '_') if route_back else ''}")
    ctx.count("reconnects_started", s.reconnects_started)
    ctx.count("state_callbacks", len(s.cb1))
    if s.driver_error:
        ctx.count("driver_did_not_finish_recorded")
    if s.loop.exceptions:
        ctx.count("loop_exceptions_recorded", len(s.loop.exceptions))
    if s.gw.receive_path_exceptions:
        ctx.count("receive_path_exceptions_recorded", len(s.gw.receive_path_exceptions))
    if s.tasks_alive:
        ctx.count("tasks_alive_at_end_recorded", s.tasks_alive)
    if s.user_disconnect_returned:
        ctx.count("user_disconnect_returned")
    ctx.distinct((transport, auto, route_back, tuple(k for k, _, _ in faults), tuple(s.cb1), s.reconnects_started, s.counts.get("handshakes_started", 0)))
    if sample:
        ctx.sample({"transport": transport, "auto_reconnect": auto, "faults": faults, "states": s.cb1,
                    "reconnects": s.reconnects_started, "iterations": s.iterations}, cap=6)
    for mech, detail in s.problems:
        kinds = "+".join(k for k, _, _ in faults) or "none"
        ctx.violation(
            f"{transport}-{'auto' if auto else 'noauto'}-{mech}",
            {"transport": transport, "auto_reconnect": auto, "route_back": route_back, "faults": [list(f) for f in faults],
             "applied": applied,
             "detail": detail, "states": s.cb1, "history": history(s)},
            f"{transport} tunnel auto_reconnect={auto}, faults {faults} (kind, loop iteration, fraction of sleep): {mech} {detail}; "
            f"states {s.cb1[-8:]} [{kinds}]",
        )
    return s


# ---------------------------------------------------------------------------
# ConnectionManager alone: bursts of connection_state_changed() calls between loop turns, both modes

CM_STATES = (XknxConnectionState.DISCONNECTED, XknxConnectionState.CONNECTING, XknxConnectionState.CONNECTED)
CM_TYPES = (XknxConnectionType.NOT_CONNECTED, XknxConnectionType.TUNNEL_UDP, XknxConnectionType.TUNNEL_TCP)


def cm_cases(quick):
    """(sequence of state indices, turns before each further call) - all orders incl. repeats, all turn patterns."""
    full = 4 if quick else 5
    longest = 6 if quick else 7
    for n in range(1, longest + 1):
        for seq in itertools.product(range(3), repeat=n):
            if n <= full:
                patterns = itertools.product((0, 1, 3), repeat=n - 1)
            else:
                patterns = [(0,) * (n - 1), (1,) * (n - 1), tuple((0, 1)[i % 2] for i in range(n - 1)),
                            tuple((0, 0, 3)[i % 3] for i in range(n - 1))]
            for turns in patterns:
                yield seq, tuple(turns)


async def cm_case(seq, turns, registered):
    """Run one case on a fresh ConnectionManager; returns a problem (mechanism, detail) or None, plus counts."""
    cm = ConnectionManager()
    if registered:
        await cm.register_loop()
    got1, got2, at_cb = [], [], []

    def cb1(state):
        got1.append(state.name)
        at_cb.append((state is cm.state, cm.connected.is_set() == (state is XknxConnectionState.CONNECTED)))

    cm.register_connection_state_changed_cb(cb1)
    cm.register_connection_state_changed_cb(lambda state: got2.append(state.name))
    applied = XknxConnectionState.DISCONNECTED
    applied_type = XknxConnectionType.NOT_CONNECTED
    want = []
    problem = None
    for i, idx in enumerate(seq):
        if i:
            for _ in range(turns[i - 1]):
                await asyncio.sleep(0)
        state, ctype = CM_STATES[idx], CM_TYPES[idx]
        cm.connection_state_changed(state, ctype)
        if state is not applied:  # reference fold: a real transition relative to the state applied so far
            want.append(state.name)
            applied, applied_type = state, ctype
        if not registered and got1 != want and problem is None:
            problem = ("callbacks-differ-from-transitions-right-after-the-call", {"after_call": i})
    for _ in range(4):  # let the loop apply whatever was queued
        await asyncio.sleep(0)
    detail = {"issued": [CM_STATES[i].name for i in seq], "turns_between_calls": list(turns), "expected_callbacks": want,
              "callback_1": got1, "callback_2": got2, "final_state": cm.state.name, "connected": cm.connected.is_set(),
              "connection_type": str(cm.connection_type)}
    if problem is None:
        if got1 != got2:
            problem = ("callbacks-saw-different-sequences", {})
        elif got1 != want:
            dup = any(a == b for a, b in zip(got1, got1[1:]))
            problem = ("callback-notified-twice-for-one-state" if dup else
                       "transition-not-reported" if len(got1) < len(want) else "callbacks-differ-from-transitions", {})
        elif cm.state is not applied:
            problem = ("final-state-is-not-the-last-issued-state", {})
        elif cm.connected.is_set() != (cm.state is XknxConnectionState.CONNECTED):
            problem = ("connected-event-differs-from-state", {})
        elif not all(a and b for a, b in at_cb):
            problem = ("state-or-connected-event-inconsistent-inside-callback", {})
        elif cm.connection_type is not applied_type:
            problem = ("connection-type-is-not-the-one-of-the-last-transition", {})
        elif (cm.connected_since is not None) != (cm.state is XknxConnectionState.CONNECTED):
            problem = ("connected_since-inconsistent-with-state", {})
    if problem is not None:
        problem = (problem[0], {**detail, **problem[1]})
    return problem, len(got1), len(seq) - len(want)


def cm_section(ctx):
    loop = new_loop()

    async def main():
        for registered in (False, True):
            mode = "registered-loop" if registered else "same-loop"
            for n, (seq, turns) in enumerate(cm_cases(ctx.quick)):
                if not ctx.mine(n):
                    continue
                ctx.ev()
                problem, delivered, deduped = await cm_case(seq, turns, registered)
                ctx.count(f"cm_cases_{mode.replace('-', '_')}")
                ctx.count("cm_calls_issued", len(seq))
                ctx.count("cm_callbacks_delivered", delivered)
                ctx.count("cm_calls_deduplicated", deduped)
                ctx.distinct(("cm", mode, seq, tuple(min(t, 1) for t in turns)))
                if len(seq) == 4 and n % 997 == 0:
                    ctx.sample({"connection_manager": mode, "issued": [CM_STATES[i].name for i in seq], "turns": turns}, cap=8)
                if problem is not None:
                    ctx.violation(f"connection-manager-{mode}-{problem[0]}", {"section": "connection_manager", "mode": mode,
                                                                             "seq": list(seq), "turns": list(turns), **problem[1]},
                                  f"ConnectionManager ({mode}): issued {problem[1]['issued']} with {list(turns)} loop turns between "
                                  f"the calls: {problem[0]}; expected callbacks {problem[1]['expected_callbacks']}, got "
                                  f"{problem[1]['callback_1']}, final state {problem[1]['final_state']}")

    try:
        loop.iterations = 0
        loop.max_iterations = 50_000_000
        loop.run(main(), max_vtime=1e6)
    finally:
        loop.finish()


def run(ctx):
    ctx.rule = ("baseline session x {udp,tcp} x auto_reconnect {on,off}; every failure kind at every loop iteration k of the run and "
                "at the middle of every sleep (singles); pairs: (any kind, then SD or UD at k1..k1+1) in quick, all ordered pairs with the second at k1..k1+10, k1+12, k1+30 in thorough; "
                "distinct = (transport, auto, fault kinds, state-callback sequence, reconnects, handshakes)")
    ctx.require("fault_SD", "fault_SD2", "fault_SDL", "fault_SDRE", "server_disconnect_right_after_reconnect", "fault_SDCR", "fault_SDCD", "connect_responses_delayed",
                "runs_udp_auto_route_back", "runs_udp_auto_reuse_cycles", "runs_udp_noauto_reuse_cycles", "runs_udp_auto_second_tunnel",
                "runs_udp_noauto_second_tunnel", "runs_tcp_auto_reuse_cycles", "runs_tcp_noauto_second_tunnel", "user_reconnects",
                "second_tunnel_objects", "fault_OOOL", "runs_udp_auto_registered_loop", "runs_tcp_auto_registered_loop",
                "cm_cases_same_loop", "cm_cases_registered_loop", "cm_calls_issued", "cm_callbacks_delivered", "cm_calls_deduplicated", "fault_OOO", "fault_BO", "fault_BOUD", "frames_swallowed_by_blackout", "fault_HB4", "fault_HB3", "fault_AD2", "fault_AD1", "fault_TL", "fault_TLCR",
                "fault_UD", "fault_SC", "fault_ST", "runs_secure_auto", "runs_secure_noauto", "reconnects_started", "handshakes_completed", "state_callbacks", "sleep_points_checked",
                "user_disconnect_returned", "heartbeats_left_unanswered", "acks_dropped", "connect_requests_left_unanswered")
    window = ctx.scale(1, 10)
    i = 0
    with watch_reconnect(), secure_harness(ctx.seed):
        for transport, auto, rb in CONFIGS:
            base = judge_session(ctx, transport, auto, [], sample=True, route_back=rb)
            n_iter = base.iterations
            sleeping = set(base.sleeps)
            ctx.extra[f"baseline_iterations_{transport}_{'auto' if auto else 'noauto'}{'_rb' if rb is True else '_' + rb if rb else ''}"] = n_iter
            kinds = FAULTS_UDP if transport == "udp" else FAULTS_TCP if transport == "tcp" else FAULTS_SECURE
            if ctx.quick and transport == "secure":  # quick budget: the kinds specific to the secure session + the core ones
                kinds = ("SD", "SDRE", "HB4", "TL", "TLCR", "SC", "ST", "BOUD", "UD")
            k0 = base.k_connected  # failures are injected once the user's connect() has returned
            points = [(k, 0.0) for k in range(k0, n_iter)]
            if not (ctx.quick and (transport == "secure" or rb in ("reuse-cycles", "second-tunnel"))):  # quick budget
                points += [(k, 0.5) for k in sorted(sleeping) if k >= k0]
            # just before the end of every sleep: an event in flight crosses whatever the wake-up starts (e.g. disconnect())
            crossing = [(k, -0.002) for k in sorted(sleeping) if k >= k0]
            for kind in kinds:
                for k, frac in points + (crossing if kind in ("SDL", "OOOL") else []):
                    i += 1
                    if not ctx.mine(i):
                        continue
                    judge_session(ctx, transport, auto, [(kind, k, frac)], sample=(kind in ("SDCR", "HB4") and k == 20),
                                  route_back=rb)
            if not (ctx.quick and (transport == "secure" or rb)):  # these: singles in quick, pairs in thorough
                seconds = kinds if window > 2 else ("SD", "UD")
                far = [k1_off for k1_off in ((12, 30) if window > 2 else ())]
                for k1 in range(k0, n_iter):
                    for kind1 in kinds:
                        for kind2 in seconds:
                            w = window if not isinstance(rb, str) else min(window, 3)  # variants: a shorter pair window
                            for k2 in list(range(k1, k1 + w + 1)) + [k1 + d for d in far]:
                                i += 1
                                if not ctx.mine(i):
                                    continue
                                judge_session(ctx, transport, auto, [(kind1, k1, 0.0), (kind2, k2, 0.0)], route_back=rb)
    cm_section(ctx)
    ctx.exhaustive = True
    ctx.extra["bound"] = {"single_faults": "every iteration + middle of every sleep", "pair_window_iterations": window}


def replay(ctx, witness):
    ctx.rule = "replay of one recorded fault schedule"
    if witness.get("section") == "connection_manager":
        loop = new_loop()
        try:
            problem, _d, _x = loop.run(cm_case(tuple(witness["seq"]), tuple(witness["turns"]), witness["mode"] == "registered-loop"))
        finally:
            loop.finish()
        ctx.ev()
        if problem is not None:
            ctx.violation(f"connection-manager-{witness['mode']}-{problem[0]}", {**witness, **problem[1]}, f"replayed: {problem[0]}")
        ctx.distinct("replay")
        ctx.distinct("replay2")
        return
    with watch_reconnect(), secure_harness(ctx.seed):
        judge_session(ctx, witness["transport"], witness["auto_reconnect"], [tuple(f) for f in witness["faults"]],
                      route_back=witness.get("route_back") or False)
    ctx.distinct("replay")
    ctx.distinct("replay2")
