"""Structural equality for xknx objects that define no __eq__ (DESIGN §3.7)."""
from __future__ import annotations

import math
from typing import Any


def _slots(obj: Any) -> list[str]:
    names: list[str] = []
    for klass in type(obj).__mro__:
        s = klass.__dict__.get("__slots__", ())
        if isinstance(s, str):
            s = (s,)
        names.extend(n for n in s if n not in ("__weakref__", "__dict__"))
    return names


def same(a: Any, b: Any, depth: int = 0, _seen: set[tuple[int, int]] | None = None) -> bool:
    """a == b, or equal type and recursively equal slots/dict; NaN equals NaN."""
    if depth > 8:
        return bool(a == b)
    if _seen is None:
        _seen = set()
    if not isinstance(a, (int, float, str, bytes, type(None))):
        # a pair of objects already being compared (or compared) in this call is not walked again: shared members
        # (enum classes, module-level tables) would otherwise be re-walked once per path, which is exponential in the depth
        key = (id(a), id(b))
        if key in _seen:
            return True
        _seen.add(key)
    if isinstance(a, float) and isinstance(b, float):
        return (math.isnan(a) and math.isnan(b)) or a == b
    if type(a) is not type(b):
        # enums / ints / bools compare by ==; tuples vs lists are different
        try:
            return bool(a == b) and not isinstance(a, (list, tuple, dict)) 
        except Exception:  # noqa: BLE001
            return False
    if isinstance(a, (list, tuple)):
        return len(a) == len(b) and all(same(x, y, depth + 1, _seen) for x, y in zip(a, b))
    if isinstance(a, dict):
        return a.keys() == b.keys() and all(same(a[k], b[k], depth + 1, _seen) for k in a)
    has_eq = type(a).__eq__ is not object.__eq__
    if has_eq:
        try:
            if a == b:
                return True
        except Exception:  # noqa: BLE001
            return False
        # dataclass-like objects holding NaN or eq-less members: fall through
    names = _slots(a)
    d = getattr(a, "__dict__", None)
    if not names and not d:
        return False if has_eq else a is b
    for n in names:
        if hasattr(a, n) != hasattr(b, n):
            return False
        if hasattr(a, n) and not same(getattr(a, n), getattr(b, n), depth + 1, _seen):
            return False
    if d is not None:
        d2 = getattr(b, "__dict__", {})
        if d.keys() != d2.keys():
            return False
        if not all(same(d[k], d2[k], depth + 1, _seen) for k in d):
            return False
    return True
