"""C19 Data Secure CCM conformance against an independent implementation."""

from __future__ import annotations

from vlib import refcrypto_ds as ref
from vlib.ds_harness import Node, observing_management
from xknx.cemi.flags import CEMIAddressType, CEMIFrameFormat
from xknx.exceptions import DataSecureError
from xknx.secure.data_secure_asdu import SecureData, SecurityControlField
from xknx.telegram import GroupAddress, Telegram, tpci

LEVEL = "exploration"
TECHNIQUE = (
    "runtime monitor: octets produced by SecureData.init_from_plain_apdu / DataSecure.outgoing_cemi compared with an independent "
    "CCM written from the specification (single block AES only); reference output fed to SecureData.get_plain_apdu"
)
LEVEL_TEXT = (
    "Random keys, addresses, address type, extended frame format, every data TPCI coding, 48 bit sequence numbers, every "
    "constructible SCF, APDU lengths 0..240 (each length at least once per algorithm) for both algorithms, plus the producers driven directly with lengths a frame can not carry (241..65536, both algorithms; a refusal is recorded); exploration (sampled). "
    "The reference is re-validated on every run against the AN158 Annex A frame and the recorded ETS frame of the repository."
)
LEVEL_NOTE = (
    "Trusted base: the reference (vlib/refcrypto_ds.py, anchored in two vectors that do not come from xknx's encoder) and the AES "
    "block primitive of `cryptography`. No vector covers a non-zero TPCI; there the reference uses the TPCI octet as it stands in "
    "the frame (B0 octet = TPCI | 03) and a divergence found only there carries that caveat in its mechanism/witness."
)
SHARDS = {"quick": 1, "thorough": 16}
TIMEOUT = {"quick": 120, "thorough": 1500}

CAVEAT = (
    "all specification vectors use TPCI 0; for a non-zero TPCI the reference takes B0 octet 12 = (TPCI octet of the frame) | 0x03, "
    "xknx computes (tpci.to_knx() << 2) + 3 from an already aligned octet"
)


def _tpcis():
    out = [("T_Data_Group", tpci.TDataGroup()), ("T_Data_Broadcast", tpci.TDataBroadcast()),
           ("T_Data_Individual", tpci.TDataIndividual()), ("T_Data_Tag_Group", tpci.TDataTagGroup())]
    out += [("T_Data_Connected", tpci.TDataConnected(sequence_number=n)) for n in range(16)]
    return out


def _scf_octet_defined(raw):
    """SCF octets the specification defines: T | algorithm (0 auth, 1 encryption) | S | service (0 data, 2/3 sync)."""
    return (raw >> 4) & 0b111 in (0, 1) and raw & 0b111 in (0, 2, 3)


def _scfs(ctx=None):
    """Every SCF octet goes through the octet path SecurityControlField.from_knx(octet): it must come back as the same octet
    from to_knx() (this octet is what the MAC is computed over) or be refused; defined octets that are refused are recorded."""
    out = []
    for raw in range(256):
        try:
            scf = SecurityControlField.from_knx(raw)
        except ValueError:
            if ctx is not None:
                ctx.count("scf_octets_refused")
                if _scf_octet_defined(raw):
                    ctx.count("scf_defined_octet_refused")
            continue
        back = scf.to_knx()[0]
        if ctx is not None:
            ctx.ev()
            ctx.count("scf_octets_accepted")
            if back != raw:
                ctx.violation("scf-octet-reserialises-differently",
                              {"octet": raw, "reserialised": back, "parsed": str(scf)},
                              f"SecurityControlField.from_knx({raw:#04x}).to_knx() gives {back:#04x}: the MAC of a received frame would be computed over another SCF")
        if (raw >> 4) & 0b111 in (0, 1):
            out.append((raw, scf))
    return out


def _shifted_twice(key, apdu, spec, sa, da, octet):
    """What the reference gives when B0 carries (octet << 2) | 3, the suspected xknx deviation (None if that overflows)."""
    if octet & 0xFC == 0 or (octet << 2) + 3 > 255:
        return None
    return ref.asdu(key, apdu, spec["scf"], spec["seq"], sa, da, spec["at"], spec["eff"], (octet << 2) & 0xFF)


def _mech_raise(direction, exc, octet, tag):
    if isinstance(exc, ValueError) and octet & 0xFC and (octet << 2) + 3 > 255:
        return f"b0-tpci-octet-shifted-twice-overflows-ValueError-{tag}"
    return f"secure-{direction}-raises-{type(exc).__name__}-{tag}"


def _case(ctx, spec):
    key = bytes.fromhex(spec["key"])
    apdu = bytes.fromhex(spec["apdu"])
    sa, da = spec["sa"].to_bytes(2, "big"), spec["da"].to_bytes(2, "big")
    scf = SecurityControlField.from_knx(spec["scf"])
    if spec.get("scf_plain"):
        # the same control field with its enum fields given as equal plain ints (IntEnum members compare equal to them):
        # the octet, and therefore MAC and ciphertext, must be the same
        scf = SecurityControlField(tool_access=scf.tool_access, algorithm=int(scf.algorithm),
                                   system_broadcast=scf.system_broadcast, service=int(scf.service))
        ctx.count("scf_fields_given_as_plain_ints")
    tname, t = next((n, x) for n, x in _tpcis() if n == spec["tpci"] and x.sequence_number == spec.get("tseq", x.sequence_number))
    octet = t.to_knx()
    at = CEMIAddressType(spec["at"])
    eff = CEMIFrameFormat(spec["eff"])
    alg = "enc" if ref.scf_algorithm(spec["scf"]) == ref.ALG_ENC else "auth"
    expected = ref.asdu(key, apdu, spec["scf"], spec["seq"], sa, da, spec["at"], spec["eff"], octet)
    zero = octet & 0xFC == 0
    tag = "tpci0" if zero else tname
    wit = {"spec": spec, "tpci_octet": octet, "expected": expected}
    if not zero:
        wit["caveat"] = CAVEAT
    ctx.ev()
    ctx.count(f"encode_{alg}")
    ctx.count("tpci_zero" if zero else "tpci_nonzero")
    ctx.distinct((alg, tname, len(apdu), spec["at"], spec["eff"], spec["scf"]))
    # --- xknx encodes, reference is the oracle
    try:
        got = SecureData.init_from_plain_apdu(
            key=key, apdu=apdu, scf=scf, sequence_number=spec["seq"], address_fields_raw=sa + da,
            address_type=at, frame_format=eff, tpci=t,
        ).to_knx()
    except Exception as exc:  # noqa: BLE001
        ctx.violation(_mech_raise("encode", exc, octet, tag), dict(wit, exception=repr(exc)[:200]),
                      f"SecureData.init_from_plain_apdu raised {type(exc).__name__} for {tname} (TPCI octet {octet:#04x})")
        got = None
    if got is not None:
        if bytes(got) == expected:
            ctx.count("encode_equal")
        else:
            part = "mac" if bytes(got)[:-4] == expected[:-4] else ("ciphertext" if bytes(got)[-4:] == expected[-4:] else "mac+ciphertext")
            shifted = _shifted_twice(key, apdu, spec, sa, da, octet)
            if shifted is not None and bytes(got) == shifted:
                mech = f"b0-tpci-octet-shifted-twice-{tag}"
            else:
                mech = f"ccm-{part}-differs-{alg}-{tag}"
            ctx.violation(mech, dict(wit, xknx=bytes(got)),
                          f"{alg} / {tname}: xknx {bytes(got).hex()[:60]} != reference {expected.hex()[:60]} (APDU {len(apdu)} octets)")
    # --- reference encodes, xknx must accept and return the plain APDU
    ctx.count(f"decode_{alg}")
    try:
        plain = SecureData.from_knx(expected).get_plain_apdu(
            key=key, scf=scf, address_fields_raw=sa + da, address_type=at, frame_format=eff, tpci=t)
    except DataSecureError:
        shifted = _shifted_twice(key, apdu, spec, sa, da, octet)
        accepted_shifted = False
        if shifted is not None:
            try:
                accepted_shifted = bytes(SecureData.from_knx(shifted).get_plain_apdu(
                    key=key, scf=scf, address_fields_raw=sa + da, address_type=at, frame_format=eff, tpci=t)) == apdu
            except Exception:  # noqa: BLE001
                accepted_shifted = False
        mech = f"b0-tpci-octet-shifted-twice-{tag}" if accepted_shifted else f"reference-frame-rejected-{alg}-{tag}"
        ctx.violation(mech, wit, f"get_plain_apdu rejects the MAC of a frame produced by the reference ({alg}, {tname})")
    except Exception as exc:  # noqa: BLE001
        ctx.violation(_mech_raise("decode", exc, octet, tag), dict(wit, exception=repr(exc)[:200]),
                      f"get_plain_apdu raised {type(exc).__name__} for {tname}")
    else:
        if ctx.check(bytes(plain) == apdu, f"reference-frame-decrypts-differently-{alg}-{tag}", dict(wit, plain=bytes(plain)),
                     "get_plain_apdu returned other octets than the reference encrypted"):
            ctx.count("decode_equal")
    if ctx.evaluations <= 4:
        ctx.sample({"alg": alg, "tpci": tname, "scf": spec["scf"], "seq": spec["seq"], "apdu_len": len(apdu),
                    "reference": expected[:40], "xknx": None if got is None else bytes(got)[:40]})


def _wire_scf(ctx, rng, scfs):
    """Reference-built complete frames for every SCF octet, parsed by the real frame parser (the octet path of a receiver):
    the frame must re-serialise to the same octets and SecureData.get_plain_apdu with the *parsed* SCF must return the APDU."""
    from xknx.cemi import CEMIFrame
    from xknx.telegram.apci import SecureAPDU

    for raw_scf, _ in scfs:
        for group in (True, False):
            key = rng.randbytes(16)
            apdu = bytes((0, 0x80)) + rng.randbytes(rng.choice((0, 1, 3, 14)))
            sa, da, seq = rng.randrange(1, 0x10000), rng.randrange(1, 0x10000), rng.randrange(1 << 48)
            frame = ref.secure_ldata(key, apdu, scf=raw_scf, seq=seq, sa=sa, da=da, group=group)
            ctx.ev()
            wit = {"scf_octet": raw_scf, "key": key, "apdu": apdu, "sa": sa, "da": da, "seq": seq, "group": group, "frame": frame}
            try:
                cemi = CEMIFrame.from_knx(frame)
            except Exception as exc:  # noqa: BLE001 - a refusal (e.g. reserved service) is allowed; recorded
                ctx.count(f"wire_frame_refused_{type(exc).__name__}")
                continue
            ctx.count("wire_frames_parsed")
            payload = cemi.data.payload
            if not isinstance(payload, SecureAPDU):
                ctx.violation("secure-frame-not-parsed-as-secure-apdu", wit, "reference frame not parsed as SecureAPDU")
                continue
            ctx.distinct(("wire-scf", raw_scf, group))
            if bytes(cemi.to_knx()) != frame:
                ctx.violation("secure-frame-reserialises-differently", dict(wit, reserialised=bytes(cemi.to_knx())),
                              f"frame with SCF {raw_scf:#04x} parses and re-serialises to other octets")
            try:
                plain = payload.secured_data.get_plain_apdu(
                    key=key, scf=payload.scf, address_fields_raw=frame[4:8], address_type=cemi.data.address_type,
                    frame_format=cemi.data.flags.frame_format, tpci=cemi.data.tpci)
            except DataSecureError:
                ctx.violation(f"reference-frame-rejected-scf-from-octet-{'enc' if ref.scf_algorithm(raw_scf) else 'auth'}", wit,
                              f"frame produced by the reference with SCF {raw_scf:#04x} fails MAC verification once the SCF went through from_knx")
                continue
            if ctx.check(bytes(plain) == apdu, "reference-frame-decrypts-differently-scf-from-octet", dict(wit, plain=bytes(plain)),
                         "get_plain_apdu returned other octets"):
                ctx.count("wire_frames_accepted")


def _frame_case(ctx, rng):
    """Whole frame produced by DataSecure.outgoing_cemi vs the reference frame builder."""
    from vlib.ds_harness import group_payload

    key = rng.randbytes(16)
    sa, da = rng.randrange(1, 0x10000), rng.randrange(1, 0x10000)
    seq = rng.randrange(1, 1 << 48)
    payload = group_payload(rng, rng.choice((1, 1, 2, 3, 4, 5, 15, rng.randrange(1, 241))))
    apdu = bytes(payload.to_knx())
    node = Node({da: key}, {}, own_address=sa, last_seq_sending=seq)
    raw = node.secure_sync(Telegram(destination_address=GroupAddress(da), payload=payload))
    # unprotected octets (priority, repeat, hop count ...) are copied from what xknx chose
    expected = ref.secure_ldata(key, apdu, scf=0x10, seq=seq, sa=sa, da=da, group=True, ctrl1=raw[2], hop_count=(raw[3] >> 4) & 7)
    ctx.ev()
    ctx.count("frames_compared")
    ctx.distinct(("frame", len(apdu), type(payload).__name__))
    ctx.check(raw == expected, "outgoing-frame-octets-differ-from-reference",
              {"key": key, "sa": sa, "da": da, "seq": seq, "apdu": apdu, "xknx": raw, "reference": expected},
              f"outgoing_cemi frame {raw.hex()[:70]} != reference {expected.hex()[:70]}")


# ---------------------------------------------------------------------------
# the same CEMILData object secured again after fields were changed: the octets must follow the fields as they are now

def _reuse_case(ctx, rng):
    from vlib.ds_harness import group_payload, ind_from_req
    from xknx.cemi import CEMIFrame, CEMILData, CEMIMessageCode
    from xknx.telegram import IndividualAddress

    gas = rng.sample(range(1, 0x10000), 3)
    srcs = rng.sample(range(1, 0x10000), 3)
    keys = {g: rng.randbytes(16) for g in gas}
    node = Node(keys, {}, own_address=srcs[0], last_seq_sending=rng.randrange(1, 1 << 47))
    data = CEMILData.init_from_telegram(Telegram(destination_address=GroupAddress(gas[0]), payload=group_payload(rng, 2)),
                                        src_addr=IndividualAddress(srcs[0]))
    changed = "nothing"
    for _ in range(rng.randrange(3, 7)):
        secured = node.ds.outgoing_cemi(data)
        raw = ind_from_req(CEMIFrame(code=CEMIMessageCode.L_DATA_REQ, data=secured).to_knx())
        apdu = bytes(data.payload.to_knx())
        seq = int.from_bytes(raw[12:18], "big")
        expected = ref.secure_ldata(keys[data.dst_addr.raw], apdu, scf=0x10, seq=seq, sa=data.src_addr.raw, da=data.dst_addr.raw, group=True,
                                    tpci_octet=data.tpci.to_knx(), ctrl1=raw[2], hop_count=(raw[3] >> 4) & 7)
        ctx.ev()
        ctx.count("reused_cemi_data_sends")
        ctx.distinct(("reuse", changed, raw == expected))
        if raw != expected:
            ctx.violation(f"reused-cemi-data-secured-with-stale-fields-after-{changed}-changed",
                          {"changed_before_this_send": changed, "src": data.src_addr.raw, "dst": data.dst_addr.raw, "xknx": raw,
                           "reference": expected, "keys": {str(g): k for g, k in keys.items()}},
                          f"CEMILData secured again after its {changed} was changed: octets differ from the reference for the current fields")
            return
        ctx.count("reused_cemi_data_equal")
        changed = rng.choice(("destination", "source", "payload", "tpci"))
        if changed == "destination":
            data.dst_addr = GroupAddress(rng.choice([g for g in gas if g != data.dst_addr.raw]))
        elif changed == "source":
            data.src_addr = IndividualAddress(rng.choice([a for a in srcs if a != data.src_addr.raw]))
        elif changed == "payload":
            data.payload = group_payload(rng, rng.choice((1, 3, 20)))
        else:
            data.tpci = tpci.TDataTagGroup() if isinstance(data.tpci, tpci.TDataGroup) else tpci.TDataGroup()


# ---------------------------------------------------------------------------
# file based secure configuration, stop(), .knxkeys replaced by a rotated-key export, start(): what is sent afterwards must be
# the reference output for the key that is configured NOW

def _rotation_case(ctx, spec):
    import os
    import random
    import shutil
    import tempfile

    from vlib.ds_harness import (
        KEYRING_PASSWORD,
        InterfaceSession,
        group_payload,
        make_project,
        sync_keyring_loading,
        write_project_keyring,
    )
    from xknx.io import SecureConfig
    from xknx.telegram import TelegramDirection

    r = random.Random(spec["seed"])
    gas = spec["gas"]
    generations = [{g: bytes.fromhex(k) for g, k in zip(gas, ks)} for ks in spec["keys"]]
    tmp = tempfile.mkdtemp(prefix="dsec-c19-", dir="/dev/shm" if os.path.isdir("/dev/shm") else None)
    path = os.path.join(tmp, "project.knxkeys")
    sent = []  # (phase, apdu, index into s.out)

    try:
        with sync_keyring_loading():
            write_project_keyring(make_project(generations[0], {0x1234: 0}), r, path)
            s = InterfaceSession(spec["transport"], SecureConfig(knxkeys_file_path=path, knxkeys_password=KEYRING_PASSWORD))

            async def main():
                for phase in range(len(generations)):
                    if phase:
                        await s.xknx.stop()
                        write_project_keyring(make_project(generations[phase], {0x1234: 0}), r, path)
                        ctx.count("restarts_with_rotated_key_file")
                    await s.xknx.start()
                    for _ in range(spec["nsend"]):
                        payload = group_payload(r, r.choice((1, 2, 5, 20)))
                        before = len(s.out)
                        await s.xknx.telegrams.put(Telegram(destination_address=GroupAddress(r.choice(gas)), payload=payload,
                                                            direction=TelegramDirection.OUTGOING))
                        await s.settle(0.1)
                        if len(s.out) == before + 1:
                            sent.append((phase, bytes(payload.to_knx()), before))
                await s.xknx.stop()

            try:
                s.run(main())
            except Exception as exc:  # noqa: BLE001
                ctx.inconclusive(f"rotation case did not finish: {type(exc).__name__}: {exc}")
                return
            finally:
                s.close()
    finally:
        shutil.rmtree(tmp, ignore_errors=True)
    ctx.count("rotation_cases")
    for phase, apdu, idx in sent:
        raw = s.out[idx]
        ctx.ev()
        da = int.from_bytes(raw[6:8], "big")
        sa = int.from_bytes(raw[4:6], "big")

        def reference(generation):
            return ref.secure_ldata(generations[generation][da], apdu, scf=0x10, seq=int.from_bytes(raw[12:18], "big"), sa=sa, da=da,
                                    group=True, ctrl1=raw[2], hop_count=(raw[3] >> 4) & 7, message_code=0x11)

        ok = len(raw) > 18 and raw == reference(phase)
        ctx.distinct(("rotation", spec["transport"], phase, ok))
        if ok:
            ctx.count("rotation_frames_equal_reference")
            if phase:
                ctx.count("rotation_frames_after_restart_equal_reference_for_new_key")
            continue
        stale = [g for g in range(phase) if len(raw) > 18 and raw == reference(g)]
        ctx.violation("outgoing-frame-after-restart-secured-with-replaced-key" if stale else "outgoing-frame-differs-from-reference-for-configured-key",
                      {"spec": spec, "phase": phase, "xknx": raw, "reference_for_configured_key": reference(phase) if len(raw) > 18 else None,
                       "equals_reference_for_key_generation": stale},
                      f"{spec['transport']} phase {phase}: frame handed to the tunnel is not the reference output for the key configured now"
                      + (f" (it is for replaced key generation {stale[0]})" if stale else ""))


def _rotation_spec(rng, i):
    gas = rng.sample(range(1, 0x10000), rng.choice((1, 2)))
    return {"transport": ("tcp", "udp")[i % 2], "gas": gas, "nsend": 2 + i % 2,
            "keys": [[rng.randbytes(16).hex() for _ in gas] for _ in range(2 + (i % 3 == 2))], "seed": rng.randrange(1 << 30)}


# ---------------------------------------------------------------------------
# "for every input": the producers driven directly, with payloads longer than a cEMI frame can carry

LONG_LENGTHS = (241, 252, 253, 254, 255, 256, 257, 258, 300, 511, 512, 513, 1000, 4096, 65277, 65278, 65279, 65534, 65535, 65536)


def _long_case(ctx, rng, raw_scf, length):
    from xknx.secure.security_primitives import calculate_message_authentication_code_cbc

    alg = "enc" if ref.scf_algorithm(raw_scf) == ref.ALG_ENC else "auth"
    key, apdu = rng.randbytes(16), rng.randbytes(length)
    sa, da = rng.randbytes(2), rng.randbytes(2)
    at, eff, seq = rng.randrange(2), rng.choice((0, 0, 4)), rng.randrange(1 << 48)
    t = rng.choice((tpci.TDataGroup(), tpci.TDataIndividual(), tpci.TDataTagGroup()))
    scf = SecurityControlField.from_knx(raw_scf)
    ctx.ev()
    ctx.count(f"long_inputs_{alg}")
    wit = {"scf": raw_scf, "apdu_length": length, "key": key, "sa": sa, "da": da, "at": at, "eff": eff, "seq": seq, "tpci_octet": t.to_knx(),
           "apdu_head": apdu[:16]}
    assoc_len = 1 + (length if alg == "auth" else 0)
    defined = assoc_len <= ref.MAX_ASSOCIATED_DATA and (alg == "auth" or length <= ref.MAX_PAYLOAD)
    try:
        got = bytes(SecureData.init_from_plain_apdu(key=key, apdu=apdu, scf=scf, sequence_number=seq, address_fields_raw=sa + da,
                                                    address_type=CEMIAddressType(at), frame_format=CEMIFrameFormat(eff), tpci=t).to_knx())
    except Exception as exc:  # noqa: BLE001 - refusing a length no frame can carry is fine: recorded
        ctx.count(f"long_input_refused_{alg}_{type(exc).__name__}")
        ctx.distinct(("long", alg, length, "refused"))
        got = None
    if not defined:
        ctx.count("long_inputs_beyond_defined_length_encoding")  # recorded only
        return
    expected = ref.asdu(key, apdu, raw_scf, seq, sa, da, at, eff, t.to_knx())
    if got is not None:
        ctx.distinct(("long", alg, length, got == expected))
        if got == expected:
            ctx.count("long_inputs_equal")
            ctx.count(f"long_inputs_equal_{alg}")
            if assoc_len >= 256:
                ctx.count("long_inputs_equal_with_associated_data_of_256_or_more")
        else:
            part = "mac" if got[:-4] == expected[:-4] else "ciphertext"
            ctx.violation(f"ccm-{part}-differs-{alg}-for-{'associated-data' if alg == 'auth' else 'payload'}-of-256-octets-or-more"
                          if length >= 255 else f"ccm-{part}-differs-{alg}-tpci0",
                          dict(wit, xknx_tail=got[-8:], reference_tail=expected[-8:]),
                          f"{alg}, APDU of {length} octets: xknx MAC/ciphertext differ from the reference (…{got[-4:].hex()} != …{expected[-4:].hex()})")
        # the receiving side on the reference's output
        try:
            plain = SecureData.from_knx(expected).get_plain_apdu(key=key, scf=scf, address_fields_raw=sa + da, address_type=CEMIAddressType(at),
                                                                 frame_format=CEMIFrameFormat(eff), tpci=t)
            if bytes(plain) == apdu:
                ctx.count("long_reference_frames_accepted")
        except DataSecureError:
            ctx.violation(f"reference-frame-rejected-{alg}-long-input", wit, f"reference output for an APDU of {length} octets fails MAC verification")
        except Exception as exc:  # noqa: BLE001
            ctx.count(f"long_reference_frame_refused_{type(exc).__name__}")
    # the MAC primitive itself, whatever the layers above refuse
    ad = rng.randbytes(rng.choice((255, 256, 257, 512, 4095, length % 60000 + 1)))
    pay = rng.randbytes(rng.choice((0, 1, 16, 300)))
    b0 = rng.randbytes(16)
    if len(ad) <= ref.MAX_ASSOCIATED_DATA:
        ctx.ev()
        try:
            mac = calculate_message_authentication_code_cbc(key, additional_data=ad, payload=pay, block_0=b0)
        except Exception as exc:  # noqa: BLE001
            ctx.count(f"mac_primitive_refused_{type(exc).__name__}")
        else:
            want = ref.cbc_mac(key, b0 + len(ad).to_bytes(2, "big") + ad + pay)
            if ctx.check(bytes(mac) == want, "cbc-mac-primitive-differs-for-associated-data-of-256-octets-or-more",
                         {"key": key, "block_0": b0, "associated_data_length": len(ad), "payload_length": len(pay), "xknx": bytes(mac), "reference": want},
                         f"calculate_message_authentication_code_cbc differs from the reference for {len(ad)} octets of associated data"):
                ctx.count("mac_primitive_equal_long_associated_data")


def _spec(rng, length, alg, scfs, tp):
    tname, t = tp
    choices = [raw for raw, _ in scfs if ref.scf_algorithm(raw) == alg]
    r = rng.random()
    seq = 0 if r < 0.02 else (1 << 48) - 1 if r < 0.04 else rng.getrandbits(rng.choice((8, 24, 40, 48)))
    return {
        "key": rng.randbytes(16).hex(),
        "apdu": (bytes(length) if rng.random() < 0.1 else rng.randbytes(length)).hex(),
        "sa": rng.randrange(0x10000), "da": rng.randrange(0x10000),
        "scf": rng.choice(choices) if rng.random() < 0.5 else (0x10 if alg else 0x00),
        "tpci": tname, "tseq": t.sequence_number,
        "at": rng.randrange(2), "eff": rng.choice((0, 0, 4)),
        "seq": seq,
        "scf_plain": rng.random() < 0.2,
    }


def run(ctx):
    rng = ctx.rng
    ctx.rule = (
        "case = (key, SA, DA, AT, EFF in {0, LTE-HEE}, data TPCI coding, SCF, 48 bit counter, APDU of length 0..240); both directions: "
        "xknx output == reference octets, reference output accepted by get_plain_apdu; distinct = (algorithm, TPCI, length, AT, EFF, SCF)"
    )
    fails = ref.self_test()
    ctx.extra["reference_self_test"] = {"vectors": 2, "failures": fails, "xknx_suite_send_vectors_reproduced": ref.suite_vectors_agree()}
    if fails:
        ctx.inconclusive("reference CCM fails its specification vectors: " + "; ".join(fails))
        return
    ctx.count("reference_vectors_ok", 2)
    ctx.require("reference_vectors_ok", "encode_enc", "encode_auth", "decode_enc", "decode_auth", "encode_equal", "decode_equal",
                "tpci_zero", "tpci_nonzero", "frames_compared")
    scfs = _scfs(ctx)
    ctx.extra["scf_values"] = len(scfs)
    ctx.require("scf_octets_accepted", "scf_octets_refused", "wire_frames_parsed")
    _wire_scf(ctx, rng, scfs)
    tpcis = _tpcis()
    zero_tp = tpcis[:3]
    idx = 0
    # every length x both algorithms, TPCI 0 (the part every vector anchors), several times
    for rep in range(ctx.scale(20, 1600)):
        for length in range(0, 241):
            for alg in (ref.ALG_ENC, ref.ALG_AUTH):
                idx += 1
                if ctx.mine((idx * 0x9E3779B1) >> 12):
                    _case(ctx, _spec(rng, length, alg, scfs, zero_tp[(length + rep) % 3]))
    # every TPCI coding
    for rep in range(ctx.scale(60, 6000)):
        for tp in tpcis:
            for alg in (ref.ALG_ENC, ref.ALG_AUTH):
                idx += 1
                if ctx.mine((idx * 0x9E3779B1) >> 12):
                    _case(ctx, _spec(rng, rng.choice((0, 1, 2, 5, 14, 15, 16, 17, rng.randrange(241))), alg, scfs, tp))
    with observing_management():
        for i in range(ctx.scale(1000, 100000)):
            if ctx.mine(i):
                _frame_case(ctx, rng)
        for i in range(ctx.scale(300, 30000)):
            if ctx.mine(i):
                _reuse_case(ctx, rng)
            else:
                rng.random()
    for rep in range(ctx.scale(2, 40)):
        for li, length in enumerate(LONG_LENGTHS):
            for raw_scf in (0x00, 0x10, rng.choice([r for r, _ in scfs])):
                idx += 1
                if length > 5000 and (rep > 1 or (ctx.quick and raw_scf not in (0x00, 0x10))):
                    continue
                if ctx.mine((idx * 0x9E3779B1) >> 12):
                    _long_case(ctx, rng, raw_scf, length)
    ctx.require("long_inputs_auth", "long_inputs_enc", "long_inputs_equal_auth", "long_inputs_equal_with_associated_data_of_256_or_more",
                "mac_primitive_equal_long_associated_data")
    ctx.require("reused_cemi_data_equal", "rotation_cases", "restarts_with_rotated_key_file",
                "rotation_frames_after_restart_equal_reference_for_new_key")
    for i in range(ctx.scale(8, 320)):
        spec = _rotation_spec(rng, i)
        if ctx.mine(i):
            with observing_management():
                _rotation_case(ctx, spec)


def replay(ctx, witness):
    fails = ref.self_test()
    if fails:
        ctx.inconclusive("reference CCM fails its specification vectors")
        return
    if "gas" in witness.get("spec", {}):
        with observing_management():
            _rotation_case(ctx, witness["spec"])
    elif "spec" in witness:
        _case(ctx, witness["spec"])
    ctx.distinct("replay")
    ctx.distinct("replay2")
