"""C45 MCP tools: JSON-native results, decode/encode inverse per DPT, paging lists every type once."""

from __future__ import annotations

import dataclasses
import json
from typing import Any

from vlib.eqv import same
from vlib.vloop import new_loop
from vlib.xk_harness import Harness, incoming, wire_valid
from xknx.dpt import DPTArray, DPTBase, DPTBinary, DPTComplex, DPTEnum, DPTNumeric
from xknx.exceptions import ConversionError, CouldNotParseAddress, CouldNotParseTelegram
from xknx.mcp import (
    DecodeDptPayloadInput,
    DptFilter,
    EncodeDptPayloadInput,
    GroupAddressInput,
    GroupValueReadInput,
    GroupValueWriteInput,
    decode_dpt_payload,
    describe_dpt,
    encode_dpt_payload,
    get_connection_status,
    list_dpts,
    read_group_value,
    send_group_value_read,
    send_group_value_write,
)
from xknx.telegram import GroupAddress
from xknx.telegram.apci import GroupValueRead, GroupValueWrite

LEVEL = "exploration"
TECHNIQUE = (
    "runtime monitor: stock json.dumps(dataclasses.asdict(result)) + json round-trip on every tool result; decode(encode(x)) == x "
    "oracle over the JSON form of each DPT's decode image; page-walk vs. independent enumeration of the DPT class tree"
)
LEVEL_TEXT = (
    "All 230 DPT classes: binary DPTs and 1-octet DPTs exhaustively, 2-octet DPTs exhaustively in the thorough tier (sampled in quick), "
    "longer payloads by per-position sweep + seeded random; list_dpts walked page by page for random filters/limits against a filter "
    "predicate written from the DptFilter documentation; the bus tools run on a real XKNX (virtual loop, scripted answering interface). "
    "Exploration: payloads > 2 octets, filters and write inputs are sampled."
)
LEVEL_NOTE = (
    "Trusted: json module, dataclasses.asdict. Judged: every result serialises with the stock encoder and survives a JSON round trip unchanged "
    "(NaN equals NaN); for x = JSON form of a decoded payload, encode(x) is accepted and decodes to x (U+FFFD from undecodable text bytes "
    "comes back as '?'); a text needle contained in one field value selects exactly the types having it (case-insensitively) in number, value type or unit; a page walk with limit >= 1 yields exactly that list, once, in order; a refused send queues nothing. "
    "Recorded only: what needles with whitespace/control characters or spanning several fields select, limit = 0 and negative limits, exceptions of read_group_value for answers the value type cannot decode, distance of "
    "decode(encode(v)) from arbitrary in-range v (C09 judges it)."
)
SHARDS = {"quick": 1, "thorough": 16}
TIMEOUT = {"quick": 300, "thorough": 3000}


def _json_native(ctx: Any, tool: str, result: Any, witness: dict[str, Any]) -> Any:
    """The gating JSON monitor; returns the parsed-back dict (or None)."""
    ctx.count("results_checked")
    ctx.count(f"results_{tool}")
    try:
        d = dataclasses.asdict(result)
        text = json.dumps(d)
    except BaseException as exc:  # noqa: BLE001
        ctx.violation(f"{tool}-result-not-json-serialisable-{type(exc).__name__}", {**witness, "exception": repr(exc)[:200]},
                      f"{tool} result cannot be serialised by the stock JSON encoder: {exc!r:.120}")
        return None
    back = json.loads(text)
    if not same(back, d):
        ctx.violation(f"{tool}-result-not-json-native", {**witness, "asdict": repr(d)[:300], "after_json": repr(back)[:300]},
                      f"{tool} result changes in a JSON round trip (non JSON-native member): {d!r:.120} -> {back!r:.120}")
    return back


# ---------------------------------------------------------------------------
# decode / encode inverse
# ---------------------------------------------------------------------------


def _payloads(ctx: Any, dpt: Any) -> list[Any]:
    """Payloads in tool form (int for 6-bit DPTs, list of ints otherwise)."""
    rng = ctx.rng
    n = dpt.payload_length
    if dpt.payload_type is DPTBinary:
        # both documented forms: a single int (what the encode tool returns) and a one-element list; all 64 values incl. 0
        return [v for i in range(64) for v in (i, [i])]
    if n == 1:
        return [[b] for b in range(256)]
    out: list[list[int]] = []
    if n == 2:
        if not ctx.quick:
            return [[hi, lo] for hi in range(256) for lo in range(256)]
        edge = (0, 1, 2, 0x7E, 0x7F, 0x80, 0x81, 0xFE, 0xFF, 0x07, 0x08, 0x87, 0x88, 0xF8)
        out = [[a, b] for a in edge for b in edge]
        out += [[rng.randrange(256), rng.randrange(256)] for _ in range(100)]
        return out
    base = [0] * n
    out.append(list(base))
    out.append([0xFF] * n)
    for pos in range(n):
        for v in range(256) if not ctx.quick else (0, 1, 2, 3, 7, 8, 15, 16, 31, 32, 59, 60, 63, 64, 99, 100, 127, 128, 129, 200, 254, 255):
            p = list(base)
            p[pos] = v
            out.append(p)
            if not ctx.quick or v in (0, 1, 0x7F, 0x80, 0xFE):
                p = [0xFF] * n
                p[pos] = v
                out.append(p)
    for _ in range(ctx.scale(40, 6000)):
        out.append([rng.choice((0, 1, 0x7F, 0x80, 0xFF, rng.randrange(256), rng.randrange(256))) for _ in range(n)])
    return out


def _text_rule(x: Any) -> Any:
    """C08 rule: bytes a text type cannot decode come back as '?'."""
    if isinstance(x, str):
        return x.replace("\ufffd", "?")
    return x


async def _inverse_for_class(ctx: Any, dpt: Any, payloads: list[Any]) -> None:
    name = dpt.__name__
    vts = [dpt.dpt_number_str()] + ([dpt.value_type] if dpt.value_type else [])
    kind = "numeric" if issubclass(dpt, DPTNumeric) else "enum" if issubclass(dpt, DPTEnum) else "complex" if issubclass(dpt, DPTComplex) else "text"
    for i, payload in enumerate(payloads):
        vt = vts[0] if i % 8 == 0 else vts[-1]  # both spellings; the name resolves faster
        ctx.ev()
        wit = {"dpt": name, "value_type": vt, "payload": payload}
        try:
            dec = await decode_dpt_payload(DecodeDptPayloadInput(payload=payload, value_type=vt))
        except (ConversionError, CouldNotParseTelegram):
            ctx.count("decode_refused_payload")
            ctx.distinct((name, "decode-refused"))
            continue
        except BaseException as exc:  # noqa: BLE001
            # C07 judges what the DPT decoders raise; the tool itself must treat both spellings of a 6-bit payload alike
            if isinstance(payload, int):
                try:
                    await decode_dpt_payload(DecodeDptPayloadInput(payload=[payload], value_type=vt))
                except BaseException:  # noqa: BLE001
                    ctx.count(f"recorded_decode_raised_{type(exc).__name__}")
                else:
                    ctx.violation(f"decode_dpt_payload-refuses-int-form-of-payload-it-accepts-as-list-{type(exc).__name__}", {**wit, "exception": repr(exc)[:200]},
                                  f"{name}: decode(payload={payload}) raised {exc!r:.80} but decode(payload=[{payload}]) is accepted")
            else:
                other = vts[0] if vt != vts[0] else vts[-1]
                try:
                    await decode_dpt_payload(DecodeDptPayloadInput(payload=payload, value_type=other))
                except BaseException:  # noqa: BLE001
                    ctx.count(f"recorded_decode_raised_{type(exc).__name__}")
                else:
                    ctx.violation(f"decode_dpt_payload-rejects-one-identifier-form-of-a-listed-type-{type(exc).__name__}", {**wit, "accepted_as": other, "exception": repr(exc)[:200]},
                                  f"{name}: decode(value_type={vt!r}) raised {exc!r:.80} but value_type={other!r} (same type) is accepted")
            continue
        ctx.count("decoded")
        back = _json_native(ctx, "decode_dpt_payload", dec, wit)
        if back is None:
            continue
        x = back["value"]
        wit["decoded_json"] = x
        try:
            enc = await encode_dpt_payload(EncodeDptPayloadInput(value=x, value_type=vt))
        except BaseException as exc:  # noqa: BLE001
            ctx.violation(f"{name}-encode-refuses-own-decoded-json-value", {**wit, "exception": repr(exc)[:200]},
                          f"{name}: decode({payload}) = {x!r:.80} (JSON form) but encode refuses it: {exc!r:.100}")
            ctx.distinct((name, "encode-refused"))
            continue
        ctx.count("encoded")
        eb = _json_native(ctx, "encode_dpt_payload", enc, wit)
        if eb is None:
            continue
        wit["re_encoded"] = eb["payload"]
        try:
            dec2 = await decode_dpt_payload(DecodeDptPayloadInput(payload=eb["payload"], value_type=vt))
            y = json.loads(json.dumps(dataclasses.asdict(dec2)))["value"]
        except BaseException as exc:  # noqa: BLE001
            ctx.violation(f"{name}-decode-refuses-own-encoded-payload", {**wit, "exception": repr(exc)[:200]},
                          f"{name}: encode({x!r:.60}) = {eb['payload']} which decode refuses: {exc!r:.100}")
            continue
        ctx.count("inverse_checked")
        if same(y, x) or same(y, _text_rule(x)):
            ctx.count("inverse_held")
            if eb["payload"] == payload:
                ctx.count("payload_identical_after_round_trip")
            ctx.distinct((name, "inverse-held", type(x).__name__))
        else:
            wit["decoded_again"] = y
            ctx.violation(f"{name}-decode-encode-not-inverse", wit,
                          f"{name}: decode({payload}) = {x!r:.60}, encode -> {eb['payload']}, decode -> {y!r:.60}")
            ctx.distinct((name, "inverse-broken"))
        if len(ctx.samples) < 2 and i == 7:
            ctx.sample({"dpt": name, "payload": payload, "decoded_json": x, "re_encoded": eb["payload"], "kind": kind})
    # encode first: zero / empty / falsy inputs wherever the type accepts them; the encode result is taken verbatim
    # (payload field as it comes out of a JSON cycle: int or list) and handed to the decode tool
    falsy: list[Any] = [0, 0.0, False, "", "0", -0.0, [0], {}, None, 1, True]
    if kind == "enum":
        falsy += [m.name.lower() for m in dpt.get_valid_values()]
    for v in falsy:
        for vt in vts:
            ctx.ev()
            try:
                enc = await encode_dpt_payload(EncodeDptPayloadInput(value=v, value_type=vt))
            except BaseException:  # noqa: BLE001 - not a valid value of this type
                ctx.count("encode_first_value_refused")
                continue
            wit = {"dpt": name, "value_type": vt, "value": v}
            eb = _json_native(ctx, "encode_dpt_payload", enc, wit)
            if eb is None:
                continue
            wit["re_encoded"] = eb["payload"]
            try:
                dec = await decode_dpt_payload(DecodeDptPayloadInput(payload=eb["payload"], value_type=vt))
            except BaseException as exc:  # noqa: BLE001
                ctx.violation(f"{name}-decode-refuses-own-encoded-payload", {**wit, "exception": repr(exc)[:200]},
                              f"{name}: encode({v!r}) = {eb['payload']!r} which decode refuses: {exc!r:.100}")
                continue
            db = _json_native(ctx, "decode_dpt_payload", dec, wit)
            if db is None:
                continue
            ctx.count("encode_first_checked")
            if not eb["payload"]:
                ctx.count("encode_first_falsy_payload_decoded")
            try:
                enc2 = await encode_dpt_payload(EncodeDptPayloadInput(value=db["value"], value_type=vt))
                again = enc2.payload
            except BaseException as exc:  # noqa: BLE001
                again = repr(exc)
            if again != eb["payload"]:
                ctx.violation(f"{name}-decode-encode-not-inverse", {**wit, "decoded_json": db["value"], "encoded_again": again},
                              f"{name}: encode({v!r}) = {eb['payload']!r}, decode -> {db['value']!r:.60}, encode -> {again!r:.60}")
            ctx.distinct((name, "encode-first", type(v).__name__, type(eb["payload"]).__name__))
    # arbitrary in-range numbers: the decoded value must be a fixpoint (nearest-form distance is C09's)
    if kind == "numeric":
        rng = ctx.rng
        lo, hi = dpt.value_min, dpt.value_max
        for _ in range(ctx.scale(6, 60)):
            v = rng.choice((lo, hi, lo + (hi - lo) * rng.random(), round(lo + (hi - lo) * rng.random(), 2), rng.uniform(-100, 100)))
            if isinstance(lo, int) and isinstance(dpt.resolution, int) and rng.random() < 0.5:
                v = int(v)
            ctx.ev()
            try:
                enc = await encode_dpt_payload(EncodeDptPayloadInput(value=v, value_type=vts[0]))
            except BaseException:  # noqa: BLE001 - out-of-range / C09
                ctx.count("recorded_encode_refused_in_range_number")
                continue
            _json_native(ctx, "encode_dpt_payload", enc, {"dpt": name, "value": v})
            try:
                y = (await decode_dpt_payload(DecodeDptPayloadInput(payload=enc.payload, value_type=vts[0]))).value
            except BaseException as exc:  # noqa: BLE001
                ctx.violation(f"{name}-decode-refuses-own-encoded-payload", {"dpt": name, "value": v, "re_encoded": enc.payload, "exception": repr(exc)[:200]},
                              f"{name}: encode({v!r}) = {enc.payload} which decode refuses: {exc!r:.100}")
                continue
            try:
                enc2 = await encode_dpt_payload(EncodeDptPayloadInput(value=y, value_type=vts[0]))
                y2 = (await decode_dpt_payload(DecodeDptPayloadInput(payload=enc2.payload, value_type=vts[0]))).value
            except BaseException as exc:  # noqa: BLE001
                ctx.violation(f"{name}-encode-refuses-own-decoded-json-value", {"dpt": name, "value": v, "payload": enc.payload, "decoded_json": y, "exception": repr(exc)[:200]},
                              f"{name}: encode({v!r}) = {enc.payload} decodes to {y!r} which cannot be encoded/decoded again: {exc!r:.100}")
                continue
            ctx.count("fixpoint_checked")
            if not same(y2, y):
                ctx.violation(f"{name}-decode-encode-not-inverse", {"dpt": name, "value": v, "payload": enc.payload, "decoded_json": y, "re_encoded": enc2.payload, "decoded_again": y2},
                              f"{name}: encode({v!r}) decodes to {y!r} which re-encodes and decodes to {y2!r}")


# ---------------------------------------------------------------------------
# listing / paging
# ---------------------------------------------------------------------------


def _ref_key(dpt: Any) -> tuple[int, int]:
    return (dpt.dpt_main_number or 0, dpt.dpt_sub_number if dpt.dpt_sub_number is not None else -1)


def _ref_listing(main: int | None, text: str | None) -> list[str]:
    """Independent enumeration from the DptFilter documentation."""
    out = []
    for dpt in DPTBase.dpt_class_tree():
        if main is not None and dpt.dpt_main_number != main:
            continue
        if text:
            hay = [dpt.dpt_number_str(), dpt.value_type or "", dpt.unit or ""]
            if not any(text.lower() in h.lower() for h in hay):
                continue
        out.append(dpt)
    out.sort(key=_ref_key)  # stable: ties keep class-tree order, like list.sort in the tool
    return [_ident(d.dpt_number_str(), d.value_type) for d in out]


def _benign_needle(text: str | None, tree: list[Any]) -> bool:
    """A needle whose meaning the DptFilter description fixes: no whitespace / control characters and
    contained (case-insensitively) in one single field value - number, value type or unit - of some DPT."""
    if not text or any(ch.isspace() or not ch.isprintable() for ch in text):
        return False
    t = text.lower()
    return any(t in f.lower() for d in tree for f in (d.dpt_number_str(), d.value_type or "", d.unit or ""))


def _ident(number: str, value_type: str | None) -> str:
    return f"{number}|{value_type}"


async def _paging(ctx: Any) -> None:
    rng = ctx.rng
    tree = list(DPTBase.dpt_class_tree())
    idents = [_ident(d.dpt_number_str(), d.value_type) for d in tree]
    ctx.count("dpt_classes_in_tree", len(tree))
    if len(set(idents)) != len(idents):
        ctx.assumptions.append("some DPT classes share (number, value_type); 'exactly once' is judged as a multiset")
    mains = sorted({d.dpt_main_number for d in tree if d.dpt_main_number is not None})
    words = sorted({w for d in tree for w in (d.value_type or "", d.unit or "", d.dpt_number_str()) if w})
    # every distinct unit in four spellings, every value type, every number: the one-call listing must be the denoted set
    needles: list[str] = []
    for u in sorted({d.unit for d in tree if d.unit}):
        needles += [u, u.lower(), u.upper(), u.swapcase()]
    for d in tree:
        if d.value_type:
            needles += [d.value_type, d.value_type.upper()]
        needles.append(d.dpt_number_str())
    needles = list(dict.fromkeys(n for n in needles if _benign_needle(n, tree)))
    for k, text in enumerate(needles):
        if not ctx.mine(k):
            continue
        ctx.ev()
        ref = _ref_listing(None, text)
        res = await list_dpts(DptFilter(text=text, limit=100000))
        got = [_ident(x.dpt, x.value_type) for x in res.dpts]
        ctx.count("filter_selections_judged")
        ctx.count("needle_sweep")
        if got != ref or res.total_count != len(ref):
            missing = [x for x in ref if x not in got]
            extra = [x for x in got if x not in ref]
            ctx.violation("list_dpts-text-filter-" + ("drops-matching-types" if missing else "lists-non-matching-types" if extra else "order-differs"),
                          {"main": None, "text": text, "expected_n": len(ref), "got_n": len(got), "missing": missing[:10], "extra": extra[:10], "total_count": res.total_count},
                          f"list_dpts(text={text!r}): the filter denotes {len(ref)} types (case-insensitive match on number, value type, unit), {len(got)} listed; missing {missing[:4]}, extra {extra[:4]}")
        else:
            ctx.count("filter_selections_as_documented")
        ctx.distinct(("needle", "unit" if any(text.lower() == (d.unit or "").lower() for d in tree) else "other", text.islower(), text.isupper(), len(ref) if len(ref) < 4 else "many"))
    units = sorted({d.unit for d in tree if d.unit})
    n_filters = ctx.scale(120, 1500)
    for k in range(n_filters):
        if not ctx.mine(k):
            continue
        if k == 0:
            main, text = None, None
        else:
            main = rng.choice((None, None, rng.choice(mains), rng.choice(mains), 0, 4711, -1))
            w = rng.choice(words)
            u = rng.choice(units)
            text = rng.choice((None, None, "", u, u.lower(), u.upper(), w, w.upper(), w[: rng.randint(1, max(1, len(w)))], w[rng.randrange(len(w)):], ".", "0", "°", "\n", "zzzz-no-match", " ", "%"))
        ref = _ref_listing(main, text)
        limit = rng.choice((1, 1, 2, 3, 5, 7, 10, 50, 199, 200, 201, 229, 230, 231, 1000, max(1, len(ref)), max(1, len(ref) - 1), len(ref) + 1)) if k else 7
        ctx.ev()
        wit = {"main": main, "text": text, "limit": limit}
        # full listing in one call
        full = await list_dpts(DptFilter(main=main, text=text, limit=100000))
        _json_native(ctx, "list_dpts", full, wit)
        got_full = [_ident(s.dpt, s.value_type) for s in full.dpts]
        if _benign_needle(text, tree) or not text:
            ctx.count("filter_selections_judged")
            if got_full != ref:
                missing = [x for x in ref if x not in got_full]
                extra = [x for x in got_full if x not in ref]
                ctx.violation("list_dpts-text-filter-" + ("drops-matching-types" if missing else "lists-non-matching-types" if extra else "order-differs"),
                              {**wit, "expected_n": len(ref), "got_n": len(got_full), "missing": missing[:10], "extra": extra[:10]},
                              f"list_dpts(main={main}, text={text!r}): the filter denotes {len(ref)} types (case-insensitive match on number, value type, unit), "
                              f"{len(got_full)} listed; missing {missing[:4]}, extra {extra[:4]}")
            else:
                ctx.count("filter_selections_as_documented")
        elif got_full != ref:
            # needles with whitespace / control characters or matching no single field (e.g. "\n" across the joined fields): recorded
            ctx.count("recorded_filter_selection_differs_from_documented_predicate")
        in_tree = all(got_full.count(x) == idents.count(x) for x in set(got_full)) and set(got_full) <= set(idents)
        main_ok = main is None or all(x.split("|")[0].split(".")[0] == str(main) for x in got_full)
        unfiltered_ok = (main is not None or bool(text)) or sorted(got_full) == sorted(idents)
        if not (in_tree and main_ok and unfiltered_ok) or full.total_count != len(got_full) or full.next_offset is not None or full.limit_reached:
            ctx.violation("list_dpts-single-call-listing-wrong",
                          {**wit, "got_n": len(got_full), "tree_n": len(idents), "missing": [x for x in idents if x not in got_full][:10] if unfiltered_ok is False else [],
                           "total_count": full.total_count, "next_offset": full.next_offset, "in_tree_once": in_tree, "main_ok": main_ok},
                          f"list_dpts(main={main}, text={text!r}, limit=100000): {len(got_full)} types (tree {len(idents)}), total_count={full.total_count}, next_offset={full.next_offset}")
        ref = got_full  # the page walk must reproduce the one-call listing of the same filter
        # page walk
        offset: int | None = 0
        pages = 0
        walked: list[str] = []
        ok = True
        while offset is not None and pages <= len(ref) + 3:
            page = await list_dpts(DptFilter(main=main, text=text, limit=limit, offset=offset))
            pages += 1
            ctx.count("pages_fetched")
            if pages <= 2:
                _json_native(ctx, "list_dpts", page, {**wit, "offset": offset})
            walked += [_ident(s.dpt, s.value_type) for s in page.dpts]
            consistent = (page.offset == offset and page.total_count == len(ref) and len(page.dpts) <= limit
                          and page.limit_reached == (page.next_offset is not None)
                          and (page.next_offset is None or page.next_offset == offset + len(page.dpts)))
            if not consistent or (page.next_offset is not None and not page.dpts):
                ok = False
                ctx.violation("list_dpts-page-metadata-inconsistent",
                              {**wit, "offset": offset, "page_len": len(page.dpts), "next_offset": page.next_offset, "limit_reached": page.limit_reached, "total_count": page.total_count, "expected_total": len(ref)},
                              f"list_dpts page at offset {offset} (limit {limit}): offset={page.offset} next_offset={page.next_offset} limit_reached={page.limit_reached} total={page.total_count}")
                break
            offset = page.next_offset
        ctx.count("page_walks")
        if ok and walked != ref:
            dup = sorted({x for x in walked if walked.count(x) > ref.count(x)})[:5]
            miss = [x for x in ref if walked.count(x) < ref.count(x)][:5]
            ctx.violation("list_dpts-page-walk-" + ("repeats-a-type" if dup else "misses-a-type" if miss else "out-of-order"),
                          {**wit, "pages": pages, "walked_n": len(walked), "expected_n": len(ref), "duplicated": dup, "missing": miss},
                          f"walking list_dpts(main={main}, text={text!r}, limit={limit}) through next_offset gives {len(walked)} entries, expected {len(ref)} (dup {dup}, missing {miss})")
        elif ok:
            ctx.count("page_walks_exact")
        ctx.distinct(("paging", main is not None, text is not None, min(limit, 300) if limit < len(ref) else "all", len(ref) > 0, pages if pages < 5 else "many"))
        if k < 2:
            ctx.sample({"list_dpts": wit, "pages": pages, "types": len(ref), "first": ref[:3]})
        # recorded only: limit 0 / negative, offset past the end
        for lim, off in ((0, 0), (-1, 0), (3, len(ref) + 5)):
            try:
                r = await list_dpts(DptFilter(main=main, text=text, limit=lim, offset=off))
                _json_native(ctx, "list_dpts", r, {**wit, "limit": lim, "offset": off})
                ctx.count(f"recorded_limit_{'zero' if lim == 0 else 'negative' if lim < 0 else 'offset_past_end'}_pages")
            except BaseException as exc:  # noqa: BLE001
                ctx.count(f"recorded_unusual_paging_raised_{type(exc).__name__}")


async def _describe(ctx: Any) -> None:
    tree = list(DPTBase.dpt_class_tree())
    idents = [d.dpt_number_str() for d in tree] + [d.value_type for d in tree if d.value_type]
    junk = ["", "0", "9.9999", "temperature ", "TEMPERATURE", "9.001.1", "-1", "1e3", "°C", "percent\n", "255.255"]
    for i, ident in enumerate(idents + junk):
        if not ctx.mine(i):
            continue
        ctx.ev()
        try:
            res = await describe_dpt(ident)
        except BaseException as exc:  # noqa: BLE001
            ctx.count(f"recorded_describe_raised_{type(exc).__name__}")
            continue
        back = _json_native(ctx, "describe_dpt", res, {"identifier": ident})
        if back is not None and back["found"]:
            ctx.count("described_found")
            ctx.distinct(("describe", back["dpt"]["dpt"]))
        else:
            ctx.count("described_not_found")


# ---------------------------------------------------------------------------
# bus tools on a real XKNX
# ---------------------------------------------------------------------------


def _bus_tools(ctx: Any) -> None:
    rng = ctx.rng
    h = Harness()
    try:
        ctx.ev()
        _json_native(ctx, "get_connection_status", h.call(get_connection_status, h.xknx), {"state": "not started"})
        h.start()
        ctx.ev()
        st = _json_native(ctx, "get_connection_status", h.call(get_connection_status, h.xknx), {"state": "started"})
        if st is not None and (not st["connected"] or st["connected_since"] is None):
            ctx.inconclusive("harness: started XKNX does not report connected")
        answers: dict[int, Any] = {}

        def bus(cemi: Any) -> None:
            data = cemi.data
            if isinstance(data.payload, GroupValueRead) and isinstance(data.dst_addr, GroupAddress):
                payload = answers.get(data.dst_addr.raw)
                if payload is not None:
                    h.xknx.telegrams.put_nowait(incoming(data.dst_addr, payload, response=True))

        h.iface.on_sent = bus
        tree = list(DPTBase.dpt_class_tree())
        for i, dpt in enumerate(tree):
            if not ctx.mine(i):
                continue
            vt = rng.choice([dpt.dpt_number_str()] + ([dpt.value_type] if dpt.value_type else []))
            n = dpt.payload_length
            for j in range(ctx.scale(2, 12)):
                raw = [rng.choice((0, 1, 0x7F, 0x80, 0xFF, rng.randrange(256))) for _ in range(n)] if j else [0] * n
                payload = DPTBinary(raw[0] % (2**n)) if dpt.payload_type is DPTBinary else DPTArray(raw)
                ga = 0x0900 + (i % 200)
                answers[ga] = payload
                ga_s = str(GroupAddress(ga))
                for use_vt in (vt, None):
                    ctx.ev()
                    wit = {"group_address": ga_s, "value_type": use_vt, "answer": repr(payload)}
                    try:
                        res = h.call(read_group_value, h.xknx, GroupValueReadInput(group_address=ga_s, value_type=use_vt))
                    except (ConversionError, CouldNotParseTelegram):
                        ctx.count("recorded_read_answer_not_decodable")
                        continue
                    back = _json_native(ctx, "read_group_value", res, wit)
                    if back is None:
                        continue
                    if not back["responded"]:
                        ctx.inconclusive(f"harness: scripted answer for {ga_s} did not arrive")
                    ctx.count("reads_answered")
                    ctx.distinct(("read", dpt.__name__ if use_vt else "raw", type(back["value"]).__name__))
        # unanswered read: responded False after the 2 s timeout on the virtual clock
        ctx.ev()
        res = h.call(read_group_value, h.xknx, GroupValueReadInput(group_address="31/7/255", value_type="temperature"))
        back = _json_native(ctx, "read_group_value", res, {"group_address": "31/7/255", "answer": None})
        if back is not None:
            ctx.count("reads_unanswered")
            if back["responded"] or back["value"] is not None:
                ctx.violation("read_group_value-reports-response-without-answer", {"result": back}, f"read_group_value without an answer returned {back}")
        h.settle()
        h.stop()

        # send tools: queue stopped, so the queue delta is exactly what the tool queued
        h.drain()
        addresses = ["1/2/3", "0/0/1", "31/7/255", "1/2", "4660", "", "32/0/0", "1/8/0", "1/2/256", "a/b/c", "1/2/3/4", " 1/2/3", "1.2.3", "i-internal", "0/0/0", "65536", "-1"]
        values: list[Any] = [0, 1, 63, 64, -1, True, False, 21.5, -273.5, 1e40, float("nan"), "on", "comfort", "abc", "", None, [1, 2, 3], [], [256], [-1], [1.5], ["a"],
                             {"red": 1, "green": 2, "blue": 3}, {"red": 256, "green": 0, "blue": 0}, {}, {"scene_number": 5, "learn": True}, [[1]], 2**40]
        vts = [None, None, "temperature", "9.001", "percent", "switch", "1.001", "color_rgb", "scene_control", "string", "hvac_mode", "20.102", "pulse", "no_such_type", "9.999", ""]
        for k in range(ctx.scale(600, 12000)):
            if not ctx.mine(k):
                continue
            ga_s = rng.choice(addresses[:5]) if rng.random() < 0.7 else rng.choice(addresses)
            ctx.ev()
            if k % 5 == 0:
                tool, req = "send_group_value_read", GroupAddressInput(group_address=ga_s)
                call = lambda: h.call(send_group_value_read, h.xknx, req)  # noqa: E731
            else:
                tool, req = "send_group_value_write", GroupValueWriteInput(group_address=ga_s, value=rng.choice(values), value_type=rng.choice(vts))
                call = lambda: h.call(send_group_value_write, h.xknx, req)  # noqa: E731
            wit = {"tool": tool, "request": repr(req)}
            try:
                res = call()
            except BaseException as exc:  # noqa: BLE001
                queued = h.drain()
                ctx.count("sends_refused")
                ctx.count(f"sends_refused_{type(exc).__name__}")
                ctx.distinct((tool, "refused", type(exc).__name__))
                if queued:
                    ctx.violation(f"{tool}-refused-but-queued", {**wit, "exception": repr(exc)[:200], "queued": len(queued)},
                                  f"{tool}({req}) raised {type(exc).__name__} but queued {len(queued)} telegram(s)")
                else:
                    ctx.count("refused_sends_with_queue_unchanged")
                if tool == "send_group_value_read" and not isinstance(exc, CouldNotParseAddress):
                    ctx.count(f"recorded_send_read_raised_{type(exc).__name__}")
                continue
            queued = h.drain()
            back = _json_native(ctx, tool, res, wit)
            ctx.count("sends_accepted")
            if len(queued) != 1 or back is None or back.get("queued") is not True:
                ctx.violation(f"{tool}-reports-queued-but-queue-delta-differs", {**wit, "queued": len(queued), "result": back},
                              f"{tool}({req}) returned {back} but {len(queued)} telegram(s) were queued")
                continue
            t = queued[0]
            want = GroupValueRead if tool == "send_group_value_read" else GroupValueWrite
            ok, _raw = wire_valid(t)
            if not isinstance(t.payload, want):
                ctx.violation(f"{tool}-queues-wrong-service", {**wit, "payload": str(t.payload)}, f"{tool} queued {t.payload}")
            elif not ok:
                ctx.count("recorded_accepted_send_not_serialisable")  # C11 judges it
            else:
                ctx.count("accepted_sends_serialisable")
            ctx.distinct((tool, "accepted", type(getattr(req, "value", None)).__name__, getattr(req, "value_type", None)))
            if len(ctx.samples) < 6 and k % 7 == 1:
                ctx.sample({"tool": tool, "request": repr(req), "result": back})
    finally:
        h.close()


async def _identifiers(ctx: Any) -> None:
    """Every identifier list_dpts hands out (number string, value type name as listed) is accepted by the other tools."""
    full = await list_dpts(DptFilter(limit=100000))
    by_number = {d.dpt_number_str(): d for d in DPTBase.dpt_class_tree()}
    for i, summary in enumerate(full.dpts):
        if not ctx.mine(i):
            continue
        dpt = by_number.get(summary.dpt)
        forms = [summary.dpt] + ([summary.value_type] if summary.value_type else [])
        # a payload and value the number form accepts (reference spelling)
        n = summary.payload_length or 1
        ref_payload: Any = None
        ref_value: Any = None
        for cand in ([0] * n, [1] + [0] * (n - 1), [0] * (n - 1) + [1], [0x0C, 0x1A][:n] + [0] * max(0, n - 2)):
            p = cand[0] if summary.payload_type == "binary" else cand
            try:
                ref_value = (await decode_dpt_payload(DecodeDptPayloadInput(payload=p, value_type=summary.dpt))).value
                ref_payload = (await encode_dpt_payload(EncodeDptPayloadInput(value=ref_value, value_type=summary.dpt))).payload
                break
            except BaseException:  # noqa: BLE001
                continue
        for ident in forms:
            for spelled in dict.fromkeys((ident, f" {ident} ")):
                ctx.ev()
                wit = {"listed": {"dpt": summary.dpt, "value_type": summary.value_type}, "identifier": spelled}
                ctx.count("identifiers_checked")
                try:
                    det = await describe_dpt(spelled)
                except BaseException as exc:  # noqa: BLE001
                    ctx.violation(f"describe_dpt-raises-for-listed-identifier-{type(exc).__name__}", {**wit, "exception": repr(exc)[:200]}, f"describe_dpt({spelled!r}) raised {exc!r:.100}")
                    continue
                _json_native(ctx, "describe_dpt", det, wit)
                if spelled == ident and (not det.found or det.dpt is None or det.dpt.dpt != summary.dpt or det.dpt.value_type != summary.value_type):
                    ctx.violation("describe_dpt-does-not-resolve-identifier-listed-by-list_dpts", {**wit, "found": det.found, "resolved": None if det.dpt is None else [det.dpt.dpt, det.dpt.value_type]},
                                  f"list_dpts lists {summary.dpt} / {summary.value_type!r}; describe_dpt({spelled!r}) -> found={det.found} {None if det.dpt is None else (det.dpt.dpt, det.dpt.value_type)}")
                    continue
                if spelled != ident:
                    ctx.count("recorded_padded_identifier_" + ("found" if det.found else "not_found"))
                    continue
                ctx.count("identifiers_described")
                if ref_payload is None:
                    ctx.count("recorded_no_reference_payload")
                    continue
                try:
                    got_v = (await decode_dpt_payload(DecodeDptPayloadInput(payload=ref_payload, value_type=ident))).value
                    got_p = (await encode_dpt_payload(EncodeDptPayloadInput(value=ref_value, value_type=ident))).payload
                except BaseException as exc:  # noqa: BLE001
                    ctx.violation(f"encode-decode-tools-reject-identifier-listed-by-list_dpts-{type(exc).__name__}", {**wit, "payload": ref_payload, "exception": repr(exc)[:200]},
                                  f"list_dpts lists {summary.dpt} / {summary.value_type!r}; the encode/decode tools with value_type={ident!r} raise {exc!r:.100} (value_type={summary.dpt!r} works)")
                    continue
                if not same(got_v, ref_value) or got_p != ref_payload:
                    ctx.violation("identifier-forms-of-one-type-give-different-results", {**wit, "payload": ref_payload, "by_number": repr(ref_value)[:100], "by_identifier": repr(got_v)[:100], "encoded": got_p},
                                  f"{summary.dpt}: decode/encode by {ident!r} gives {got_v!r:.60} / {got_p}, by number {ref_value!r:.60} / {ref_payload}")
                else:
                    ctx.count("identifiers_accepted_by_encode_decode")
        ctx.distinct(("identifier", summary.dpt.split(".")[0], len(forms), dpt is not None))


async def _runtime_types(ctx: Any) -> None:
    """Types registered after the first listing (vendor DPTs) are listed too. Runs last: the classes stay registered."""
    from xknx.dpt import DPTTemperature, DPTValue1Ucount

    before = await list_dpts(DptFilter(limit=100000))
    n_before = before.total_count
    tag = f"s{ctx.shard}"
    new_a = type("DPTVerifVendorA", (DPTValue1Ucount,), {"dpt_main_number": 5, "dpt_sub_number": 60001, "value_type": f"verif_vendor_a_{tag}", "unit": "vnd"})
    new_b = type("DPTVerifVendorB", (DPTTemperature,), {"dpt_main_number": 9, "dpt_sub_number": 60002, "value_type": f"verif_vendor_b_{tag}", "unit": "°V"})
    new = [new_a, new_b]
    if not all(c in set(DPTBase.dpt_class_tree()) for c in new):
        ctx.inconclusive("harness: runtime-defined DPT classes are not in DPTBase.dpt_class_tree()")
        return
    idents = [_ident(c.dpt_number_str(), c.value_type) for c in new]
    for wit, flt in (({"filter": "none"}, {}), ({"filter": "text=verif_vendor"}, {"text": "verif_vendor"}), ({"filter": "main=5"}, {"main": 5}), ({"filter": "main=9,text=°v"}, {"main": 9, "text": "°v"})):
        for limit in (100000, 7, 1):
            ctx.ev()
            walked: list[str] = []
            offset: int | None = 0
            pages = 0
            while offset is not None and pages < 400:
                page = await list_dpts(DptFilter(limit=limit, offset=offset, **flt))
                pages += 1
                walked += [_ident(x.dpt, x.value_type) for x in page.dpts]
                offset = page.next_offset if page.dpts else None
            ctx.count("runtime_type_listings")
            expect = [i for i, c in zip(idents, new, strict=True) if ("main" not in flt or c.dpt_main_number == flt["main"]) and ("text" not in flt or flt["text"] in f"{c.dpt_number_str()} {c.value_type} {c.unit}".lower())]
            counts = {i: walked.count(i) for i in expect}
            if any(v != 1 for v in counts.values()) or (not flt and len(walked) != n_before + len(new)):
                ctx.violation("list_dpts-misses-type-registered-after-first-listing", {**wit, "limit": limit, "occurrences": counts, "listed": len(walked), "before": n_before},
                              f"after defining {[c.__name__ for c in new]} list_dpts({wit['filter']}, limit={limit}) lists them {counts} times ({len(walked)} entries, {n_before} before)")
            else:
                ctx.count("runtime_types_listed_once")
    for c in new:
        for ident in (c.dpt_number_str(), c.value_type):
            det = await describe_dpt(ident)
            ctx.count("runtime_type_identifiers_checked")
            if not det.found or det.dpt is None or det.dpt.value_type != c.value_type:
                ctx.violation("describe_dpt-does-not-resolve-type-registered-at-runtime", {"identifier": ident}, f"describe_dpt({ident!r}) does not resolve the runtime-defined {c.__name__}")
    ctx.distinct(("runtime-types", len(new)))


def run(ctx: Any) -> None:
    ctx.rule = (
        "per DPT class: payloads (all 6-bit values; all 1-octet; 2-octet exhaustive in thorough / edge grid + 100 random in quick; longer: per-position "
        "sweep + random) -> decode tool -> JSON text -> encode tool -> decode tool; list_dpts: random (main, text, limit) walked through next_offset; "
        "describe_dpt for every number and value-type name; read/send tools on a real XKNX with generated inputs. distinct = (class, outcome, JSON type) "
        "/ (filter shape, limit class, #pages) / (tool, outcome, input types)"
    )
    ctx.require("results_checked", "decoded", "encoded", "inverse_checked", "inverse_held", "encode_first_checked", "encode_first_falsy_payload_decoded", "page_walks", "page_walks_exact", "pages_fetched", "identifiers_checked", "identifiers_described", "identifiers_accepted_by_encode_decode", "runtime_type_listings", "runtime_types_listed_once", "filter_selections_judged", "filter_selections_as_documented", "needle_sweep",
                "results_list_dpts", "results_describe_dpt", "results_decode_dpt_payload", "results_encode_dpt_payload")
    loop = new_loop()
    try:
        tree = list(DPTBase.dpt_class_tree())
        if ctx.shard == 0:
            ctx.count("dpt_classes", len(tree))
        for i, dpt in enumerate(tree):
            if not ctx.mine(i):
                continue
            loop.run(_inverse_for_class(ctx, dpt, _payloads(ctx, dpt)), max_vtime=10)
        loop.run(_paging(ctx), max_vtime=10)
        loop.run(_describe(ctx), max_vtime=10)
        loop.run(_identifiers(ctx), max_vtime=10)
    finally:
        loop.finish()
    _bus_tools(ctx)
    loop = new_loop()
    try:
        loop.run(_runtime_types(ctx), max_vtime=10)  # last: the new classes stay registered for the rest of the process
    finally:
        loop.finish()
    if True:
        ctx.require("results_read_group_value", "results_send_group_value_write", "results_send_group_value_read", "results_get_connection_status",
                    "reads_answered", "reads_unanswered", "sends_accepted", "sends_refused", "refused_sends_with_queue_unchanged")
    ctx.extra["two_octet_dpts_exhaustive"] = not ctx.quick


def replay(ctx: Any, witness: dict[str, Any]) -> None:
    """Inverse witnesses (dpt, payload) are re-executed alone; anything else re-runs the recorded shard."""
    if "dpt" in witness and "payload" in witness:
        ctx.rule = "replay of one recorded (DPT class, payload)"
        dpt = next(d for d in DPTBase.dpt_class_tree() if d.__name__ == witness["dpt"])
        loop = new_loop()
        try:
            loop.run(_inverse_for_class(ctx, dpt, [witness["payload"]] * 2), max_vtime=10)
        finally:
            loop.finish()
        ctx.distinct(("replay", witness["dpt"]))
        ctx.distinct(("replay", "done"))
        return
    run(ctx)
