"""C01 addresses: text and wire round trips in every notation, hostile text."""

from __future__ import annotations

import sys
import unicodedata

from xknx.exceptions import CouldNotParseAddress
from xknx.telegram.address import (
    GroupAddress,
    GroupAddressType,
    IndividualAddress,
    InternalGroupAddress,
    parse_device_group_address,
)

LEVEL = "exploration"
TECHNIQUE = "runtime monitor: exhaustive round-trip oracle on the real address classes + hostile-input exception-class monitor"
LEVEL_TEXT = (
    "All 65,536 raw values x {individual, group} x {LONG, SHORT, FREE} are rendered and re-parsed through the real classes "
    "(exhaustive for that part); hostile text/objects are generated (Unicode digits, huge numerals, separators, ranges, non-strings) "
    "and every outcome is classified as address-that-re-parses-to-itself or CouldNotParseAddress. Exploration: the hostile part is sampled."
)
LEVEL_NOTE = "Trusted: CPython str/int/re. GroupAddress.address_format is switched by the harness and restored."


def _hostile_strings(ctx):
    rng = ctx.rng
    out = []
    # every code point that claims to be a digit
    digits = [chr(c) for c in range(sys.maxunicode + 1) if chr(c).isdigit()]
    weird = [d for d in digits if not d.isdecimal()]
    ctx.count("unicode_digit_codepoints", len(digits))
    ctx.count("unicode_digit_nondecimal", len(weird))
    step = ctx.scale(7, 1)
    for d in digits[::step] + weird[:: ctx.scale(3, 1)]:
        out += [d, d + d, f"1/{d}", f"{d}/1/1", f"1.1.{d}", f"{d}.1.1", "1" + d]
    for n in (4299, 4300, 4301, 5000, 20000):
        out += ["9" * n, "0" * n + "1", "1/" + "9" * n, "1.1." + "1" * n]
    seps = ["/", ".", "-", ",", " ", "\n", "\t", "//", "\\", ":", ""]
    nums = ["0", "1", "7", "8", "15", "16", "31", "32", "255", "256", "2047", "2048",
            "4095", "65535", "65536", "99999", "-1", "+1", " 1", "1 ", "01", "001", "1e3",
            "0x10", "1_0", "١", "٣", "", "a", "1.0", "１"]
    for _ in range(ctx.scale(4000, 150000)):
        k = rng.choice((1, 2, 2, 3, 3, 3, 4))
        parts = [rng.choice(nums) for _ in range(k)]
        s = parts[0]
        for p in parts[1:]:
            s += rng.choice(seps[:3] if rng.random() < 0.8 else seps) + p
        if rng.random() < 0.1:
            s = rng.choice((" ", "\n", "\t", "\x00", "i-", "I_", "i")) + s
        if rng.random() < 0.1:
            s += rng.choice((" ", "\n", "\t", "\x00", "/"))
        out.append(s)
    for _ in range(ctx.scale(500, 20000)):
        n = rng.randint(0, 8)
        out.append("".join(chr(rng.choice((rng.randint(0, 127), rng.randint(0, 0x2FFF), ord("/"), ord("1"), ord(".")))) for _ in range(n)))
    # internal addresses
    for body in ("a", " a ", "-", "_", "--", " -", "- ", "i", "1/2/3", "\x1f", "", " ", "-\n", "_-", "é", " x "):
        for pre in ("i", "I", "i-", "i_", "I-", "i ", "ii", "j-", "-i"):
            out.append(pre + body)
    return out


def _hostile_objects():
    return [None, True, False, 1.0, 1.5, float("nan"), b"1/2/3", b"\x01\x02", (1, 2, 3), [1], {},
            -1, 65536, 2**31, -(2**63), 10**30, 10**4299, 10**4300, -(10**4300), 10**5000, 2**20000, -(2**20000), object(), 1 + 0j]


def _show(obj):
    """Witness form of an input; huge ints cannot be converted to decimal text."""
    if isinstance(obj, int) and not isinstance(obj, bool) and obj.bit_length() > 256:
        return f"<int of {obj.bit_length()} bits, sign {'-' if obj < 0 else '+'}>"
    if isinstance(obj, str):
        return obj if len(obj) < 200 else obj[:60] + f"...<{len(obj)} chars>"
    return repr(obj)[:200]


def _judge_text(ctx, cls, text, name):
    """Parse `text`; outcome must be CouldNotParseAddress or a self-consistent address."""
    ctx.ev()
    try:
        a = cls(text)
    except CouldNotParseAddress:
        ctx.count("rejected")
        ctx.distinct(("rej", name, _shape(text)))
        return None
    except BaseException as exc:  # noqa: BLE001
        ctx.violation(
            f"{name}-parse-raises-{type(exc).__name__}",
            {"cls": name, "input": _show(text),
             "input_len": len(text) if isinstance(text, str) else None, "exception": repr(exc)[:200]},
            f"{name}({_show(text)[:60]}) raised {type(exc).__name__} instead of CouldNotParseAddress",
        )
        return None
    ctx.count("accepted_hostile")
    ctx.distinct(("acc", name, _shape(text)))
    try:
        raw = a.raw
        if cls is not InternalGroupAddress:
            ok = isinstance(raw, int) and 0 <= raw <= 65535 and len(a.to_knx()) == 2
            ok = ok and cls(str(a)) == a and cls.from_knx(a.to_knx()) == a
        else:
            ok = cls(str(a)) == a
    except BaseException as exc:  # noqa: BLE001
        ok = False
        raw = repr(exc)
    if not ok:
        ctx.violation(
            f"{name}-accepted-but-not-self-consistent",
            {"cls": name, "input": _show(text), "raw": _show(raw)[:80]},
            f"{name}({_show(text)[:60]}) was accepted but does not render/re-parse to itself",
        )
    return a


def _shape(text):
    if not isinstance(text, str):
        return type(text).__name__
    cats = []
    for ch in text[:12]:
        c = unicodedata.category(ch)
        cats.append(ch if ch in "/.-_ iI" else c)
    return ("".join(cats), min(len(text), 13))


def run(ctx):
    ctx.rule = ("exhaustive raw 0..65535 x {IA,GA} x {LONG,SHORT,FREE}: str->parse and to_knx->from_knx; hostile strings/objects "
                "classified by (class, outcome, category-shape of the text); distinct = distinct shapes")
    ctx.require("roundtrips", "rejected", "accepted_hostile", "from_knx_rejected", "from_knx_accepted")
    saved = GroupAddress.address_format
    try:
        # exhaustive part
        for fmt in (GroupAddressType.LONG, GroupAddressType.SHORT, GroupAddressType.FREE):
            GroupAddress.address_format = fmt
            for raw in range(65536):
                for cls, name in ((GroupAddress, "GA"), (IndividualAddress, "IA")):
                    ctx.ev()
                    try:
                        a = cls(raw)
                        s = str(a)
                        b = cls(s)
                        k = a.to_knx()
                        c = cls.from_knx(k)
                        ok = b == a and c == a and b.raw == raw and c.raw == raw and len(k) == 2 and k == raw.to_bytes(2, "big")
                        if cls is GroupAddress and ok:
                            d = parse_device_group_address(s) if raw else None
                            ok = d is None or d == a
                    except BaseException as exc:  # noqa: BLE001
                        ok = False
                        s = repr(exc)
                    ctx.count("roundtrips")
                    if not ok:
                        ctx.violation(
                            f"{name}-roundtrip-{fmt.name}",
                            {"raw": raw, "format": fmt.name, "text": s},
                            f"{name} raw={raw} in {fmt.name} notation renders as {s!r} which does not parse back to it",
                        )
            ctx.distinct(("fmt", fmt.name))
        ctx.sample({"raw": 0x1234, "LONG": "2/2/52", "SHORT": "2/564", "FREE": "4660", "IA": "1.2.52"})
        ctx.exhaustive = True
        ctx.extra["exhaustive_part"] = "65536 raw x 2 kinds x 3 notations"

        # hostile text: result independent of the notation in force
        strings = _hostile_strings(ctx)
        for i, text in enumerate(strings):
            results = []
            for fmt in (GroupAddressType.LONG, GroupAddressType.SHORT, GroupAddressType.FREE):
                GroupAddress.address_format = fmt
                a = _judge_text(ctx, GroupAddress, text, "GA")
                results.append(None if a is None else a.raw)
            if len(set(results)) != 1:
                ctx.violation("GA-parse-depends-on-notation", {"input": repr(text)[:200], "results": results},
                              f"GroupAddress({text[:40]!r}) parses differently under different notations: {results}")
            GroupAddress.address_format = (GroupAddressType.LONG, GroupAddressType.SHORT, GroupAddressType.FREE)[i % 3]
            _judge_text(ctx, IndividualAddress, text, "IA")
            _judge_text(ctx, InternalGroupAddress, text, "IGA")
            # parse_device_group_address
            ctx.ev()
            try:
                d = parse_device_group_address(text)
            except CouldNotParseAddress:
                ctx.count("rejected")
            except BaseException as exc:  # noqa: BLE001
                ctx.violation(f"device-address-parse-raises-{type(exc).__name__}",
                              {"input": repr(text)[:200], "exception": repr(exc)[:200]},
                              f"parse_device_group_address({text[:40]!r}) raised {type(exc).__name__}")
            else:
                ok = False
                try:
                    ok = parse_device_group_address(str(d)) == d and not (isinstance(d, GroupAddress) and d.raw == 0)
                except BaseException:  # noqa: BLE001
                    pass
                if not ok:
                    ctx.violation("device-address-accepted-but-not-self-consistent", {"input": repr(text)[:200]},
                                  f"parse_device_group_address({text[:40]!r}) accepted but does not re-parse to itself / is broadcast")
            if i < 3:
                ctx.sample({"hostile_text": text[:60]})
        for obj in _hostile_objects():
            for fmt in (GroupAddressType.LONG, GroupAddressType.SHORT, GroupAddressType.FREE):
                GroupAddress.address_format = fmt
                for cls, name in ((GroupAddress, "GA"), (IndividualAddress, "IA"), (InternalGroupAddress, "IGA")):
                    _judge_text(ctx, cls, obj, name)
        # wire form: from_knx of any octet string is either an address that round-trips or an address parse error
        for n in (0, 1, 3, 4, 8, 255, 1785, 1786, 1787, 1800, 4000, 9000):
            for fill in (b"\x00", b"\xff", b"\x01"):
                for cls, name in ((GroupAddress, "GA"), (IndividualAddress, "IA")):
                    ctx.ev()
                    raw = fill * n
                    try:
                        a = cls.from_knx(raw)
                    except CouldNotParseAddress:
                        ctx.count("from_knx_rejected")
                    except BaseException as exc:  # noqa: BLE001
                        ctx.violation(f"{name}-from_knx-raises-{type(exc).__name__}", {"cls": name, "octets": n, "fill": fill.hex(), "exception": repr(exc)[:200]},
                                      f"{name}.from_knx({n} octets of {fill.hex()}) raised {type(exc).__name__} instead of CouldNotParseAddress")
                    else:
                        ctx.count("from_knx_accepted")
                        if not (0 <= a.raw <= 65535 and cls.from_knx(a.to_knx()) == a):
                            ctx.violation(f"{name}-from_knx-accepted-but-not-self-consistent", {"cls": name, "octets": n, "fill": fill.hex()}, f"{name}.from_knx accepted {n} octets but the address does not round-trip")
    finally:
        GroupAddress.address_format = saved
