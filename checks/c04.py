"""C04 APCI decode totality: declared errors only, bounded steps, malformed != unsupported."""

from __future__ import annotations

import sys

from vlib import apci_gen as G
from vlib.eqv import same
from xknx.cemi.cemi_frame import CEMILData
from xknx.exceptions import (
    ConversionError,
    CouldNotParseCEMI,
    UnsupportedAPCIService,
    UnsupportedCEMIMessage,
)
from xknx.telegram import apci as apci_mod
from xknx.telegram.apci import APCI

LEVEL = "exploration"
TECHNIQUE = (
    "runtime monitor: exception-class monitor on the real APCI.from_knx over exhaustive/structured APDUs, "
    "independent recognised-code table (malformed must not surface as unsupported), sys.monitoring LINE-count step budget, "
    "CEMILData.from_knx error-mapping monitor"
)
LEVEL_TEXT = (
    "Thorough: every APDU of 0..3 octets (16,843,009 inputs, 16 shards, exhaustive for that bound) plus, for each of the 1024 "
    "ten-bit APCI codes, 37 lengths (2..32, 54..57, 254, 255) x zero/0xFF/random/length-field-consistent/short/long fills, every octet "
    "value in every position of a hand-written valid frame of every service, every truncation/extension of those frames. "
    "Quick: lengths 0..2 exhaustive, a 200k sample of length 3 and the same structure-aware part. Exploration: beyond 3 octets the space is sampled."
)
LEVEL_NOTE = (
    "Trusted: CPython, struct, the hand-written code table and frames in vlib/apci_gen.py (cross-checked against the library's enums; "
    "a mismatch is inconclusive). Judged: exception class of every decode, 'unsupported' for a code of a recognised service, LINE events "
    "<= 400+40*len on a sample (termination in logical steps; the wall watchdog only yields inconclusive), the mapping to "
    "UnsupportedCEMIMessage/CouldNotParseCEMI in CEMILData.from_knx under every data TPCI legal for the destination kind (T_Data_Group, "
    "T_Data_Tag_Group, T_Data_Broadcast, T_Data_Individual, T_Data_Connected seq 0..15). Not judged: which of object/ConversionError a recognised code yields, "
    "the three legacy A_RouterStatus_* codes (documented as unsupported), objects returned for unallocated codes by the tolerant dispatcher (counted)."
)
SHARDS = {"quick": 1, "thorough": 16}
TIMEOUT = {"quick": 240, "thorough": 1500}

STEP_BASE = 400
STEP_PER_OCTET = 40


class StepBudgetExceeded(BaseException):
    """Raised from the LINE callback when a decode runs over its budget."""


class LineMonitor:
    """Counts sys.monitoring LINE events inside files below `prefix`."""

    def __init__(self, prefix: str) -> None:
        self.prefix = prefix
        self.count = 0
        self.budget = 1 << 60
        self.tool = None
        self.mon = sys.monitoring

    def __enter__(self) -> LineMonitor:
        for tool in (3, 4, 2):
            try:
                self.mon.use_tool_id(tool, "verif-c04-steps")
            except ValueError:
                continue
            self.tool = tool
            break
        if self.tool is None:
            raise RuntimeError("no free sys.monitoring tool id")
        self.mon.register_callback(self.tool, self.mon.events.LINE, self._line)
        self.mon.set_events(self.tool, self.mon.events.LINE)
        return self

    def __exit__(self, *exc: object) -> None:
        self.mon.set_events(self.tool, 0)
        self.mon.register_callback(self.tool, self.mon.events.LINE, None)
        self.mon.free_tool_id(self.tool)
        self.tool = None

    def _line(self, code, _lineno):  # noqa: ANN001
        if not code.co_filename.startswith(self.prefix):
            return self.mon.DISABLE
        self.count += 1
        if self.count > self.budget:
            self.budget = 1 << 60  # raise once; the handler's own lines may be monitored too
            raise StepBudgetExceeded
        return None

    def run(self, fn, arg, budget):  # noqa: ANN001
        """Call fn(arg) and return the LINE events spent in monitored files (-1: over budget)."""
        self.count = 0
        self.budget = budget
        try:
            fn(arg)
        except StepBudgetExceeded:
            self.budget = 1 << 60
            return -1
        except Exception:  # noqa: BLE001 - the exception class is judged elsewhere
            pass
        self.budget = 1 << 60
        return self.count


def _spin(n):  # used by the monitor self test only
    i = 0
    while i < n:
        i += 1
    return i


def outcome_of(raw):
    """('obj', object) | ('conv', exc) | ('unsup', exc) | ('other', exc)."""
    try:
        return "obj", APCI.from_knx(raw)
    except UnsupportedAPCIService as exc:
        return "unsup", exc
    except ConversionError as exc:
        return "conv", exc
    except BaseException as exc:  # noqa: BLE001
        return "other", exc


def _service_label(raw):
    if len(raw) < 2:
        return "short"
    code = G.apci_code(raw)
    return G.recognised(code) or G.LEGACY_UNSUPPORTED.get(code) or "unallocated"


class Judge:
    """Per-input oracle; keeps cheap local counters and flushes them into ctx."""

    def __init__(self, ctx) -> None:  # noqa: ANN001
        self.ctx = ctx
        self.n = 0
        self.kinds = {"obj": 0, "conv": 0, "unsup": 0, "other": 0}
        self.rec_malformed = 0
        self.rec_accepted = 0
        self.tolerant = 0
        self.legacy = 0
        self.fps = set()
        self.classes = set()
        self.maxlen = 0

    def apci(self, raw):
        self.n += 1
        kind, val = outcome_of(raw)
        self.kinds[kind] += 1
        ln = len(raw)
        if ln >= 2:
            code = ((raw[0] << 8) | raw[1]) & 0x3FF
            name = G.recognised(code)
        else:
            code, name = -1, None
        if kind == "obj":
            cname = type(val).__name__
            if not isinstance(val, APCI):
                self.ctx.violation(
                    "decode-returns-non-service-object",
                    {"kind": "apci", "apdu": raw.hex(), "returned": repr(val)[:200]},
                    f"APCI.from_knx({raw.hex()}) returned {type(val).__name__}, not a service object",
                )
            if name is None:
                self.tolerant += 1
            else:
                self.rec_accepted += 1
            fp = (cname, min(ln, 40))
            if fp not in self.fps:
                self.fps.add(fp)
                self.classes.add(cname)
        elif kind == "conv":
            if name is not None:
                self.rec_malformed += 1
            fp = ("conv", name or (code >> 6 if code >= 0 else "short"), min(ln, 40))
            self.fps.add(fp)
        elif kind == "unsup":
            if name is not None:
                self.ctx.violation(
                    f"malformed-reported-as-unsupported:{name}",
                    {"kind": "apci", "apdu": raw.hex(), "length": ln, "apci": f"{code:#05x}", "service": name,
                     "error": str(val)[:200]},
                    f"APDU {raw[:16].hex()}… (len {ln}) carries the code of {name} ({code:#05x}) but is reported as unsupported instead of malformed",
                )
            elif code in G.LEGACY_UNSUPPORTED:
                self.legacy += 1
            self.fps.add(("unsup", code >> 3 if code >= 0 else "short", min(ln, 8)))
        else:
            label = _service_label(raw)
            self.ctx.violation(
                f"decode-raises-{type(val).__name__}:{label}",
                {"kind": "apci", "apdu": raw.hex(), "length": ln, "service": label, "exception": repr(val)[:300]},
                f"APCI.from_knx({raw[:16].hex()}{'…' if ln > 16 else ''}) (len {ln}, {label}) raised {type(val).__name__}: {val!s:.120}",
            )
        if ln > self.maxlen:
            self.maxlen = ln
        return kind, val

    def flush(self):
        c = self.ctx
        c.ev(self.n)
        c.count("decoded_to_object", self.kinds["obj"])
        c.count("conversion_error", self.kinds["conv"])
        c.count("unsupported_service", self.kinds["unsup"])
        if self.kinds["other"]:
            c.count("other_exception", self.kinds["other"])
        c.count("recognised_code_malformed", self.rec_malformed)
        c.count("recognised_code_accepted", self.rec_accepted)
        c.count("unallocated_code_accepted_by_tolerant_dispatch", self.tolerant)
        c.count("legacy_router_status_unsupported", self.legacy)
        for fp in sorted(self.fps, key=repr):
            c.distinct(fp)
        c.extra["service_classes_decoded"] = sorted(self.classes)
        c.extra["max_apdu_length"] = [f"{self.maxlen} octets"]


# -- cEMI mapping -------------------------------------------------------------


# data TPCIs legal for each destination kind: (name, Ctrl2, destination, TPCI octet without the two APCI bits)
CEMI_VARIANTS = (
    ("T_Data_Group", 0xE0, b"\x09\x01", 0x00),
    ("T_Data_Tag_Group", 0xE0, b"\x09\x01", 0x04),
    ("T_Data_Broadcast", 0xE0, b"\x00\x00", 0x00),
    ("T_Data_Individual", 0x60, b"\x11\x0a", 0x00),
    *((f"T_Data_Connected/{seq}", 0x60, b"\x11\x0a", 0x40 | seq << 2) for seq in range(16)),
)
CEMI_VARIANT_BY_NAME = {v[0]: v for v in CEMI_VARIANTS}


def _cemi_for(apdu, variant):
    """L_Data body (control fields .. TPDU) carrying `apdu` under the given data TPCI / destination kind."""
    _, ctrl2, dst, tpci = variant
    npdu_len = len(apdu) - 1
    ctrl1 = 0xBC if npdu_len <= 15 else 0x3C
    tpdu = bytes([tpci | (apdu[0] & 0x03)]) + apdu[1:]
    return bytes([ctrl1, ctrl2]) + b"\x11\x01" + dst + bytes([npdu_len]) + tpdu


def judge_cemi(ctx, apdu, variant):
    """CEMILData.from_knx must map the APCI outcome as the statement says, whatever data TPCI carries the APDU."""
    if not 1 <= len(apdu) <= 256:
        return
    plain = bytes([apdu[0] & 0x03]) + apdu[1:]
    kind, val = outcome_of(plain)
    if kind == "other":
        return  # already reported by the APCI monitor
    frame = _cemi_for(apdu, variant)
    tname = variant[0].split("/")[0]
    ctx.ev()
    try:
        data = CEMILData.from_knx(frame)
        got = "frame"
    except UnsupportedCEMIMessage as exc:
        got, data = "UnsupportedCEMIMessage", exc
    except CouldNotParseCEMI as exc:
        got, data = "CouldNotParseCEMI", exc
    except BaseException as exc:  # noqa: BLE001
        got, data = type(exc).__name__, exc
    expected = {"obj": "frame", "unsup": "UnsupportedCEMIMessage", "conv": "CouldNotParseCEMI"}[kind]
    ctx.count(f"cemi_{expected}")
    ctx.count(f"cemi_tpci_{tname}")
    ok = got == expected
    if ok and got == "frame":
        ok = same(data.payload, val)
    if not ok:
        ctx.violation(
            f"cemi-maps-apdu-{kind}-to-{got}:{tname}",
            {"kind": "cemi", "apdu": apdu.hex(), "tpci": variant[0], "cemi": frame[:80].hex(),
             "apci_outcome": kind, "observed": got, "detail": repr(data)[:300]},
            f"CEMILData.from_knx with APDU {plain[:16].hex()} (APCI outcome {kind}) in a {variant[0]} frame gave {got}, expected {expected}",
        )
    ctx.count("cemi_mapping_checked")


# -- step budget ----------------------------------------------------------------


def judge_steps(ctx, monitor, raw, hist):
    budget = STEP_BASE + STEP_PER_OCTET * len(raw)
    steps = monitor.run(APCI.from_knx, raw, budget)
    ctx.ev()
    ctx.count("step_budget_samples")
    if steps < 0:
        label = _service_label(raw)
        ctx.violation(
            f"decode-exceeds-step-budget:{label}",
            {"kind": "steps", "apdu": raw.hex(), "length": len(raw), "budget_line_events": budget},
            f"APCI.from_knx on a {len(raw)} octet APDU ({label}) executed more than {budget} source lines",
        )
        return
    if steps > hist["max"]:
        hist["max"] = steps
        hist["max_input"] = raw[:24].hex()
        hist["max_len"] = len(raw)
    ratio = steps / budget
    if ratio > hist["max_ratio"]:
        hist["max_ratio"] = round(ratio, 4)


def _self_test_monitor(ctx, monitor):
    """The monitor must count lines of the decoder and must be able to stop a runaway loop."""
    saved = monitor.prefix
    try:
        monitor.prefix = __file__
        over = monitor.run(_spin, 5000, 200)
    finally:
        monitor.prefix = saved
    seen = monitor.run(APCI.from_knx, b"\x03\xf1" + bytes(20), 10**6)
    if over != -1 or seen < 5:
        ctx.inconclusive(f"step monitor self test failed (runaway loop -> {over}, decoder lines -> {seen})")
        return False
    ctx.count("step_monitor_self_test_ok")
    return True


# -- generators cross-check ------------------------------------------------------


def _cross_check_tables(ctx):
    """My code table vs. the library's enums: a new/removed service makes the run inconclusive."""
    enum_codes = {
        m.value
        for enum in (apci_mod.APCIService, apci_mod.APCIUserService, apci_mod.APCIExtendedService)
        for m in enum
    }
    mine = G.all_recognised_exact_codes() | set(G.LEGACY_UNSUPPORTED)
    mine_exact = {c for c in mine if not (0x1C1 <= c <= 0x1C7)}
    if enum_codes - mine:
        ctx.inconclusive(
            "APCI codes in the library enums that the independent table does not know: "
            + ", ".join(f"{c:#05x}" for c in sorted(enum_codes - mine))
        )
    if mine_exact - enum_codes:
        ctx.inconclusive(
            "codes of the independent table missing from the library enums: "
            + ", ".join(f"{c:#05x}" for c in sorted(mine_exact - enum_codes))
        )
    ctx.count("recognised_codes_in_table", sum(1 for c in range(1024) if G.recognised(c)))


def run(ctx):
    rng = ctx.rng
    ctx.rule = (
        "inputs: all APDUs of 0..2 octets, all (thorough) / 200k random (quick) of 3 octets, per 10-bit code 37 lengths x ~11 fills, "
        "every octet value at every position of one hand-written valid frame per service, all truncations/extensions, rejection classes; "
        "distinct = (decoded class | conversion x service | unsupported x code/8, length bucket)"
    )
    ctx.require(
        "decoded_to_object", "conversion_error", "unsupported_service", "recognised_code_malformed",
        "step_budget_samples", "cemi_mapping_checked", "cemi_frame", "cemi_UnsupportedCEMIMessage", "cemi_CouldNotParseCEMI",
        "cemi_tpci_T_Data_Group", "cemi_tpci_T_Data_Tag_Group", "cemi_tpci_T_Data_Broadcast", "cemi_tpci_T_Data_Individual",
        "cemi_tpci_T_Data_Connected",
    )
    _cross_check_tables(ctx)
    judge = Judge(ctx)
    hist = {"max": 0, "max_ratio": 0.0, "max_input": "", "max_len": 0}
    step_inputs = []
    cemi_inputs = []

    # 1.-3. the input space (vlib.apci_gen.input_space; shared with C05) -----
    rates = {  # tag -> (every k-th input into the step sample, every k-th into the cEMI sample)
        "x012": (97, 13), "x3": (211, 41) if ctx.quick else (1009, 257), "code": (53, 17),
        "canon": (1, 1), "reject": (1, 1), "trunc": (7, 3), "sweep": (101, 29), "mix": (37, 11),
    }
    per_tag = {}
    for tag, raw in G.input_space(rng, ctx.quick, ctx.shard, ctx.nshards):
        idx = per_tag.get(tag, 0)
        per_tag[tag] = idx + 1
        kind, val = judge.apci(raw)
        step_every, cemi_every = rates[tag]
        if idx % step_every == 0:
            step_inputs.append(raw)
        if idx % cemi_every == 0:
            cemi_inputs.append(raw)
        if tag == "reject":
            ctx.count(f"rejection_class_{kind}")
    for tag, n in sorted(per_tag.items()):
        ctx.count(f"inputs_{tag}", n)
    if ctx.shard == 0:
        for name, raw in G.canonical_frames():
            kind, val = outcome_of(raw)
            if kind == "obj" and type(val).__name__ == name:
                ctx.count("canonical_frames_decoded_as_named_class")
            else:  # any declared error is allowed by C04, but the corpus is then off: say so
                ctx.count("canonical_frames_not_decoded_as_named_class")
        for label, raw in G.rejection_classes():
            ctx.distinct(("rejection", label, outcome_of(raw)[0]))
    ctx.count("apci_codes_swept", sum(1 for c in range(1024) if ctx.mine(c)))
    if ctx.quick:
        ctx.exhaustive = False
        ctx.extra["exhaustive_part"] = "lengths 0..2 complete (65,793); length 3 sampled (200,000)"
    else:
        ctx.exhaustive = True
        ctx.extra["exhaustive_part"] = "all APDUs of 0..3 octets (16,843,009)"
    judge.flush()

    # 4. termination in logical steps ------------------------------------------
    prefix = apci_mod.__file__.rsplit("/xknx/", 1)[0] + "/xknx/"
    with LineMonitor(prefix) as monitor:
        if _self_test_monitor(ctx, monitor):
            # the longest inputs of every code are always in the sample
            for code in range(1024):
                if ctx.mine(code):
                    judge_steps(ctx, monitor, bytes([code >> 8, code & 0xFF]) + rng.randbytes(253), hist)
            for raw in step_inputs:
                judge_steps(ctx, monitor, raw, hist)
    ctx.extra["step_budget"] = f"{STEP_BASE}+{STEP_PER_OCTET}*len LINE events in xknx/"
    ctx.extra["step_monitor_observed"] = [
        f"shard {ctx.shard}: max {hist['max']} LINE events (len {hist['max_len']}, apdu {hist['max_input']}…), "
        f"max fraction of budget {hist['max_ratio']}"
    ]

    # 5. mapping in CEMILData.from_knx ----------------------------------------
    # every data TPCI legal for its destination kind: valid frames, rejection classes and every 16th sampled input under all 20,
    # the rest under the four connectionless ones plus two rotating sequence numbers
    full = {raw for _, raw in G.canonical_frames()} | {raw for _, raw in G.rejection_classes()}
    for i, raw in enumerate(cemi_inputs):
        if raw in full or i % 16 == 0:
            variants = CEMI_VARIANTS
        else:
            variants = (*CEMI_VARIANTS[:4], CEMI_VARIANTS[4 + i % 16], CEMI_VARIANTS[4 + (i * 7 + 5) % 16])
        for variant in variants:
            judge_cemi(ctx, raw, variant)

    ctx.sample({"apdu": "0000", "outcome": "GroupValueRead"})
    ctx.sample({"apdu": "03d0021234f00f", "outcome": "ConversionError (A_MemoryBit_Write number inconsistent with length)"})
    ctx.sample({"apdu": "03df000000", "outcome": "UnsupportedAPCIService (A_ServiceInformation_Indication_Write not claimed)"})
    ctx.sample({"apdu": "03f170000000000004676724 2a2308".replace(" ", ""), "outcome": "ConversionError (SCF algorithm 7)"})


def replay(ctx, witness):
    ctx.rule = "replay of one recorded APDU"
    raw = bytes.fromhex(witness["apdu"])
    ctx.distinct(("replay", witness.get("kind")))
    ctx.distinct(("replay-input", raw.hex()))
    kind = witness.get("kind", "apci")
    if kind == "apci":
        judge = Judge(ctx)
        judge.apci(raw)
        judge.flush()
    elif kind == "cemi":
        judge_cemi(ctx, raw, CEMI_VARIANT_BY_NAME.get(witness.get("tpci"), CEMI_VARIANTS[0]))
    else:
        prefix = apci_mod.__file__.rsplit("/xknx/", 1)[0] + "/xknx/"
        with LineMonitor(prefix) as monitor:
            judge_steps(ctx, monitor, raw, {"max": 0, "max_ratio": 0.0, "max_input": "", "max_len": 0})
