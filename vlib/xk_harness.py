"""Small harness: a real XKNX on the virtual loop with a recording fake interface.

Used by C11 / C38 / C45.  Nothing of xknx is replaced except the public seam
`xknx.knxip_interface` (a slot of XKNX): the real TelegramQueue, CEMIHandler,
GroupAddressDPT, Devices, StateUpdater and TaskRegistry run unmodified.

    h = Harness()                       # new virtual loop + XKNX(), not started
    h.start()                           # xknx.start() against the fake interface
    h.feed(telegram, ...); h.settle()   # incoming telegrams through the real queue
    h.drain()                           # telegrams queued but not yet consumed
    h.wire_valid(telegram)              # (ok, bytes | exception) of the L_DATA.req
    h.stop(); h.close()
"""

from __future__ import annotations

import asyncio
from collections.abc import Callable, Coroutine, Iterable
import contextlib
from typing import Any

from xknx import XKNX
from xknx.cemi import CEMIFrame, CEMILData, CEMIMessageCode
from xknx.core.connection_state import XknxConnectionState, XknxConnectionType
from xknx.dpt import DPTArray, DPTBinary
from xknx.telegram import (
    GroupAddress,
    IndividualAddress,
    Telegram,
    TelegramDirection,
)
from xknx.telegram.apci import GroupValueRead, GroupValueResponse, GroupValueWrite

from .vloop import VLoop, new_loop


class RecordingInterface:
    """Stands in for KNXIPInterface: records every cEMI frame xknx wants to send.

    `send_cemi` serialises the frame exactly as a tunnel / routing connection would
    (`cemi.to_knx()`); a serialisation error propagates to the caller like it would
    from the real interface.  With `confirm=True` the matching L_DATA.con is handed
    to the real CEMIHandler so the TelegramQueue proceeds without the 3 s timeout.
    """

    def __init__(self, xknx: XKNX, confirm: bool = True) -> None:
        self.xknx = xknx
        self.confirm = confirm
        self.connection_config = xknx.knxip_interface.connection_config
        self.sent: list[bytes] = []
        self.send_errors: list[BaseException] = []
        self.started = False
        # scripted bus: called with every frame after it was confirmed (e.g. to answer a GroupValueRead)
        self.on_sent: Callable[[CEMIFrame], None] | None = None

    async def start(self) -> None:
        self.started = True
        self.xknx.connection_manager.connection_state_changed(
            XknxConnectionState.CONNECTED, XknxConnectionType.TUNNEL_TCP
        )

    async def stop(self) -> None:
        self.started = False
        self.xknx.connection_manager.connection_state_changed(
            XknxConnectionState.DISCONNECTED
        )

    async def send_cemi(self, cemi: CEMIFrame) -> None:
        try:
            raw = cemi.to_knx()
        except BaseException as exc:
            self.send_errors.append(exc)
            raise
        self.sent.append(bytes(raw))
        if self.confirm:
            con = CEMIFrame(code=CEMIMessageCode.L_DATA_CON, data=cemi.data)
            self.xknx.cemi_handler.handle_cemi_frame(con)
        if self.on_sent is not None:
            self.on_sent(cemi)


def serialise(telegram: Telegram) -> bytes:
    """The L_DATA.req octets of an outgoing telegram (raises what xknx raises)."""
    return bytes(
        CEMIFrame(
            code=CEMIMessageCode.L_DATA_REQ,
            data=CEMILData.init_from_telegram(telegram),
        ).to_knx()
    )


def wire_valid(telegram: Telegram) -> tuple[bool, bytes | BaseException]:
    try:
        return True, serialise(telegram)
    except BaseException as exc:  # noqa: BLE001 - every failure is the observation
        return False, exc


def wire_payload(raw: bytes) -> DPTArray | DPTBinary | None:
    """Payload a receiver reads from L_DATA octets (None: no group value)."""
    frame = CEMIFrame.from_knx(raw)
    payload = frame.data.payload  # type: ignore[union-attr]
    if isinstance(payload, GroupValueWrite | GroupValueResponse):
        return payload.value
    return None


def incoming(
    ga: int | str | GroupAddress,
    payload: DPTArray | DPTBinary | None,
    response: bool = False,
    source: str = "1.1.200",
) -> Telegram:
    """An incoming group telegram (payload None: GroupValueRead)."""
    apci: Any
    if payload is None:
        apci = GroupValueRead()
    elif response:
        apci = GroupValueResponse(payload)
    else:
        apci = GroupValueWrite(payload)
    return Telegram(
        destination_address=ga if isinstance(ga, GroupAddress) else GroupAddress(ga),
        direction=TelegramDirection.INCOMING,
        payload=apci,
        source_address=IndividualAddress(source),
    )


class Harness:
    """One XKNX instance on its own virtual loop."""

    def __init__(self, confirm: bool = True, **xknx_kwargs: Any) -> None:
        self.loop: VLoop = new_loop()
        self.xknx = XKNX(**xknx_kwargs)
        self.iface = RecordingInterface(self.xknx, confirm=confirm)
        self.xknx.knxip_interface = self.iface  # type: ignore[assignment]
        self.seen: list[Telegram] = []  # telegram_received_cb, incl. outgoing
        self.xknx.telegram_queue.register_telegram_received_cb(
            self.seen.append, match_for_outgoing=True
        )
        self.running = False

    # -- life cycle ------------------------------------------------------
    def run(self, coro: Coroutine[Any, Any, Any], max_vtime: float = 600.0) -> Any:
        asyncio.set_event_loop(self.loop)
        return self.loop.run(coro, max_vtime=max_vtime)

    def start(self) -> None:
        self.run(self.xknx.start())
        self.running = True

    def stop(self) -> None:
        if self.running:
            self.run(self.xknx.stop())
            self.running = False

    def close(self) -> list[asyncio.Task[Any]]:
        with contextlib.suppress(BaseException):
            self.stop()
        asyncio.set_event_loop(self.loop)
        leaked = self.loop.finish()
        asyncio.set_event_loop(None)
        return leaked

    # -- telegrams -------------------------------------------------------
    def feed(self, telegrams: Iterable[Telegram]) -> None:
        """Queue telegrams for the real TelegramQueue (processed by settle())."""
        for t in telegrams:
            self.xknx.telegrams.put_nowait(t)

    def settle(self, advance: float = 0.0) -> None:
        """Let the queue consume everything; optionally let virtual time pass."""

        async def _go() -> None:
            await self.xknx.telegrams.join()
            if advance > 0:
                await asyncio.sleep(advance)
                await self.xknx.telegrams.join()

        self.run(_go())

    def drain(self) -> list[Telegram]:
        """Remove and return what is queued in xknx.telegrams (queue not running)."""
        out: list[Telegram] = []
        q = self.xknx.telegrams
        while not q.empty():
            t = q.get_nowait()
            q.task_done()
            if t is not None:
                out.append(t)
        return out

    def process_directly(self, telegram: Telegram) -> None:
        """What the consumer does for an incoming telegram, without the queue."""
        self.xknx.group_address_dpt.set_decoded_data(telegram)
        self.run(self.xknx.telegram_queue.process_telegram_incoming(telegram))

    def call(self, fn: Callable[..., Any], *args: Any, **kwargs: Any) -> Any:
        """Call a sync or async xknx API inside the loop; returns its result."""

        async def _go() -> Any:
            res = fn(*args, **kwargs)
            if asyncio.iscoroutine(res):
                res = await res
            return res

        return self.run(_go())


@contextlib.contextmanager
def virtual_wall_clock(get_loop: Callable[[], VLoop | None]) -> Any:
    """Modules that read time.time() see the virtual clock of the current harness."""
    import types

    from xknx.devices import binary_sensor, travelcalculator

    class _Shim(types.SimpleNamespace):
        pass

    def _now() -> float:
        loop = get_loop()
        return loop.time() if loop is not None else 0.0

    import time as _real

    shim = _Shim(**{k: getattr(_real, k) for k in dir(_real) if not k.startswith("__")})
    shim.time = _now
    saved = (binary_sensor.time, travelcalculator.time)
    binary_sensor.time = shim  # type: ignore[assignment]
    travelcalculator.time = shim  # type: ignore[assignment]
    try:
        yield
    finally:
        binary_sensor.time, travelcalculator.time = saved
