"""C28 IP Secure wrapping: round trip, tamper evidence, conformance with an independent CCM."""

from __future__ import annotations

import contextlib
import random

from vlib import refcrypto_ip as ref
from vlib.peers_secure import SecureServer, all_body_class_names, random_plain_frame
from vlib.vloop import Deadlock, LoopBudget, new_loop
from xknx.exceptions import CouldNotParseKNXIP, IPSecureError, KNXSecureValidationError
from xknx.io import ip_secure
from xknx.io.ip_secure import FORBIDDEN_WRAPPED_SERVICES, SecureSequenceTimer, SecureSession, _IPSecureTransportLayer
from xknx.knxip import KNXIPFrame, SecureWrapper, SessionResponse, SessionStatus, TimerNotify

LEVEL = "exploration"
TECHNIQUE = (
    "runtime monitor: the real encrypt_frame/decrypt_frame, SecureSession.handshake/connect and SecureSequenceTimer "
    "are executed on generated inputs; octets on the wire are compared with an independent AES-CCM written from the "
    "KNX IP Secure specification; every single-bit flip of a wrapper / TimerNotify / SessionResponse must be refused"
)
LEVEL_TEXT = (
    "Random plain frames of all 29 body classes and all payload lengths mod 16, random keys, session ids, sequence "
    "information, serial numbers and tags are wrapped by the real code and by the reference (byte equality), unwrapped "
    "again (identity), and the reference's wrappers with foreign serial numbers are fed to decrypt_frame. For a sample of "
    "wrappers the complete single-bit-flip neighbourhood (every bit of the wire frame, of the key and of the receiver's "
    "session id) is enumerated - exhaustive per wrapper, sampled over wrappers, hence exploration. Handshakes: random X25519 "
    "pairs x password pairs (bounded number of PBKDF2 runs), SessionAuthenticate MAC and session key compared with the "
    "reference, every bit flip of the SessionResponse refused, plus full connects on the virtual loop against a reference server. "
    "TimerNotify: MAC equality and every bit flip refused. Tampering is also done on the parsed frame OBJECT (header total_length / service type and each body field changed alone, "
    "then handed to decrypt_frame and to handle_knxipframe of a real SecureGroup and SecureSession): the MAC covers the header as received, so each must be refused. "
    "Both real transports (SecureGroup with its own timer and per-call random tag, SecureSession after a real handshake with its own counter; tag and sequence sources "
    "not pinned) wrap random frames; each wrapper is verified and rebuilt by the reference from the fields it carries and unwrapped by a second SecureGroup with the same key."
)
LEVEL_NOTE = (
    "Trusted: the AES block permutation, SHA-256, PBKDF2-HMAC and X25519 of `cryptography`/hashlib; vlib/refcrypto_ip.py, "
    "re-validated at the start of every run against the AN159 vectors recorded in the repository's tests (failure => inconclusive). "
    "Assumption: passwords are ISO 8859-1 strings (ETS keyring passwords; xknx encodes both the user password and the device authentication password with latin-1), so the "
    "reference derives both keys from the ISO 8859-1 octets; passwords with characters from U+00A0..U+00FF are part of the handshake cases and both derivations are compared with the reference. "
    "Judged: byte equality with the reference, identity of the round trip, refusal of every changed frame / key / session id. "
    "'Refused' means: the frame does not come out of decrypt_frame (CouldNotParseKNXIP family from parsing or validation, or it "
    "is no longer a SecureWrapper at all); other exception types on tampered input are recorded, not judged. Not judged: inner "
    "services that the layer refuses on purpose (nested wrapper, remote diagnosis/configuration), payloads above 4080 octets, passwords with characters above U+00FF, a session without device authentication code (SessionResponse MAC is then not checked by design)."
)
SHARDS = {"quick": 1, "thorough": 8}
TIMEOUT = {"quick": 120, "thorough": 1200}

FIELDS = (("header", 0, 6), ("session-id", 6, 8), ("sequence", 8, 14), ("serial", 14, 20), ("tag", 20, 22))


def field_of(offset: int, total: int) -> str:
    for name, a, b in FIELDS:
        if a <= offset < b:
            return name
    return "mac" if offset >= total - 16 else "ciphertext"


class Layer(_IPSecureTransportLayer):
    """Minimal concrete transport layer: the public abstract API, nothing else."""

    __slots__ = ("_key", "seq", "session_id", "tag")

    def __init__(self, key: bytes, session_id: int, seq: bytes, tag: bytes) -> None:
        self._key = key
        self.session_id = session_id
        self.seq = seq
        self.tag = tag

    def get_sequence_information(self) -> bytes:
        return self.seq

    def get_message_tag(self) -> bytes:
        return self.tag


@contextlib.contextmanager
def serial_number(serial: bytes):
    saved = ip_secure.XKNX_SERIAL_NUMBER
    ip_secure.XKNX_SERIAL_NUMBER = serial
    try:
        yield
    finally:
        ip_secure.XKNX_SERIAL_NUMBER = saved


def receive(layer: Layer, raw: bytes):
    """The receive pipeline: parse, then decrypt_frame.  -> (accepted?, detail, frame)."""
    try:
        frame, _rest = KNXIPFrame.from_knx(raw)
    except CouldNotParseKNXIP as exc:
        return False, "parse:" + type(exc).__name__, None
    except Exception as exc:  # noqa: BLE001 - plain parser robustness is C20's business
        return False, "parse-unexpected:" + type(exc).__name__, None
    if not isinstance(frame.body, SecureWrapper):
        return False, "not-a-wrapper", None
    try:
        inner = layer.decrypt_frame(frame)
    except KNXSecureValidationError:
        return False, "validation", None
    except CouldNotParseKNXIP:
        return False, "inner-parse", None
    except Exception as exc:  # noqa: BLE001
        return False, "decrypt-unexpected:" + type(exc).__name__, None
    return True, "accepted", inner


def case_dict(key, sid, seq, serial, tag, plain, name):
    return {"part": "wrap", "key": key, "session_id": sid, "sequence": seq, "serial": serial, "tag": tag, "plain": plain, "body": name}


def wrap_case(ctx, key, sid, seq, serial, tag, plain_frame, plain, name, flips):
    """One wrapper: conformance, round trip, reference-made wrapper, (optionally) the whole flip neighbourhood."""
    w = case_dict(key, sid, seq, serial, tag, plain, name)
    ctx.ev()
    layer = Layer(key, sid, seq, tag)
    with serial_number(serial):
        wire = layer.encrypt_frame(plain_frame).to_knx()
    expect = ref.wrap(key, sid, seq, serial, tag, plain)
    ctx.count("wrappers_compared_with_reference")
    if wire != expect:
        part = "length"
        if len(wire) == len(expect):
            part = next(field_of(i, len(wire)) for i in range(len(wire)) if wire[i] != expect[i])
        ctx.violation(
            f"wrapper-bytes-differ-from-reference-{part}",
            dict(w, wire=wire, reference=expect),
            f"encrypt_frame({name}, {len(plain)} octets) differs from the reference CCM in the {part}",
        )
    inner_service = ref.service_of(plain)
    forbidden = any(inner_service == s.value for s in FORBIDDEN_WRAPPED_SERVICES)
    ok, detail, inner = receive(layer, wire)
    if forbidden:
        ctx.count("forbidden_inner_service_refused" if not ok else "forbidden_inner_service_accepted")
        return wire
    ctx.count("roundtrips")
    if not ok or inner.to_knx() != plain or type(inner.body) is not type(plain_frame.body):
        ctx.violation(
            "roundtrip-not-identical",
            dict(w, outcome=detail, got=None if inner is None else inner.to_knx()),
            f"decrypt_frame(encrypt_frame({name})) -> {detail}, not the identical frame",
        )
    # a wrapper produced by the reference with a foreign serial number must unwrap
    foreign = bytes(b ^ 0x5A for b in serial)
    ok, detail, inner = receive(layer, ref.wrap(key, sid, seq, foreign, tag, plain))
    ctx.count("reference_wrappers_unwrapped")
    if not ok or inner.to_knx() != plain:
        ctx.violation(
            "reference-wrapper-refused",
            dict(w, foreign_serial=foreign, outcome=detail),
            f"a wrapper built by the reference (serial {foreign.hex()}) is not unwrapped to the plain frame: {detail}",
        )
    ctx.distinct(("wrap", name, len(plain) % 16, len(plain) // 16))
    if flips:
        flip_neighbourhood(ctx, w, layer, wire)
    return wire


def flip_neighbourhood(ctx, w, layer, wire):
    """Every single-bit change of the frame, of the key and of the receiver's session id."""
    total = len(wire)
    for bit in range(total * 8):
        ctx.ev()
        mutated = bytearray(wire)
        mutated[bit // 8] ^= 0x80 >> (bit % 8)
        ok, detail, _ = receive(layer, bytes(mutated))
        fld = field_of(bit // 8, total)
        ctx.count("bitflips_" + fld)
        if detail.startswith(("parse-unexpected", "decrypt-unexpected")):
            ctx.count("tampered_refused_by_unexpected_exception")
        ctx.distinct(("flip", fld, detail))
        if ok:
            ctx.violation(
                f"tampered-wrapper-accepted-{fld}",
                dict(w, wire=wire, bit=bit),
                f"wrapper with bit {bit} ({fld}) flipped is accepted",
            )
    key = w["key"]
    for bit in range(128):
        ctx.ev()
        other = bytearray(key)
        other[bit // 8] ^= 0x80 >> (bit % 8)
        ok, _, _ = receive(Layer(bytes(other), layer.session_id, layer.seq, layer.tag), wire)
        ctx.count("keyflips")
        if ok:
            ctx.violation("wrong-key-accepted", dict(w, wire=wire, key_bit=bit), f"wrapper accepted under a key differing in bit {bit}")
    for bit in range(16):
        ctx.ev()
        ok, _, _ = receive(Layer(key, layer.session_id ^ (1 << bit), layer.seq, layer.tag), wire)
        ctx.count("session_id_flips")
        if ok:
            ctx.violation("wrong-session-id-accepted", dict(w, wire=wire, sid_bit=bit), f"wrapper accepted by a layer whose session id differs in bit {bit}")
    ctx.count("flip_neighbourhoods_completed")


def object_mutations(rng):
    """(field name, fn(frame)) - one change to a parsed SecureWrapper frame OBJECT, everything else untouched."""
    from xknx.knxip import KNXIPServiceType as S

    def flip(b, r=rng):
        i = r.randrange(len(b))
        return b[:i] + bytes((b[i] ^ (1 << r.randrange(8)),)) + b[i + 1 :]

    out = []
    for delta in (1, -1, 16, -16, 2, -6):
        out.append(("header-total-length", lambda f, d=delta: setattr(f.header, "total_length", max(0, f.header.total_length + d))))
    for value in (0, 6, 38, 65535):
        out.append(("header-total-length", lambda f, v=value: setattr(f.header, "total_length", v)))
    for svc in (S.ROUTING_INDICATION, S.TIMER_NOTIFY, S.SESSION_STATUS, S.TUNNELLING_REQUEST, S.SESSION_REQUEST, S.SEARCH_REQUEST):
        out.append(("header-service-type", lambda f, v=svc: setattr(f.header, "service_type_ident", v)))
    out.append(("session-id", lambda f: setattr(f.body, "secure_session_id", f.body.secure_session_id ^ (1 << rng.randrange(16)))))
    out.append(("sequence", lambda f: setattr(f.body, "sequence_information", flip(f.body.sequence_information))))
    out.append(("serial", lambda f: setattr(f.body, "serial_number", flip(f.body.serial_number))))
    out.append(("tag", lambda f: setattr(f.body, "message_tag", flip(f.body.message_tag))))
    out.append(("ciphertext", lambda f: setattr(f.body, "encrypted_data", flip(f.body.encrypted_data))))
    out.append(("ciphertext-shortened", lambda f: setattr(f.body, "encrypted_data", f.body.encrypted_data[:-1])))
    out.append(("ciphertext-extended", lambda f: setattr(f.body, "encrypted_data", f.body.encrypted_data + b"\x00")))
    out.append(("mac", lambda f: setattr(f.body, "message_authentication_code", flip(f.body.message_authentication_code))))
    return out


def object_tamper(ctx, rng, w, layer, wire):
    """Tampering on the frame object (not on octets that are re-parsed): the MAC covers the header as received."""
    for fld, mutate in object_mutations(rng):
        ctx.ev()
        frame, _ = KNXIPFrame.from_knx(wire)
        before = (frame.header.to_knx(), frame.body.to_knx())
        mutate(frame)
        try:
            if (frame.header.to_knx(), frame.body.to_knx()) == before:
                continue
        except Exception:  # noqa: BLE001
            pass
        try:
            layer.decrypt_frame(frame)
        except (KNXSecureValidationError, CouldNotParseKNXIP):
            ctx.count("object_tamper_refused_" + fld)
        except Exception:  # noqa: BLE001 - refused all the same
            ctx.count("object_tamper_refused_by_other_exception")
        else:
            ctx.violation(
                f"tampered-wrapper-object-accepted-{fld}", dict(w, wire=wire, changed=fld, header=frame.header.to_knx(), body=frame.body.to_knx()),
                f"a SecureWrapper frame object whose {fld} alone was changed is accepted by decrypt_frame",
            )
        ctx.distinct(("object-tamper", fld))


def transport_object_tamper(ctx, rng, what, transport, wire, calls, reset):
    """The same through handle_knxipframe of a real transport: the tampered object must not reach the callbacks."""
    from xknx.knxip import HPAI

    src = HPAI("10.0.0.9", 3671)
    reset()
    frame, _ = KNXIPFrame.from_knx(wire)
    n = len(calls)
    transport.handle_knxipframe(frame, src)
    if len(calls) != n + 1:
        ctx.count(f"untampered_object_not_forwarded_by_{what}")
        return
    ctx.count(f"untampered_object_forwarded_by_{what}")
    for fld, mutate in object_mutations(rng):
        ctx.ev()
        reset()
        frame, _ = KNXIPFrame.from_knx(wire)
        mutate(frame)
        if not isinstance(frame.body, SecureWrapper):
            continue
        n = len(calls)
        try:
            transport.handle_knxipframe(frame, src)
        except Exception:  # noqa: BLE001 - refused
            ctx.count("object_tamper_refused_by_other_exception")
        if len(calls) != n:
            ctx.violation(
                f"tampered-wrapper-object-forwarded-by-{what}-{fld}", {"part": "real-transport", "transport": what, "wire": wire, "changed": fld, "header": frame.header.to_knx()},
                f"{what}.handle_knxipframe passed on a SecureWrapper frame object whose {fld} alone was changed",
            )
        else:
            ctx.count(f"object_tamper_not_forwarded_by_{what}")


def field_replacements(ctx, rng, w, layer, wire):
    """Whole-field changes (multi-bit), one per field."""
    total = len(wire)
    spans = [*FIELDS, ("ciphertext", 22, total - 16), ("mac", total - 16, total)]
    for fld, a, b in spans:
        if b <= a:
            continue
        ctx.ev()
        new = rng.randbytes(b - a)
        if new == wire[a:b]:
            continue
        ok, detail, _ = receive(layer, wire[:a] + new + wire[b:])
        ctx.count("field_replacements")
        ctx.distinct(("replace", fld, detail))
        if ok:
            ctx.violation(
                f"tampered-wrapper-accepted-{fld}",
                dict(w, wire=wire, replaced=fld, new=new),
                f"wrapper with a different {fld} is accepted",
            )
    ctx.ev()
    ok, _, _ = receive(Layer(rng.randbytes(16), layer.session_id, layer.seq, layer.tag), wire)
    ctx.count("random_other_keys")
    if ok:
        ctx.violation("wrong-key-accepted", dict(w, wire=wire), "wrapper accepted under an unrelated key")


def part_wrap(ctx):
    rng = ctx.rng
    names = all_body_class_names()
    per_class = ctx.scale(8, 50)
    flip_budget = ctx.scale(50, 2000)
    flips_done = 0
    idx = 0
    for rnd in range(per_class):
        for name in names:
            idx += 1
            if not ctx.mine(idx):
                continue
            made = random_plain_frame(rng, name)
            if made is None:
                ctx.count("draws_skipped_plain_codec_not_stable")
                continue
            frame, plain = made
            key = rng.randbytes(16)
            sid = rng.choice((0, 1, 0xFFFF, rng.randrange(65536)))
            seq = rng.choice((bytes(6), b"\xff" * 6, rng.randbytes(6), rng.randrange(1 << 20).to_bytes(6, "big")))
            serial = rng.choice((ip_secure.XKNX_SERIAL_NUMBER, rng.randbytes(6)))
            tag = rng.choice((b"\x00\x00", rng.randbytes(2)))
            do_flips = flips_done * ctx.nshards < flip_budget and len(plain) <= 64 and (rnd % 2 == 0 or name in ("RoutingIndication", "TunnellingRequest"))
            wire = wrap_case(ctx, key, sid, seq, serial, tag, frame, plain, name, do_flips)
            if do_flips:
                flips_done += 1
            if not any(ref.service_of(plain) == s.value for s in FORBIDDEN_WRAPPED_SERVICES):
                field_replacements(ctx, rng, case_dict(key, sid, seq, serial, tag, plain, name), Layer(key, sid, seq, tag), wire)
                object_tamper(ctx, rng, case_dict(key, sid, seq, serial, tag, plain, name), Layer(key, sid, seq, tag), wire)
            if idx <= 3:
                ctx.sample({"body": name, "plain": plain, "key": key, "session_id": sid, "sequence": seq, "serial": serial, "tag": tag, "wire": wire})
    # every payload length residue mod 16 and several block counts
    from xknx.knxip import RoutingIndication

    for n in range(0, ctx.scale(70, 600)):
        idx += 1
        if not ctx.mine(idx):
            continue
        frame = KNXIPFrame.init_from_body(RoutingIndication(raw_cemi=rng.randbytes(n)))
        wrap_case(ctx, rng.randbytes(16), rng.randrange(65536), rng.randbytes(6), rng.randbytes(6), rng.randbytes(2), frame, frame.to_knx(), "RoutingIndication", False)
    for n in ctx.scale((1000, 4074), (1000, 2000, 3000, 4073, 4074)):
        idx += 1
        if not ctx.mine(idx):
            continue
        frame = KNXIPFrame.init_from_body(RoutingIndication(raw_cemi=rng.randbytes(n)))
        wrap_case(ctx, rng.randbytes(16), rng.randrange(65536), rng.randbytes(6), rng.randbytes(6), rng.randbytes(2), frame, frame.to_knx(), "RoutingIndication", False)


# --------------------------------------------------------------------------
# the two real transports (their own sequence / tag sources, nothing pinned)
# --------------------------------------------------------------------------
def real_wrapper_case(ctx, what, key, sid, wire, plain, name, extra):
    """A wrapper produced by a real transport, judged by the reference on the fields the wrapper itself carries."""
    ctx.ev()
    w = dict(extra, part="real-transport", transport=what, key=key, session_id=sid, plain=plain, body=name, wire=wire)
    try:
        fields, inner = ref.unwrap(key, wire, sid)
    except ref.RefError as exc:
        ctx.violation(
            f"{what}-wrapper-not-verified-by-reference", dict(w, reference_error=str(exc)),
            f"a wrapper produced by {what} does not verify under the reference with the sequence/serial/tag it carries ({exc})",
        )
        return None
    if inner != plain:
        ctx.violation(f"{what}-wrapper-decrypts-to-other-frame", dict(w, inner=inner), f"a wrapper produced by {what} decrypts (reference) to a different frame")
    expect = ref.wrap(key, sid, fields.sequence, fields.serial, fields.tag, plain)
    if expect != wire:
        ctx.violation(f"{what}-wrapper-bytes-differ-from-reference", dict(w, reference=expect), f"a wrapper produced by {what} differs from the reference built from its own fields")
    ctx.count(f"real_{what}_wrappers_verified")
    return fields


def part_real_transports(ctx):
    from xknx.io.ip_secure import SecureGroup

    rng = ctx.rng
    names = [n for n in all_body_class_names() if n not in ("SecureWrapper",)]
    n_groups = ctx.scale(6, 40)
    per = ctx.scale(25, 60)
    loop = new_loop()

    async def main():
        for g in range(n_groups):
            if not ctx.mine(g):
                continue
            key = rng.randbytes(16)
            sender = SecureGroup(local_addr=("10.0.0.1", 0), remote_addr=("224.0.23.12", 3671), backbone_key=key, latency_ms=1000)
            receiver = SecureGroup(local_addr=("10.0.0.2", 0), remote_addr=("224.0.23.12", 3671), backbone_key=key, latency_ms=1000)
            sender.secure_timer.update(rng.choice((0, rng.randrange(1 << 40))))
            group_calls = []
            receiver.register_callback(lambda f, src, t, c=group_calls: c.append(1))
            tags = set()
            for i in range(per):
                made = random_plain_frame(rng, rng.choice(names))
                if made is None:
                    continue
                frame, plain = made
                wire = sender.encrypt_frame(frame).to_knx()  # tag: random.randbytes per call, timer: the real SecureSequenceTimer
                fields = real_wrapper_case(ctx, "secure-group", key, 0, wire, plain, type(frame.body).__name__, {"index": i})
                if fields is not None:
                    tags.add(fields.tag)
                # a second group member with the same backbone key must unwrap it
                ctx.ev()
                ok, detail, inner = receive(receiver, wire)
                if any(ref.service_of(plain) == sv.value for sv in FORBIDDEN_WRAPPED_SERVICES):
                    continue
                if not ok or inner.to_knx() != plain:
                    ctx.violation(
                        "secure-group-wrapper-refused-by-peer-with-same-key", {"part": "real-transport", "key": key, "wire": wire, "plain": plain, "outcome": detail},
                        f"a SecureGroup with the same backbone key does not unwrap the frame another SecureGroup wrapped: {detail}",
                    )
                else:
                    ctx.count("real_secure-group_peer_roundtrips")
                if i % 5 == 0:
                    calls = group_calls

                    def reset_group():
                        receiver.secure_timer.timer_authenticated = True
                        receiver.secure_timer.update(sender.secure_timer.current_timer_value())  # same group time: the wrapper is timely

                    transport_object_tamper(ctx, rng, "secure-group", receiver, wire, calls, reset_group)
                if g == 0 and i == 0:
                    ctx.sample({"secure_group_wrapper": wire, "key": key, "plain": plain})
            if len(tags) > 1:
                ctx.count("secure_group_runs_with_varying_tags")
            ctx.distinct(("real-group", len(tags) > 1, g % 7))
            sender.secure_timer.stop()
            receiver.secure_timer.stop()

    loop.run(main())
    loop.finish()
    # the unicast session: key from a real handshake (no device authentication -> no PBKDF2 for the response), own counter
    if ctx.shard != 0:
        return
    import xknx.io.ip_secure as mod

    saved = mod.derive_user_password
    mod.derive_user_password = lambda pw: ref.user_password_key(pw)  # pure function, memoised by the reference (keeps the PBKDF2 budget)
    try:
        session = SecureSession(remote_addr=("10.0.0.2", 3671), user_id=2, user_password="secret")
    finally:
        mod.derive_user_password = saved
    session_calls = []
    session.register_callback(lambda f, src, t: session_calls.append(1))
    for h in range(ctx.scale(4, 20)):
        cpriv = ref.x25519_private(rng.randbytes(32))
        spriv = ref.x25519_private(rng.randbytes(32))
        sid = rng.randrange(1, 65536)
        session._private_key, session.public_key = cpriv, ref.x25519_public_bytes(cpriv)
        spub = ref.x25519_public_bytes(spriv)
        session.handshake(SessionResponse(secure_session_id=sid, ecdh_server_public_key=spub, message_authentication_code=bytes(16)))
        skey = ref.session_key(spriv, session.public_key)
        session._sequence_number = rng.choice((0, 0, rng.randrange(1 << 30)))
        prev = None
        for i in range(ctx.scale(20, 40)):
            made = random_plain_frame(rng, rng.choice(names))
            if made is None:
                continue
            frame, plain = made
            wire = session.encrypt_frame(frame).to_knx()
            fields = real_wrapper_case(ctx, "secure-session", skey, sid, wire, plain, type(frame.body).__name__, {"index": i})
            if i % 5 == 0 and not any(ref.service_of(plain) == sv.value for sv in FORBIDDEN_WRAPPED_SERVICES):
                def reset_session():
                    session.initialized = True
                    session._sequence_number_received = -1

                transport_object_tamper(ctx, rng, "secure-session", session, wire, session_calls, reset_session)
                session.initialized = False
            if fields is not None:
                if prev is not None and fields.seq_int <= prev:
                    ctx.violation("secure-session-wrapper-sequence-not-increasing", {"part": "real-transport", "previous": prev, "this": fields.seq_int}, "consecutive wrappers of a session do not carry increasing sequence numbers")
                prev = fields.seq_int
        ctx.distinct(("real-session", h % 5))


# --------------------------------------------------------------------------
# handshake
# --------------------------------------------------------------------------
PRINTABLE = "".join(chr(c) for c in range(0x20, 0x7F))


LATIN1_HIGH = "".join(chr(c) for c in range(0xA0, 0x100))


def password(rng, high=False):
    """ETS passwords are ISO 8859-1 strings; `high` forces characters from U+00A0..U+00FF."""
    n = rng.choice((1, 5, 8, 13, 20))
    chars = [rng.choice(PRINTABLE) for _ in range(n)]
    if high:
        for i in rng.sample(range(n), max(1, n // 2)):
            chars[i] = rng.choice(LATIN1_HIGH)
    return "".join(chars)


def handshake_case(ctx, session, user_id, user_key, dev_key, sid, client_raw, server_raw, full):
    w = {"part": "handshake", "user_id": user_id, "session_id": sid, "client_private": client_raw, "server_private": server_raw}
    ctx.ev()
    cpriv = ref.x25519_private(client_raw)
    cpub = ref.x25519_public_bytes(cpriv)
    spriv = ref.x25519_private(server_raw)
    spub = ref.x25519_public_bytes(spriv)
    session._private_key = cpriv
    session.public_key = cpub
    good = SessionResponse(secure_session_id=sid, ecdh_server_public_key=spub, message_authentication_code=ref.session_response_mac(dev_key, sid, cpub, spub))
    try:
        mac = session.handshake(good)
    except Exception as exc:  # noqa: BLE001
        ctx.violation("genuine-session-response-refused", dict(w, exception=repr(exc)), f"handshake refused a SessionResponse whose MAC the reference computed: {exc!r}")
        return
    ctx.count("handshakes")
    expect = ref.session_authenticate_mac(user_key, user_id, cpub, spub)
    if mac != expect:
        ctx.violation("session-authenticate-mac-differs-from-reference", dict(w, got=mac, reference=expect), "SessionAuthenticate MAC differs from the reference")
    # session key, observed through what the session now encrypts (server-side derivation of the key)
    session.initialized = True
    session._sequence_number = 0
    probe = KNXIPFrame.init_from_body(SessionStatus())
    wire = session.encrypt_frame(probe).to_knx()
    session.initialized = False
    skey = ref.session_key(spriv, cpub)
    ctx.count("session_keys_compared")
    if not ref.is_valid_wrapper(skey, wire, sid):
        ctx.violation("session-key-differs-from-reference", dict(w, wire=wire), "a frame wrapped after the handshake does not verify under SHA-256(X25519)[:16] derived on the server side")
    ctx.distinct(("handshake", user_id, sid & 0xFF, len(ctx._distinct) % 1000))
    if not full:
        return
    raw = good.to_knx()  # session id (2) | server public key (32) | MAC (16)
    for bit in range(len(raw) * 8):
        ctx.ev()
        mutated = bytearray(raw)
        mutated[bit // 8] ^= 0x80 >> (bit % 8)
        fld = "session-id" if bit < 16 else "server-public-key" if bit < 16 + 256 else "mac"
        forged = SessionResponse()
        forged.from_knx(bytes(mutated))
        session._private_key = cpriv
        session.public_key = cpub
        try:
            session.handshake(forged)
        except IPSecureError:
            ctx.count("forged_session_response_refused_" + fld)
        except Exception:  # noqa: BLE001 - refused all the same (e.g. a degenerate public key)
            ctx.count("forged_session_response_refused_by_other_exception")
        else:
            ctx.violation(f"forged-session-response-accepted-{fld}", dict(w, bit=bit, response=bytes(mutated)), f"SessionResponse with bit {bit} ({fld}) flipped passes the handshake")
    ctx.count("session_response_flip_neighbourhoods")


@contextlib.contextmanager
def pinned_keypair(raw: bytes):
    saved = ip_secure.generate_ecdh_key_pair
    priv = ref.x25519_private(raw)
    ip_secure.generate_ecdh_key_pair = lambda: (priv, ref.x25519_public_bytes(priv))
    try:
        yield
    finally:
        ip_secure.generate_ecdh_key_pair = saved


def wire_connect_case(ctx, session, user_id, user_pw, dev_pw, client_raw, server_raw, sid):
    """SecureSession.connect() on the virtual loop: octets on the wire vs the reference."""
    w = {"part": "connect", "user_id": user_id, "user_password": user_pw, "device_password": dev_pw, "client_private": client_raw, "server_private": server_raw, "session_id": sid}
    ctx.ev()
    loop = new_loop()
    srv = SecureServer(loop, server_private_raw=server_raw, device_password=dev_pw, users={user_id: user_pw}, session_id=sid, auto_tunnel=False)
    loop.on_connection = srv.attach

    async def main():
        await session.connect()
        session.stop()

    try:
        with pinned_keypair(client_raw):
            loop.run(main(), max_vtime=60)
    except (Deadlock, LoopBudget, Exception) as exc:  # noqa: BLE001
        ctx.violation("connect-against-reference-server-fails", dict(w, exception=repr(exc)), f"SecureSession.connect() against a server built on the reference fails: {exc!r}")
        loop.finish()
        return
    loop.finish()
    ctx.count("wire_connects")
    cpub = ref.x25519_public_bytes(ref.x25519_private(client_raw))
    auth = next((r for r in srv.received if r.kind == "wrapper"), None)
    skey = ref.session_key(srv.private, cpub)
    expect = ref.wrap(skey, sid, 0, ip_secure.XKNX_SERIAL_NUMBER, b"\x00\x00", ref.session_authenticate(ref.user_password_key(user_pw), user_id, cpub, srv.public))
    if auth is None or auth.raw != expect:
        ctx.violation("wrapped-session-authenticate-differs-from-reference", dict(w, wire=None if auth is None else auth.raw, reference=expect), "the wrapped SessionAuthenticate on the wire is not the reference's")
    ctx.distinct(("connect", user_id, sid & 0xFF))


def part_handshake(ctx):
    if ctx.shard != 0:
        return
    rng = ctx.rng
    pairs = ctx.scale(4, 9)
    per_pair = ctx.scale(5, 20)
    for p in range(pairs):
        # pair 0: printable ASCII; pair 1: one ISO 8859-1 string used for both derivations; others: ISO 8859-1 / mixed
        high = p % 4 != 0
        user_pw = password(rng, high)
        dev_pw = user_pw if p % 4 == 1 else password(rng, high and p % 4 != 3)
        user_id = rng.choice((1, 2, 3, 0x7F, rng.randrange(1, 128)))
        session = SecureSession(remote_addr=("10.0.0.2", 3671), user_id=user_id, user_password=user_pw, device_authentication_password=dev_pw)
        ctx.count("pbkdf2_derivations_by_xknx", 2)
        user_key = ref.user_password_key(user_pw)
        dev_key = ref.device_authentication_key(dev_pw)
        # both derivations against the reference (PBKDF2-HMAC-SHA256 over the ISO 8859-1 octets of the password, the two KNX salts)
        for what, got, want, pw in (("user-password", session._user_password, user_key, user_pw), ("device-authentication", session._device_authentication_code, dev_key, dev_pw)):
            ctx.ev()
            kind = "latin1" if any(ord(c) > 0x7F for c in pw) else "ascii"
            ctx.count(f"key_derivations_compared_{kind}")
            if got != want:
                ctx.violation(
                    f"{what}-key-differs-from-reference-{kind}-password", {"part": "key-derivation", "which": what, "password": pw, "got": got, "reference": want},
                    f"the {what} key derived from a {kind} password differs from PBKDF2 over its ISO 8859-1 octets",
                )
        if dev_pw == user_pw:
            ctx.count("same_string_through_both_derivations")
        for h in range(per_pair):
            sid = rng.choice((1, 2, 0xFFFF, rng.randrange(1, 65536)))
            handshake_case(ctx, session, user_id, user_key, dev_key, sid, rng.randbytes(32), rng.randbytes(32), full=h < ctx.scale(1, 3))
        # a server that does not know the device authentication code
        ctx.ev()
        cpriv = ref.x25519_private(rng.randbytes(32))
        spub = ref.x25519_public_bytes(ref.x25519_private(rng.randbytes(32)))
        session._private_key, session.public_key = cpriv, ref.x25519_public_bytes(cpriv)
        wrong = SessionResponse(secure_session_id=5, ecdh_server_public_key=spub, message_authentication_code=ref.session_response_mac(rng.randbytes(16), 5, session.public_key, spub))
        try:
            session.handshake(wrong)
        except IPSecureError:
            ctx.count("session_response_under_other_device_key_refused")
        else:
            ctx.violation("forged-session-response-accepted-other-device-key", {"part": "handshake-other-device-key", "user_id": user_id}, "SessionResponse authenticated with a different device authentication code passes")
        wire_connect_case(ctx, session, user_id, user_pw, dev_pw, rng.randbytes(32), rng.randbytes(32), rng.randrange(1, 65536))
        if p == 0:
            ctx.sample({"handshake": {"user_id": user_id, "user_password": user_pw, "device_password": dev_pw, "user_key": user_key, "device_key": dev_key}})
    ctx.count("pbkdf2_derivations_by_reference", ref.pbkdf2_derivations)
    ctx.extra["pbkdf2_derivations_total"] = ref.pbkdf2_derivations + ctx.counters.get("pbkdf2_derivations_by_xknx", 0)


# --------------------------------------------------------------------------
# timer notify
# --------------------------------------------------------------------------
def part_timer_notify(ctx):
    rng = ctx.rng
    loop = new_loop()
    n_cases = ctx.scale(40, 4000)

    async def main():
        for i in range(n_cases):
            if not ctx.mine(i):
                continue
            key = rng.randbytes(16)
            sent = []
            timer = SecureSequenceTimer(backbone_key=key, latency_ms=rng.choice((100, 1000, 3000)), transport_send=lambda f, a: sent.append(f))
            timer.update(rng.choice((0, 1, rng.randrange(1 << 40), (1 << 48) - 1)))
            serial = rng.choice((ip_secure.XKNX_SERIAL_NUMBER, rng.randbytes(6)))
            tag = rng.choice((None, rng.randbytes(2), b"\x00\x01"))
            w = {"part": "timer-notify", "key": key, "serial": serial, "tag": tag}
            ctx.ev()
            local = timer.current_timer_value()
            timer.send_timer_notify(message_tag=tag, serial_number=serial)
            raw = sent[0].to_knx()
            body = sent[0].body
            expect = ref.timer_notify(key, body.timer_value, serial, body.message_tag)
            ctx.count("timer_notifies_compared_with_reference")
            if raw != expect or body.timer_value != local or (tag is not None and body.message_tag != tag):
                ctx.violation("timer-notify-differs-from-reference", dict(w, wire=raw, reference=expect, local_timer=local), "TimerNotify sent by send_timer_notify differs from the reference (MAC / timer value / tag)")
            # reference-made notifies with arbitrary fields must verify, every bit flip must not
            t2, s2, g2 = rng.randrange(1 << 48), rng.randbytes(6), rng.randbytes(2)
            good = ref.timer_notify(key, t2, s2, g2)
            w2 = dict(w, frame=good)
            ctx.ev()
            if not verify(timer, good)[0]:
                ctx.violation("genuine-timer-notify-refused", w2, "verify_timer_notify_mac refuses a TimerNotify built by the reference")
            ctx.count("reference_timer_notifies_verified")
            if i % ctx.scale(2, 4) == 0:
                for bit in range(len(good) * 8):
                    ctx.ev()
                    mutated = bytearray(good)
                    mutated[bit // 8] ^= 0x80 >> (bit % 8)
                    off = bit // 8
                    fld = "header" if off < 6 else "timer" if off < 12 else "serial" if off < 18 else "tag" if off < 20 else "mac"
                    ok, detail = verify(timer, bytes(mutated))
                    ctx.count("timer_notify_bitflips_" + fld)
                    ctx.distinct(("tn-flip", fld, detail))
                    if ok:
                        ctx.violation(f"tampered-timer-notify-accepted-{fld}", dict(w2, bit=bit), f"TimerNotify with bit {bit} ({fld}) flipped verifies")
                ctx.count("timer_notify_flip_neighbourhoods")
                other = SecureSequenceTimer(backbone_key=rng.randbytes(16), latency_ms=1000, transport_send=lambda f, a: None)
                if verify(other, good)[0]:
                    ctx.violation("timer-notify-wrong-key-accepted", w2, "TimerNotify verifies under an unrelated backbone key")
            if i < 2:
                ctx.sample({"timer_notify": raw, "key": key})
            ctx.distinct(("tn", tag is None, serial == ip_secure.XKNX_SERIAL_NUMBER))

    loop.run(main())
    loop.finish()


def verify(timer, raw):
    try:
        frame, _ = KNXIPFrame.from_knx(raw)
    except CouldNotParseKNXIP as exc:
        return False, "parse:" + type(exc).__name__
    except Exception as exc:  # noqa: BLE001
        return False, "parse-unexpected:" + type(exc).__name__
    if not isinstance(frame.body, TimerNotify):
        return False, "not-a-timer-notify"
    try:
        timer.verify_timer_notify_mac(frame.body)
    except KNXSecureValidationError:
        return False, "validation"
    return True, "accepted"


def oracle_ok(ctx) -> bool:
    bad = ref.self_test()
    if bad:
        ctx.inconclusive("reference CCM fails recorded vectors: " + ", ".join(bad))
        return False
    ctx.count("oracle_selftest_passed")
    return True


def run(ctx):
    ctx.rule = (
        "wrap: 29 body classes x random field values x random key/session id/sequence/serial/tag, plus RoutingIndication payloads of every "
        "length 0..N; distinct = (body class, payload length mod 16, blocks), (flipped field, refusal path); handshake: password pairs x X25519 pairs; "
        "timer notify: random keys/timers/serials/tags; flips: every bit of the frame, key, receiver session id"
    )
    if not oracle_ok(ctx):
        return
    ctx.require(
        "wrappers_compared_with_reference", "roundtrips", "reference_wrappers_unwrapped", "flip_neighbourhoods_completed",
        "bitflips_header", "bitflips_session-id", "bitflips_sequence", "bitflips_serial", "bitflips_tag", "bitflips_ciphertext", "bitflips_mac",
        "keyflips", "session_id_flips", "timer_notifies_compared_with_reference", "timer_notify_flip_neighbourhoods",
        "real_secure-group_wrappers_verified", "real_secure-group_peer_roundtrips", "secure_group_runs_with_varying_tags",
        "object_tamper_refused_header-total-length", "object_tamper_refused_header-service-type", "object_tamper_refused_mac", "object_tamper_refused_ciphertext-extended",
        "untampered_object_forwarded_by_secure-group", "object_tamper_not_forwarded_by_secure-group",
    )
    if ctx.shard == 0:
        ctx.require("untampered_object_forwarded_by_secure-session", "object_tamper_not_forwarded_by_secure-session", "key_derivations_compared_latin1", "key_derivations_compared_ascii", "same_string_through_both_derivations", "real_secure-session_wrappers_verified", "handshakes", "session_keys_compared", "session_response_flip_neighbourhoods", "wire_connects", "forged_session_response_refused_mac")
    part_wrap(ctx)
    part_real_transports(ctx)
    part_handshake(ctx)
    part_timer_notify(ctx)
    ctx.exhaustive = False
    ctx.extra["exhaustive_part"] = "per sampled wrapper / SessionResponse / TimerNotify: all single-bit flips (frame, key, session id)"


def replay(ctx, witness):
    if not oracle_ok(ctx):
        return
    h = lambda v: bytes.fromhex(v[4:]) if isinstance(v, str) and v.startswith("hex:") else v  # noqa: E731
    part = witness.get("part")
    if part == "wrap":
        plain = h(witness["plain"])
        frame, _ = KNXIPFrame.from_knx(plain)
        wrap_case(ctx, h(witness["key"]), witness["session_id"], h(witness["sequence"]), h(witness["serial"]), h(witness["tag"]), frame, plain, witness["body"], True)
    elif part == "handshake":
        # passwords are not part of the witness: replay with fixed keys through the same code path
        pw_u, pw_d = "replay-user", "replay-device"
        session = SecureSession(remote_addr=("10.0.0.2", 3671), user_id=witness["user_id"], user_password=pw_u, device_authentication_password=pw_d)
        handshake_case(ctx, session, witness["user_id"], ref.user_password_key(pw_u), ref.device_authentication_key(pw_d), witness["session_id"], h(witness["client_private"]), h(witness["server_private"]), True)
    elif part == "connect":
        session = SecureSession(remote_addr=("10.0.0.2", 3671), user_id=witness["user_id"], user_password=witness["user_password"], device_authentication_password=witness["device_password"])
        wire_connect_case(ctx, session, witness["user_id"], witness["user_password"], witness["device_password"], h(witness["client_private"]), h(witness["server_private"]), witness["session_id"])
    elif part == "real-transport":
        part_real_transports(ctx)
    else:
        random.seed(0)
        part_timer_notify(ctx)
    ctx.distinct("replay-a")
    ctx.distinct("replay-b")
