"""C14 received link frames reach exactly the right consumer once; sends complete only on a confirmation after hand-off."""

from __future__ import annotations

import asyncio
from contextlib import contextmanager
import random

from vlib import cemi_gen as G
from vlib.vloop import Deadlock, LoopBudget, new_loop
from xknx import XKNX
from xknx.cemi import CEMIFrame, CEMIMessageCode
from xknx.cemi.cemi_frame import CEMILData
from xknx.cemi.cemi_handler import REQUEST_TO_CONFIRMATION_TIMEOUT, CEMIHandler
from xknx.dpt import DPTArray, DPTBinary
from xknx.exceptions import CommunicationError, ConfirmationError
from xknx.management.management import Management
from xknx.secure.data_secure import DataSecure
from xknx.telegram import GroupAddress, IndividualAddress, Telegram, TelegramDirection
from xknx.telegram import tpci as T
from xknx.telegram.apci import GroupValueRead, GroupValueWrite, MemoryRead, SecureAPDU

LEVEL = "exploration"
TECHNIQUE = (
    "runtime monitor: event-log oracle over real XKNX / CEMIHandler / Management / TelegramQueue on the virtual-time loop with a "
    "recording fake interface; routing function and confirmation-after-hand-off rule written from the statement"
)
LEVEL_TEXT = (
    "Generated histories: 0-8 received raw cEMI frames (every message-code class, group / 0/0/0 / own / foreign individual destination, "
    "every legal TPCI kind, malformed frames) interleaved with 1-3 sends (direct CEMIHandler.send_telegram tasks and TelegramQueue "
    "outgoing telegrams; the fake interface's send_cemi returns at once, yields, or suspends 0.05-3.5 virtual seconds; its L_Data.con "
    "comes never / inside send_cemi like Routing / during the suspension / 0-5 s after it, incl. exactly at the 3 s timeout).  Each "
    "history is first run as baseline, then re-run once per event-loop iteration k of the baseline with one extra frame (L_Data.con, "
    "or L_Data.req / L_Data.ind / M_PropRead.con / garbage as non-confirmations) injected at iteration k exactly as a datagram callback "
    "would be (appended to the ready queue from select(); when the loop would have slept the clock advances by a fraction of the sleep).  "
    "Configuration is a dimension of every history: Data Secure absent / configured (DataSecure built from key and sender tables, as "
    "after loading a keyring; sends to keyed and unkeyed group addresses and point-to-point; received frames include valid secured "
    "frames from a second DataSecure instance and plain ones), xknx.current_address set / never set (0.0.0), telegram source address "
    "given / defaulted, rate limiter off / 20 per second, interface behaving like a tunnel (con after the ACK) or like Routing (con "
    "made inside send_cemi on the very frame object, whose code is rewritten).  "
    "Exploration: histories are sampled; for each sampled history the injection index is exhaustive over the baseline."
)
LEVEL_NOTE = (
    "Trusted: vloop.py, asyncio.  Observation points: xknx.knxip_interface (fake; hand-off = entry of send_cemi), xknx.telegrams "
    "(recording Queue subclass), class-level wrappers around Management.process and CEMIHandler.send_telegram (restored afterwards).  "
    "Frames are handed back through CEMIHandler.handle_raw_cemi, as KNXIPInterface.cemi_received does for Tunnel and Routing.  Judged: "
    "(1) sequence of telegrams the receive path queues == expected sequence (L_Data.ind + T_Data_Group to a non-zero group address, "
    "each once, with the right addresses/payload/direction); (2) sequence of Management.process calls == frames that are broadcast "
    "(T_Data_Broadcast to 0/0/0) or individually addressed to xknx.current_address, each once; L_Data.con / L_Data.req / M_* / "
    "unparsable frames reach neither; (3) a send that returns normally had an L_Data.con delivered with an event index after its own "
    "hand-off and before its return; a send for which an L_Data.con (whatever its confirm-error flag, priority, repeat or hop count) was "
    "delivered after its hand-off and more than 1 ms before hand-off-return + timeout must not fail with ConfirmationError, unless a "
    "concurrent send re-armed the event between that confirmation and the start of the wait (recorded); (4) a send with no such confirmation ends with ConfirmationError no later than "
    "REQUEST_TO_CONFIRMATION_TIMEOUT virtual seconds after send_cemi returned, and every send ends.  Recorded, not judged: "
    "T_Data_Tag_Group frames; ConfirmationError although a confirmation arrived after hand-off when it was wiped by a concurrent send's "
    "clear() before the wait began or raced the timeout within 1 ms; CommunicationError raised by the interface; dispatch of queued "
    "telegrams to telegram_received callbacks; plain frames to a group address that has a Data Secure key (discarded by Data Secure: C18)."
)
SHARDS = {"quick": 1, "thorough": 16}
TIMEOUT = {"quick": 200, "thorough": 2400}

OWN = (IndividualAddress("1.1.5"), IndividualAddress("15.15.250"), IndividualAddress("1.1.5"), IndividualAddress(0))  # 0.0.0 = never set
KEYED_GAS = (0x0A02, 0x0B03)  # group addresses with a Data Secure key when the history has Data Secure configured
DS_SENDERS = (0x1101, 0x1203)
SEND_SRC = 0x1109
EPS = 1e-6


# ---------------------------------------------------------------------------
# monitor
# ---------------------------------------------------------------------------


class Monitor:
    def __init__(self) -> None:
        self.log: list[tuple] = []
        self.sends: list[dict] = []
        self.current: dict | None = None
        self.harness_puts: set[int] = set()
        self.queued: list[Telegram] = []
        self.mgmt: list[Telegram] = []
        self.exp_queue: list[dict] = []
        self.exp_mgmt: list[dict] = []
        self.con_idx: list[int] = []
        self.con_t: dict[int, float] = {}
        self.cb_incoming = 0
        self.unjudged_tag_group = 0
        self.unjudged_plain_to_keyed = 0
        self.secured_handoffs = 0
        self.cons_with_error_flag = 0

    def ev(self, *item) -> int:
        self.log.append(item)
        return len(self.log) - 1


class RecordingQueue(asyncio.Queue):
    """xknx.telegrams: records what the receive path queues."""

    mon: Monitor

    def put_nowait(self, item):  # noqa: ANN001
        if item is not None and id(item) not in self.mon.harness_puts:
            self.mon.queued.append(item)
            self.mon.ev("queued", repr(item.destination_address))
        return super().put_nowait(item)


class FakeInterface:
    """Stands in for KNXIPInterface: records the hand-off, may suspend, scripts the gateway's L_Data.con."""

    def __init__(self, xknx: XKNX, mon: Monitor, script: list[dict]) -> None:
        self.xknx = xknx
        self.mon = mon
        self.script = script
        self.n = 0

    def cemi_received(self, raw: bytes) -> None:
        self.xknx.cemi_handler.handle_raw_cemi(raw)

    def deliver_con(self, raw: bytes, why: str) -> None:
        i = self.mon.ev("con", why)
        self.mon.con_idx.append(i)
        self.mon.con_t[i] = asyncio.get_running_loop().time()
        self.cemi_received(raw)

    async def send_cemi(self, cemi: CEMIFrame) -> None:
        mon = self.mon
        rec = mon.current
        loop = asyncio.get_running_loop()
        beh = self.script[self.n % len(self.script)] if self.script else {"suspend": 0, "con": "none"}
        self.n += 1
        if rec is not None:
            rec["handoff_idx"] = mon.ev("handoff", rec["sid"])
            rec["handoff_t"] = loop.time()
            rec["behaviour"] = beh
        mon.current = None
        if isinstance(cemi.data.payload, SecureAPDU):
            mon.secured_handoffs += 1
        con_raw = bytes((G.L_DATA_CON,)) + cemi.to_knx()[1:]
        # the gateway's confirmation: same frame, with the confirm-error flag / priority / repeat / hop count it chooses
        h = 2 + con_raw[1]
        c1 = (con_raw[h] | (0x01 if beh.get("con_error") else 0)) ^ beh.get("con_c1_xor", 0)
        c2 = con_raw[h + 1] if "con_hop" not in beh else (con_raw[h + 1] & 0x8F) | (beh["con_hop"] << 4)
        con_raw = con_raw[:h] + bytes((c1, c2)) + con_raw[h + 2:]
        if c1 & 0x01:
            mon.cons_with_error_flag += 1
        kind = beh["con"]
        if kind == "during":
            loop.call_later(beh["con_delay"], self.deliver_con, con_raw, "gateway-during-send_cemi")
        sus = beh["suspend"]
        if sus == "yield":
            await asyncio.sleep(0)
        elif sus:
            await asyncio.sleep(sus)
        if beh.get("raise"):
            if rec is not None:
                rec["iface_raised"] = True
                rec["done_idx"] = mon.ev("handoff_failed", rec["sid"])
                rec["done_t"] = loop.time()
            raise CommunicationError("fake interface: not connected")
        if kind == "inside":  # Routing: local confirmation before send_cemi returns; it rewrites the code of the very frame object
            cemi.code = CEMIMessageCode.L_DATA_IND
            cemi.to_knx()
            cemi.code = CEMIMessageCode.L_DATA_CON
            self.deliver_con(cemi.to_knx(), "gateway-inside-send_cemi")
        elif kind == "after":
            d = beh["con_delay"]
            if d == 0:
                loop.call_soon(self.deliver_con, con_raw, "gateway-after-send_cemi")
            else:
                loop.call_later(d, self.deliver_con, con_raw, "gateway-after-send_cemi")
        if rec is not None:
            rec["done_idx"] = mon.ev("handoff_done", rec["sid"])
            rec["done_t"] = loop.time()


@contextmanager
def observers():
    """Class-level wrappers (slots forbid instance patching); restored on exit.  The monitor of the running history is RecordingQueue.mon."""
    orig_send = CEMIHandler.send_telegram
    orig_process = Management.process

    async def send_telegram(self, telegram):  # noqa: ANN001
        mon: Monitor = RecordingQueue.mon
        loop = asyncio.get_running_loop()
        rec = {"sid": len(mon.sends), "tpci": type(telegram.tpci).__name__, "dst": repr(telegram.destination_address),
               "start_idx": mon.ev("send_start", len(mon.sends)), "start_t": loop.time(), "handoff_idx": None,
               "done_idx": None, "done_t": None, "end_idx": None, "end_t": None, "outcome": "pending"}
        mon.sends.append(rec)
        mon.current = rec
        try:
            result = await orig_send(self, telegram)
        except BaseException as exc:  # noqa: BLE001
            rec["outcome"] = type(exc).__name__
            rec["end_idx"] = mon.ev("send_end", rec["sid"], rec["outcome"])
            rec["end_t"] = loop.time()
            raise
        finally:
            if mon.current is rec:
                mon.current = None
        rec["outcome"] = "ok"
        rec["end_idx"] = mon.ev("send_end", rec["sid"], "ok")
        rec["end_t"] = loop.time()
        return result

    def process(self, telegram):  # noqa: ANN001
        mon: Monitor = RecordingQueue.mon
        mon.mgmt.append(telegram)
        mon.ev("mgmt", repr(telegram.destination_address), type(telegram.tpci).__name__)
        return orig_process(self, telegram)

    CEMIHandler.send_telegram = send_telegram  # type: ignore[method-assign]
    Management.process = process  # type: ignore[method-assign]
    try:
        yield
    finally:
        CEMIHandler.send_telegram = orig_send  # type: ignore[method-assign]
        Management.process = orig_process  # type: ignore[method-assign]


class InjectAt:
    """Selector wrapper: at the k-th select() of the run, one external datagram callback becomes ready."""

    def __init__(self, loop, inner, k: int, fn, frac: float) -> None:  # noqa: ANN001
        self._loop = loop
        self._inner = inner
        self._k = k
        self._fn = fn
        self._frac = frac
        self.calls = 0
        self.fired = False

    def select(self, timeout=None):  # noqa: ANN001
        i = self.calls
        self.calls += 1
        if i == self._k and not self.fired:
            self.fired = True
            loop = self._loop
            # what BaseSelectorEventLoop._process_events does for a readable socket: append to the ready queue
            loop.call_soon(self._fn)
            if timeout is not None and timeout > 0:
                # the loop would have slept `timeout`; the datagram wakes it earlier
                loop.iterations += 1
                loop._vtime += timeout * self._frac
                return []
            if timeout is None:
                loop.iterations += 1
                return []
        return self._inner.select(timeout)

    def __getattr__(self, name):  # noqa: ANN001
        return getattr(self._inner, name)


# ---------------------------------------------------------------------------
# history generation
# ---------------------------------------------------------------------------


def _apdu_for(rng: random.Random):
    """(APCI object, raw TPDU with TPCI bits zero) from a small set of fully defined services."""
    c = rng.randrange(4)
    if c == 0:
        v = rng.randrange(64)
        return GroupValueWrite(DPTBinary(v)), bytes((0x00, 0x80 | v))
    if c == 1:
        body = bytes(rng.getrandbits(8) for _ in range(rng.choice((1, 2, 4, 14, 15, 30))))
        return GroupValueWrite(DPTArray(tuple(body))), b"\x00\x80" + body
    if c == 2:
        return GroupValueRead(), b"\x00\x00"
    addr = rng.getrandbits(16)
    cnt = rng.randrange(1, 13)
    return MemoryRead(address=addr, count=cnt), bytes((0x02, cnt)) + addr.to_bytes(2, "big")


def gen_incoming(rng: random.Random, own: IndividualAddress, ds: bool = False) -> dict:
    """One received raw frame + what the statement says must happen with it."""
    kind = rng.choice(("group", "group", "group", "broadcast", "own", "own", "foreign", "foreign", "tag", "con", "req",
                       "con_group", "req_group", "mprop", "unknown_code", "malformed", "own_ctrl", "foreign_ctrl", "foreign0"))
    src = rng.choice((0x1101, 0x1203, 0xFFFF, 0x0001))
    c1 = rng.choice((0xBC, 0xB0, 0x94, 0xBC, 0x3C))
    if kind in ("con", "con_group") and rng.random() < 0.4:
        c1 |= 0x01  # confirmation with the error flag: still a confirmation frame
    hop = rng.randrange(8) << 4
    payload, tpdu = _apdu_for(rng)
    exp = {"kind": kind, "queue": None, "mgmt": None}
    foreign = rng.choice([a for a in (0x1106, 0x1205, 0xFFFF, 0x0000, 0x1104) if a != own.raw])
    ga = rng.choice((0x0901, 0x0001, 0xFFFF, 0x7FFF, KEYED_GAS[0]))
    if ds and kind == "group" and ga not in KEYED_GAS and rng.random() < 0.35:
        kind = exp["kind"] = "group_secure"  # built later in delivery order (sequence numbers must increase)
        return {"raw": b"", "exp": exp, "secure": {"src": rng.choice(DS_SENDERS), "dst": rng.choice(KEYED_GAS), "tpdu": tpdu}}
    if kind in ("group", "con_group", "req_group"):
        code = {"group": G.L_DATA_IND, "con_group": G.L_DATA_CON, "req_group": G.L_DATA_REQ}[kind]
        raw = G.l_data(code, ctrl1=c1, ctrl2=0x80 | hop, src=src, dst=ga, tpdu=tpdu)
        if kind == "group":
            if ds and ga in KEYED_GAS:
                # plain frame to a secured group address: discarded by Data Secure (C18's subject), not judged here
                exp["unjudged"] = "plain_to_keyed"
            else:
                exp["queue"] = {"src": src, "dst": ga, "apdu": tpdu}
    elif kind == "broadcast":
        raw = G.l_data(G.L_DATA_IND, ctrl1=c1, ctrl2=0x80 | hop, src=src, dst=0, tpdu=tpdu)
        exp["mgmt"] = {"src": src, "dst": 0, "group": True, "tpci": "TDataBroadcast"}
    elif kind == "tag":
        raw = G.l_data(G.L_DATA_IND, ctrl1=c1, ctrl2=0x80 | hop, src=src, dst=ga, tpdu=bytes((tpdu[0] | 0x04,)) + tpdu[1:])
        exp["unjudged"] = True
    elif kind in ("own", "foreign", "foreign0", "con", "req"):
        dst = own.raw if kind in ("own", "con", "req") else (0 if kind == "foreign0" and own.raw else foreign)
        seq = rng.randrange(16)
        tp, name = rng.choice(((0x00, "TDataIndividual"), (0x40 | seq << 2, "TDataConnected")))
        code = {"con": G.L_DATA_CON, "req": G.L_DATA_REQ}.get(kind, G.L_DATA_IND)
        raw = G.l_data(code, ctrl1=c1 & 0xF3, ctrl2=hop, src=src, dst=dst, tpdu=bytes((tpdu[0] | tp,)) + tpdu[1:])
        if kind == "own":
            exp["mgmt"] = {"src": src, "dst": dst, "group": False, "tpci": name}
    elif kind in ("own_ctrl", "foreign_ctrl"):
        dst = own.raw if kind == "own_ctrl" else foreign
        seq = rng.randrange(16)
        tp, name = rng.choice(((0x80, "TConnect"), (0x81, "TDisconnect"), (0xC2 | seq << 2, "TAck"), (0xC3 | seq << 2, "TNak")))
        raw = G.l_data(G.L_DATA_IND, ctrl1=c1 & 0xF3, ctrl2=hop, src=src, dst=dst, tpdu=bytes((tp,)))
        if kind == "own_ctrl":
            exp["mgmt"] = {"src": src, "dst": dst, "group": False, "tpci": name}
    elif kind == "mprop":
        raw = G.m_prop(rng.choice(G.M_PROP_CODES), 0x000B, 1, 52, 1, 1, b"\x11\x05")
    elif kind == "unknown_code":
        raw = bytes((rng.choice((0x10, 0x2B, 0x2D, 0x2F, 0x00, 0x12, 0x30, 0xF1, 0xF0, 0xFA)),)) + G.l_data(G.L_DATA_IND, dst=ga)[1:]
    else:  # malformed L_Data.ind to a group address / own address
        good = G.l_data(G.L_DATA_IND, ctrl2=0x80 | hop, src=src, dst=ga, tpdu=tpdu)
        m = rng.randrange(4)
        if m == 0:
            raw = good[: rng.randrange(2, len(good))]
        elif m == 1:
            raw = good + b"\x00"
        elif m == 2:
            raw = G.l_data(G.L_DATA_IND, ctrl2=0x80 | hop | rng.choice((1, 4, 8, 15)), dst=ga, tpdu=tpdu)
        else:
            raw = G.l_data(G.L_DATA_IND, ctrl2=0x80 | hop, dst=ga, tpdu=bytes((0x80,)))  # control TPDU to a group address
    return {"raw": raw, "exp": exp}


def gen_send(rng: random.Random, own: IndividualAddress) -> dict:
    kind = rng.choice(("group", "group", "group", "p2p", "connect", "broadcast"))
    path = "queue" if kind == "group" and rng.random() < 0.4 else "direct"
    sus = rng.choice((0, 0, "yield", 0.05, 1.0, 3.5))
    con = rng.choice(("none", "none", "inside", "after", "after", "after", "during"))
    beh: dict = {"suspend": sus, "con": con}
    if con == "during":
        if not isinstance(sus, float):
            beh["con"] = "after"
            con = "after"
        else:
            beh["con_delay"] = sus / 2
    if con == "after":
        beh["con_delay"] = rng.choice((0, 0, 0.01, 1.0, 2.999, 3.0, 3.001, 5.0))
    if rng.random() < 0.3:
        beh["con_error"] = True
    if rng.random() < 0.3:
        beh["con_c1_xor"] = rng.choice((0x20, 0x04, 0x08, 0x0C, 0x2C, 0x02))  # repeat / priority / ack bits differ from the request
    if rng.random() < 0.3:
        beh["con_hop"] = rng.randrange(8)
    if rng.random() < 0.05:
        beh["raise"] = True
    return {"kind": kind, "path": path, "at": rng.choice((0, 0, 0, 0.001, 0.05, 1.0, 2.0, 3.0, 4.5)), "beh": beh,
            "ga": rng.choice((0x0901, 0x0A02)), "val": rng.randrange(256), "src": rng.choice((None, None, SEND_SRC))}


def gen_history(rng: random.Random) -> dict:
    own = rng.choice(OWN)
    ds = None
    if rng.random() < 0.5:
        ds = {"keys": {str(ga): bytes(rng.getrandbits(8) for _ in range(16)).hex() for ga in KEYED_GAS},
              "senders": {str(ia): 0 for ia in DS_SENDERS}, "seq": rng.choice((1, 1000, 2**40))}
    n_in = rng.randrange(0, 9)
    incoming = []
    for i in range(n_in):
        f = gen_incoming(rng, own, ds is not None)
        f["at"] = rng.choice((0, 0.0005, 0.01, 0.05, 0.5, 1.0, 1.5, 2.0, 3.0, 3.05, 4.0, 6.0))
        if "secure" in f:
            f["at"] += (i + 1) * 1e-5  # distinct instants: the delivery order of the secured frames is then the order of `at`
        incoming.append(f)
    if ds is not None:
        _build_secure_frames(ds, incoming)
    sends = [gen_send(rng, own) for _ in range(rng.randrange(1, 4))]
    return {"own": own.raw, "ds": ds, "rate_limit": rng.choice((0, 0, 20)), "incoming": incoming, "sends": sends}


def make_data_secure(ds: dict, seq: int | None = None) -> DataSecure:
    return DataSecure(
        group_key_table={GroupAddress(int(ga)): bytes.fromhex(key) for ga, key in ds["keys"].items()},
        individual_address_table={IndividualAddress(int(ia)): n for ia, n in ds["senders"].items()},
        last_sequence_number_sending=seq if seq is not None else ds["seq"],
    )


def _build_secure_frames(ds: dict, incoming: list[dict]) -> None:
    """Valid secured L_Data.ind frames from a second (sender) DataSecure instance, numbered in delivery order."""
    from xknx.telegram.apci import APCI

    sender = make_data_secure(ds, seq=5000)
    for f in sorted((f for f in incoming if "secure" in f), key=lambda f: f["at"]):
        sec = f.pop("secure")
        plain = CEMILData(src_addr=IndividualAddress(sec["src"]), dst_addr=GroupAddress(sec["dst"]), tpci=T.TDataGroup(),
                          payload=APCI.from_knx(sec["tpdu"]))
        frame = CEMIFrame(code=CEMIMessageCode.L_DATA_IND, data=sender.outgoing_cemi(plain))
        f["raw"] = frame.to_knx()
        f["exp"]["queue"] = {"src": sec["src"], "dst": sec["dst"], "apdu": sec["tpdu"]}


INJECT_KINDS = ("con", "con", "con", "req", "ind_group", "mprop", "garbage", "con_short")
CON_VARIANTS = (dict(), dict(ctrl1=0xBD), dict(ctrl1=0x91, ctrl2=0x90), dict(ctrl1=0xBC, ctrl2=0xF0), dict(ctrl1=0x3D, ctrl2=0x80))


def inject_frame(kind: str) -> dict:
    """Frame injected at loop iteration k.  Only 'con' is a confirmation."""
    if kind.startswith("con_v"):
        return {"raw": G.l_data(G.L_DATA_CON, src=0x1105, dst=0x0901, tpdu=b"\x00\x80", **CON_VARIANTS[int(kind[5:])]), "is_con": True,
                "exp": {"kind": "con", "queue": None, "mgmt": None}}
    if kind == "con":
        return {"raw": G.l_data(G.L_DATA_CON, src=0x1105, dst=0x0901, tpdu=b"\x00\x80"), "is_con": True,
                "exp": {"kind": "con", "queue": None, "mgmt": None}}
    if kind == "req":
        return {"raw": G.l_data(G.L_DATA_REQ, src=0x1105, dst=0x0901, tpdu=b"\x00\x80"), "is_con": False,
                "exp": {"kind": "req", "queue": None, "mgmt": None}}
    if kind == "ind_group":
        return {"raw": G.l_data(G.L_DATA_IND, src=0x1105, dst=0x0901, tpdu=b"\x00\x81"), "is_con": False,
                "exp": {"kind": "group", "queue": {"src": 0x1105, "dst": 0x0901, "apdu": b"\x00\x81"}, "mgmt": None}}
    if kind == "mprop":
        return {"raw": G.m_prop(0xFB, 0x000B, 1, 52, 1, 1, b"\x2e\x00"), "is_con": False,
                "exp": {"kind": "mprop", "queue": None, "mgmt": None}}
    if kind == "con_short":  # an L_Data.con that does not parse is not a confirmation frame
        return {"raw": G.l_data(G.L_DATA_CON, src=0x1105, dst=0x0901, tpdu=b"\x00\x80")[:-1], "is_con": False,
                "exp": {"kind": "malformed", "queue": None, "mgmt": None}}
    return {"raw": b"\x2e", "is_con": False, "exp": {"kind": "malformed", "queue": None, "mgmt": None}}


# ---------------------------------------------------------------------------
# running one history
# ---------------------------------------------------------------------------


def run_history(hist: dict, inject_k: int | None = None, inject_kind: str = "con", frac: float = 0.0) -> dict:
    """Execute one history on a fresh virtual loop; returns the monitor's observations."""
    loop = new_loop()
    mon = Monitor()
    RecordingQueue.mon = mon
    result: dict = {"mon": mon, "error": None, "iterations": 0, "injected": False}
    own = IndividualAddress(hist["own"])

    def deliver(frame: dict, why: str) -> None:
        exp = frame["exp"]
        if exp.get("unjudged") == "plain_to_keyed":
            mon.unjudged_plain_to_keyed += 1
        elif exp.get("unjudged"):
            mon.unjudged_tag_group += 1
        if frame.get("is_con") or exp["kind"] in ("con", "con_group"):
            i = mon.ev("con", why)
            mon.con_idx.append(i)
            mon.con_t[i] = loop.time()
            raw_ = frame["raw"]
            if raw_[2 + raw_[1]] & 0x01:
                mon.cons_with_error_flag += 1
        else:
            mon.ev("rx", exp["kind"], why)
        if exp.get("queue"):
            mon.exp_queue.append(exp["queue"])
        if exp.get("mgmt"):
            mon.exp_mgmt.append(exp["mgmt"])
        n_q, n_m = len(mon.queued), len(mon.mgmt)
        try:
            xknx.knxip_interface.cemi_received(frame["raw"])
        except BaseException as exc:  # noqa: BLE001
            mon.ev("rx_exception", type(exc).__name__)
            result.setdefault("rx_exceptions", []).append((frame["raw"], repr(exc)[:160]))
        if exp.get("unjudged"):  # take T_Data_Tag_Group effects out of the judged sequences
            del mon.queued[n_q:]
            del mon.mgmt[n_m:]

    xknx: XKNX = None  # type: ignore[assignment]

    async def main() -> None:
        nonlocal xknx
        xknx = XKNX()
        if own.raw:  # 0.0.0: the address was never set (no connection made yet)
            xknx.current_address = own
        if hist.get("ds"):
            xknx.cemi_handler.data_secure = make_data_secure(hist["ds"])
        xknx.rate_limit = hist.get("rate_limit", 0)
        q = RecordingQueue()
        xknx.telegrams = q
        xknx.knxip_interface = FakeInterface(xknx, mon, [s["beh"] for s in hist["sends"]])  # type: ignore[assignment]

        def cb(t: Telegram) -> None:
            if t.direction is TelegramDirection.INCOMING:
                mon.cb_incoming += 1

        xknx.telegram_queue.register_telegram_received_cb(cb)
        await xknx.telegram_queue.start()
        for f in hist["incoming"]:
            loop.call_later(f["at"], deliver, f, "history")

        async def direct(s: dict) -> None:
            if s["at"]:
                await asyncio.sleep(s["at"])
            if s["kind"] == "group":
                tg = Telegram(destination_address=GroupAddress(s["ga"]), payload=GroupValueWrite(DPTArray((s["val"],))))
            elif s["kind"] == "p2p":
                tg = Telegram(destination_address=IndividualAddress(0x1107), tpci=T.TDataIndividual(),
                              payload=MemoryRead(address=s["val"], count=1))
            elif s["kind"] == "connect":
                tg = Telegram(destination_address=IndividualAddress(0x1107), tpci=T.TConnect())
            else:
                tg = Telegram(destination_address=GroupAddress(0), tpci=T.TDataBroadcast(), payload=GroupValueRead())
            if s.get("src"):
                tg.source_address = IndividualAddress(s["src"])
            if s["path"] == "queue":
                mon.harness_puts.add(id(tg))
                result.setdefault("keep", []).append(tg)
                xknx.telegrams.put_nowait(tg)
                return
            try:
                await xknx.cemi_handler.send_telegram(tg)
            except (ConfirmationError, CommunicationError):
                pass

        tasks = [asyncio.ensure_future(direct(s)) for s in hist["sends"]]
        await asyncio.gather(*tasks, return_exceptions=True)
        horizon = max([s["at"] for s in hist["sends"]] + [f["at"] for f in hist["incoming"]] + [0]) + 3.5 + 5.0 + 3.0 + 4.0
        remaining = horizon - (loop.time() - t0)
        if remaining > 0:
            await asyncio.sleep(remaining)
        await xknx.telegram_queue.stop()

    t0 = loop.time()
    inj = None
    if inject_k is not None:
        frame = inject_frame(inject_kind)
        inj = InjectAt(loop, loop._selector, inject_k, lambda: deliver(frame, f"injected-at-iteration"), frac)
        loop._selector = inj  # type: ignore[assignment]
    try:
        loop.run(main(), max_vtime=300)
    except Deadlock:
        result["error"] = "deadlock"
    except LoopBudget:
        result["error"] = "budget"
    result["iterations"] = loop.iterations
    result["injected"] = bool(inj and inj.fired)
    result["loop_exceptions"] = list(loop.exceptions)
    result["vtime"] = loop.time() - t0
    if inj is not None:
        loop._selector = inj._inner  # type: ignore[assignment]
    loop.finish()
    return result


# ---------------------------------------------------------------------------
# oracle
# ---------------------------------------------------------------------------


def _event_string(mon: Monitor) -> str:
    sym = {"send_start": "s", "handoff": "H", "handoff_done": "h", "handoff_failed": "x", "con": "C", "rx": "r",
           "queued": "q", "mgmt": "m", "send_end": "e", "rx_exception": "!"}
    out = []
    for item in mon.log:
        s = sym.get(item[0], "?")
        if item[0] == "send_end":
            s += "+" if item[2] == "ok" else "-"
        out.append(s)
    return "".join(out)


def judge(ctx, hist: dict, res: dict, tag: dict) -> None:
    mon: Monitor = res["mon"]
    wit = {"history": hist, "inject": tag, "events": _event_string(mon)}
    ctx.ev()
    ctx.count("histories_run")
    if res["error"]:
        ctx.violation(f"history-{res['error']}", wit, f"the history ended in a {res['error']}: some send or the queue never finishes")
        return
    for raw, exc in res.get("rx_exceptions", []):
        ctx.violation("receive-path-raises", dict(wit, raw=raw, exception=exc), f"handle_raw_cemi({raw.hex()}) raised {exc}")

    # (1) telegram queue
    ctx.count("frames_expected_in_queue", len(mon.exp_queue))
    ctx.count("frames_expected_at_management", len(mon.exp_mgmt))
    ctx.count("telegrams_queued_by_receive_path", len(mon.queued))
    ctx.count("management_process_calls", len(mon.mgmt))
    ctx.count("tag_group_frames_unjudged", mon.unjudged_tag_group)
    ctx.count("plain_frames_to_secured_group_address_unjudged", mon.unjudged_plain_to_keyed)
    if hist.get("ds"):
        ctx.count("histories_with_data_secure")
        ctx.count("handoffs_of_secured_frames", mon.secured_handoffs)
        ctx.count("secured_group_frames_received", sum(1 for f in hist["incoming"] if f["exp"]["kind"] == "group_secure"))
    else:
        ctx.count("histories_without_data_secure")
    if not hist["own"]:
        ctx.count("histories_with_current_address_unset")
    if hist.get("rate_limit"):
        ctx.count("histories_with_rate_limit")
    got_q = [{"src": t.source_address.raw, "dst": t.destination_address.raw,
              "apdu": bytes(t.payload.to_knx()) if t.payload is not None else None,
              "group": isinstance(t.destination_address, GroupAddress), "dir": t.direction.name,
              "tpci": type(t.tpci).__name__} for t in mon.queued]
    exp_q = mon.exp_queue
    if len(got_q) != len(exp_q):
        if len(got_q) > len(exp_q):
            extra = next((g for g in got_q if not any(g["dst"] == e["dst"] and g["src"] == e["src"] for e in exp_q)), got_q[-1])
            why = "duplicate-or-unexpected"
            if extra["tpci"] != "TDataGroup" or not extra["group"]:
                why = "non-group-data-frame"
            ctx.violation(f"telegram-queue-received-{why}-telegram", dict(wit, queued=got_q, expected=exp_q),
                          f"receive path queued {len(got_q)} telegrams, {len(exp_q)} group data frames were received")
        else:
            ctx.violation("group-frame-not-queued", dict(wit, queued=got_q, expected=exp_q),
                          f"receive path queued {len(got_q)} telegrams, {len(exp_q)} group data frames were received")
    else:
        for g, e in zip(got_q, exp_q):
            ok = (g["src"] == e["src"] and g["dst"] == e["dst"] and g["group"] and g["apdu"] == e["apdu"]
                  and g["dir"] == "INCOMING" and g["tpci"] == "TDataGroup")
            if not ok:
                ctx.violation("queued-telegram-differs-from-frame", dict(wit, queued=g, expected=e),
                              f"queued telegram {g} does not match the received frame {e}")
                break
    if mon.cb_incoming != len(mon.queued):
        ctx.count("telegram_cb_dispatch_differs_from_queued")  # recorded only
    # (2) management
    got_m = [{"src": t.source_address.raw, "dst": t.destination_address.raw,
              "group": isinstance(t.destination_address, GroupAddress), "tpci": type(t.tpci).__name__} for t in mon.mgmt]
    exp_m = mon.exp_mgmt
    if got_m != exp_m:
        own = hist["own"]
        stray = [g for g in got_m if not ((g["group"] and g["dst"] == 0) or (not g["group"] and g["dst"] == own))]
        if stray:
            ctx.violation("management-received-frame-for-foreign-address" if not stray[0]["group"]
                          else "management-received-group-frame", dict(wit, got=got_m, expected=exp_m, stray=stray[0]),
                          f"Management.process got {stray[0]} which is neither broadcast nor addressed to {IndividualAddress(own)}")
        elif len(got_m) > len(exp_m):
            ctx.violation("management-received-frame-more-than-once-or-from-con-req", dict(wit, got=got_m, expected=exp_m),
                          f"Management.process called {len(got_m)} times, expected {len(exp_m)}")
        elif len(got_m) < len(exp_m):
            ctx.violation("own-or-broadcast-frame-not-delivered-to-management", dict(wit, got=got_m, expected=exp_m),
                          f"Management.process called {len(got_m)} times, expected {len(exp_m)}")
        else:
            ctx.violation("management-telegram-differs-from-frame", dict(wit, got=got_m, expected=exp_m),
                          "Management.process arguments do not match the received frames")

    # (3)/(4) sends
    for rec in mon.sends:
        ctx.count("sends_observed")
        if hist.get("ds"):
            ctx.count("sends_observed_with_data_secure")
        swit = dict(wit, send={k: v for k, v in rec.items()})
        out = rec["outcome"]
        ctx.count(f"send_outcome_{out}")
        if out == "pending" or rec["end_idx"] is None:
            ctx.violation("send-never-finishes", swit, f"send {rec['sid']} ({rec['tpci']}) was still pending {res['vtime']:.1f} s into the history")
            continue
        if rec["handoff_idx"] is None:
            ctx.count("send_ended_before_handoff")
            continue
        after = [i for i in mon.con_idx if rec["handoff_idx"] < i < rec["end_idx"]]
        before = [i for i in mon.con_idx if i < rec["handoff_idx"]]
        if out == "ok":
            if after:
                ctx.count("send_completed_with_confirmation_after_handoff")
                first = after[0]
                if rec["done_idx"] is not None and first < rec["done_idx"]:
                    ctx.count("confirmation_arrived_during_send_cemi")
            else:
                why = "stale-confirmation-from-before-handoff" if before else "no-confirmation-frame-at-all"
                ctx.violation(f"send-completes-without-confirmation-after-handoff-{why}", swit,
                              f"send {rec['sid']} returned normally but no L_Data.con was delivered between its hand-off "
                              f"(event {rec['handoff_idx']}) and its return (event {rec['end_idx']}); events: {wit['events']}")
        elif out == "ConfirmationError":
            delay = rec["end_t"] - rec["done_t"] if rec["done_t"] is not None else None
            if delay is None or delay > REQUEST_TO_CONFIRMATION_TIMEOUT + EPS:
                ctx.violation("confirmation-error-later-than-confirmation-timeout", dict(swit, delay=delay),
                              f"send {rec['sid']} failed {delay} s after send_cemi returned (timeout {REQUEST_TO_CONFIRMATION_TIMEOUT} s)")
            else:
                ctx.extra["confirmation_error_delay_min"] = min(ctx.extra.get("confirmation_error_delay_min", 99.0), round(delay, 6))
                ctx.extra["confirmation_error_delay_max"] = max(ctx.extra.get("confirmation_error_delay_max", 0.0), round(delay, 6))
            if after:
                # judged when the confirmation clearly preceded the deadline and no concurrent send re-armed the event
                # (its clear() right before its own hand-off) between the confirmation and the start of this send's wait
                deadline = rec["done_t"] + REQUEST_TO_CONFIRMATION_TIMEOUT
                other_handoffs = [o["handoff_idx"] for o in mon.sends if o is not rec and o["handoff_idx"] is not None]
                clear_cut = [i for i in after if mon.con_t.get(i, deadline) < deadline - 1e-3
                             and not any(i < j < rec["done_idx"] for j in other_handoffs)]
                if clear_cut:
                    raw_flag = "with-error-flag" if rec.get("behaviour", {}).get("con_error") else "frame"
                    ctx.violation(f"send-fails-with-ConfirmationError-although-confirmation-{raw_flag}-arrived-after-handoff",
                                  dict(swit, confirmation_events=clear_cut, deadline=deadline,
                                       confirmation_times=[mon.con_t[i] for i in clear_cut]),
                                  f"send {rec['sid']} was handed off at event {rec['handoff_idx']}, an L_Data.con was delivered at event "
                                  f"{clear_cut[0]} ({deadline - mon.con_t[clear_cut[0]]:.3f} s before the deadline), yet the send "
                                  f"failed with ConfirmationError; events: {wit['events']}")
                elif any(mon.con_t.get(i, deadline) < deadline - 1e-3 for i in after):
                    ctx.count("confirmation_wiped_by_concurrent_send_before_wait_unjudged")
                else:
                    ctx.count("confirmation_racing_the_timeout_unjudged")
            else:
                ctx.count("confirmation_error_as_required")
        elif rec.get("iface_raised") and out == "CommunicationError":
            ctx.count("interface_raised_communication_error_unjudged")
        elif not after:
            ctx.violation(f"send-without-confirmation-fails-with-{out}-instead-of-ConfirmationError", swit,
                          f"send {rec['sid']} got no confirmation and ended with {out}")
        else:
            ctx.count("send_other_exception_with_confirmation_unjudged")
    ctx.count("confirmation_frames_delivered", len(mon.con_idx))
    ctx.count("confirmation_frames_with_error_flag", mon.cons_with_error_flag)
    for e in res.get("loop_exceptions", []):
        ctx.count("loop_exception_handler_records_diagnostic")
    ctx.distinct(_event_string(mon))


def explore(ctx, hist: dict, hno: int) -> None:
    base = run_history(hist)
    judge(ctx, hist, base, {"k": None})
    ctx.count("baselines")
    if base["error"]:
        return
    n = base["iterations"]
    ctx.count("baseline_iterations", n)
    step = 1
    for k in range(0, n, step):
        kinds = ["con" if (k + hno) % 2 else f"con_v{(k // 2 + hno) % len(CON_VARIANTS)}"]
        if (k + hno) % 3 == 0:
            kinds.append(INJECT_KINDS[3 + (k // 3 + hno) % (len(INJECT_KINDS) - 3)])
        for kind in kinds:
            frac = (0.0, 0.5, 0.999)[(k + hno) % 3]
            res = run_history(hist, inject_k=k, inject_kind=kind, frac=frac)
            if not res["injected"]:
                ctx.count("injection_index_beyond_run")
                continue
            ctx.count("injections")
            ctx.count("injected_con" if kind.startswith("con_v") else f"injected_{kind}")
            judge(ctx, hist, res, {"k": k, "kind": kind, "frac": frac})


def run(ctx):
    ctx.rule = (
        "history = own address, 0-8 timed raw frames with their expected consumer, 1-3 timed sends with interface behaviour; each "
        "history is run as baseline and once per baseline loop iteration k with one extra frame injected at k. distinct = distinct "
        "event strings (s send start, H hand-off, h send_cemi returned, C confirmation delivered, r other frame, q queued, m management, e+/e- send end)"
    )
    ctx.require("baselines", "injections", "telegrams_queued_by_receive_path", "management_process_calls",
                "send_completed_with_confirmation_after_handoff", "confirmation_error_as_required",
                "confirmation_arrived_during_send_cemi", "frames_expected_in_queue", "frames_expected_at_management",
                "injected_con", "injected_req", "histories_with_data_secure", "histories_without_data_secure",
                "handoffs_of_secured_frames", "secured_group_frames_received", "sends_observed_with_data_secure",
                "histories_with_current_address_unset", "histories_with_rate_limit", "confirmation_frames_with_error_flag")
    rng = random.Random(f"C14/{ctx.seed}")
    n_hist = ctx.scale(300, 6400)
    with observers():
        for hno in range(n_hist):
            hist = gen_history(rng)
            if not ctx.mine(hno):
                continue
            explore(ctx, hist, hno)
            if hno < 3:
                ctx.sample({"own": hist["own"], "incoming": [f["raw"] for f in hist["incoming"]],
                            "sends": [(s["kind"], s["path"], s["at"], s["beh"]) for s in hist["sends"]]})


def replay(ctx, witness):
    ctx.rule = "replay of one recorded history (+ injection index)"
    hist = witness["history"]

    def unhex(v):  # noqa: ANN001
        return bytes.fromhex(v[4:]) if isinstance(v, str) and v.startswith("hex:") else v

    for f in hist["incoming"]:
        f["raw"] = unhex(f["raw"])
        for key in ("queue",):
            if f["exp"].get(key):
                f["exp"][key]["apdu"] = unhex(f["exp"][key]["apdu"])
    inj = witness.get("inject") or {}

    with observers():
        res = run_history(hist, inject_k=inj.get("k"), inject_kind=inj.get("kind", "con"), frac=inj.get("frac", 0.0))
        judge(ctx, hist, res, inj)
        ctx.distinct("replay")
        ctx.sample({"events": _event_string(res["mon"])})
