"""Independent KNX Data Secure CCM (reference oracle for C15..C19).

Written from the KNX specification (03_03_07 Application Layer section 5 / AN158
"KNX Data Security"), not from xknx.  The only primitive taken from a library is
the raw AES-128 block function (ECB on exactly one block); CBC-MAC chaining, the
counter blocks and the key stream are done by hand.  Nothing is imported from
xknx.

Layout (AN158 section 2.3.5 "S-A_Data"):

    secure APDU  = APCI 0x3F1 | SCF | SeqNr(6) | [enc(APDU)] | enc(MAC)(4)

    B0           = SeqNr(6) | SA(2) | DA(2) | 00 | AT<<7 | EFF | TPCI|APCI_hi(03) | APCI_lo(F1) | 00 | Q
                   Q = length of the payload that is encrypted (0 for authentication only)
    A            = SCF                      (authenticated encryption)
                 = SCF | APDU               (authentication only)
    CBC-MAC over   B0 | len(A)(2) | A | P   zero padded *once at the end* to 16 octets
                   (KNX does not pad A separately as RFC 3610 would)
    Ctr0         = SeqNr(6) | SA(2) | DA(2) | 00 00 00 00 | 01 | 00
    key stream   = E(K, Ctr0) | E(K, Ctr0+1) | ...
    enc(MAC)     = MAC[0:4] xor key stream[0:4]
    enc(APDU)    = APDU xor key stream[4:4+len]     (same stream, continues after the MAC)

Validated in `self_test()` against the AN158 Annex A example frame and the frame
recorded from ETS that ships in /repo/test/secure_tests (both independent of
xknx's encoder).
"""

from __future__ import annotations

from cryptography.hazmat.primitives.ciphers import Cipher, algorithms, modes

ALG_AUTH = 0
ALG_ENC = 1


def aes_block(key: bytes, block: bytes) -> bytes:
    """One AES-128 block encryption."""
    assert len(key) == 16 and len(block) == 16
    enc = Cipher(algorithms.AES(key), modes.ECB()).encryptor()  # noqa: S305 - single block primitive
    return enc.update(block) + enc.finalize()


def _xor(a: bytes, b: bytes) -> bytes:
    return bytes(x ^ y for x, y in zip(a, b))


def cbc_mac(key: bytes, data: bytes) -> bytes:
    """CBC-MAC with zero IV over `data`, zero padded to the block size."""
    if len(data) % 16:
        data = data + bytes(16 - len(data) % 16)
    y = bytes(16)
    for i in range(0, len(data), 16):
        y = aes_block(key, _xor(y, data[i : i + 16]))
    return y


#: The associated-data length field is 2 octets big endian. RFC 3610 switches to a longer encoding from 0xFF00 on; the KNX
#: documents do not describe associated data of that size (no frame can carry it), so the reference is undefined there.
MAX_ASSOCIATED_DATA = 0xFEFF
MAX_PAYLOAD = 0xFFFF


def keystream(key: bytes, ctr0: bytes, n: int) -> bytes:
    """First n octets of the counter-mode key stream (128 bit big endian increment)."""
    out = b""
    c = int.from_bytes(ctr0, "big")
    while len(out) < n:
        out += aes_block(key, (c % (1 << 128)).to_bytes(16, "big"))
        c += 1
    return out[:n]


def block0(seq: bytes, sa: bytes, da: bytes, at: int, eff: int, tpci_octet: int, q: int) -> bytes:
    """B0.  `tpci_octet` is the TPCI octet as it stands in the frame (low 2 bits ignored)."""
    assert len(seq) == 6 and len(sa) == 2 and len(da) == 2
    # Q is the 2 octet payload length field of the CCM block B0 (its high octet is 0 for everything a frame can carry)
    return seq + sa + da + bytes((0, ((at & 1) << 7) | (eff & 0x0F), (tpci_octet & 0xFC) | 0x03, 0xF1, (q >> 8) & 0xFF, q & 0xFF))


def ctr0(seq: bytes, sa: bytes, da: bytes) -> bytes:
    return seq + sa + da + b"\x00\x00\x00\x00\x01\x00"


def scf_algorithm(scf: int) -> int:
    return (scf >> 4) & 0b111


def secure(
    key: bytes, apdu: bytes, scf: int, seq: int, sa: bytes, da: bytes, at: int, eff: int, tpci_octet: int
) -> tuple[bytes, bytes]:
    """Return (secured APDU, transmitted MAC) for a plain APDU."""
    seqb = seq.to_bytes(6, "big")
    alg = scf_algorithm(scf)
    if alg == ALG_AUTH:
        a = bytes((scf,)) + apdu
        b0 = block0(seqb, sa, da, at, eff, tpci_octet, 0)
        mac = cbc_mac(key, b0 + len(a).to_bytes(2, "big") + a)[:4]
        return bytes(apdu), mac
    if alg == ALG_ENC:
        a = bytes((scf,))
        b0 = block0(seqb, sa, da, at, eff, tpci_octet, len(apdu))
        mac = cbc_mac(key, b0 + len(a).to_bytes(2, "big") + a + apdu)[:4]
        ks = keystream(key, ctr0(seqb, sa, da), 4 + len(apdu))
        return _xor(apdu, ks[4:]), _xor(mac, ks[:4])
    raise ValueError("reserved algorithm")


def asdu(key: bytes, apdu: bytes, scf: int, seq: int, sa: bytes, da: bytes, at: int, eff: int, tpci_octet: int) -> bytes:
    """SeqNr | secured APDU | MAC  (what follows the SCF octet)."""
    sec, mac = secure(key, apdu, scf, seq, sa, da, at, eff, tpci_octet)
    return seq.to_bytes(6, "big") + sec + mac


def open_asdu(
    key: bytes, scf: int, body: bytes, sa: bytes, da: bytes, at: int, eff: int, tpci_octet: int
) -> bytes | None:
    """Verify/decrypt SeqNr|secured|MAC; return the plain APDU or None when the MAC is wrong."""
    if len(body) < 10:
        return None
    seqb, sec, mac_tx = body[:6], body[6:-4], body[-4:]
    alg = scf_algorithm(scf)
    if alg == ALG_AUTH:
        a = bytes((scf,)) + sec
        b0 = block0(seqb, sa, da, at, eff, tpci_octet, 0)
        mac = cbc_mac(key, b0 + len(a).to_bytes(2, "big") + a)[:4]
        return bytes(sec) if mac == mac_tx else None
    if alg == ALG_ENC:
        ks = keystream(key, ctr0(seqb, sa, da), 4 + len(sec))
        plain = _xor(sec, ks[4:])
        a = bytes((scf,))
        b0 = block0(seqb, sa, da, at, eff, tpci_octet, len(plain))
        mac = cbc_mac(key, b0 + len(a).to_bytes(2, "big") + a + plain)[:4]
        return plain if mac == _xor(mac_tx, ks[:4]) else None
    return None


def secure_ldata(
    key: bytes,
    apdu: bytes,
    *,
    scf: int,
    seq: int,
    sa: int,
    da: int,
    group: bool,
    tpci_octet: int = 0,
    ctrl1: int = 0xBC,
    hop_count: int = 6,
    eff: int = 0,
    message_code: int = 0x29,
    mac_override: bytes | None = None,
    set_frame_type: bool = True,
) -> bytes:
    """A complete cEMI L_Data frame carrying a Data Secure APDU, built octet by octet.

    `apdu` is the plain APDU with the TPCI bits cleared (first octet = APCI high bits).
    """
    sab, dab = sa.to_bytes(2, "big"), da.to_bytes(2, "big")
    at = 1 if group else 0
    body = asdu(key, apdu, scf, seq, sab, dab, at, eff, tpci_octet)
    if mac_override is not None:
        body = body[:-4] + mac_override
    tpdu = bytes(((tpci_octet & 0xFC) | 0x03, 0xF1, scf)) + body
    npdu_len = len(tpdu) - 1
    if set_frame_type:
        ctrl1 = (ctrl1 & 0x7F) | (0x80 if npdu_len <= 15 else 0)
    ctrl2 = (at << 7) | ((hop_count & 7) << 4) | (eff & 0x0F)
    return bytes((message_code, 0, ctrl1, ctrl2)) + sab + dab + bytes((npdu_len,)) + tpdu


def plain_ldata(
    apdu: bytes, *, sa: int, da: int, group: bool, tpci_octet: int = 0, ctrl1: int = 0xBC, hop_count: int = 6,
    message_code: int = 0x29,
) -> bytes:
    """A plain cEMI L_Data frame."""
    tpdu = bytes(((tpci_octet & 0xFC) | (apdu[0] & 0x03),)) + apdu[1:]
    npdu_len = len(tpdu) - 1
    ctrl1 = (ctrl1 & 0x7F) | (0x80 if npdu_len <= 15 else 0)
    ctrl2 = ((1 if group else 0) << 7) | ((hop_count & 7) << 4)
    return bytes((message_code, 0, ctrl1, ctrl2)) + sa.to_bytes(2, "big") + da.to_bytes(2, "big") + bytes((npdu_len,)) + tpdu


# ---------------------------------------------------------------------------
# specification / recorded vectors

#: AN158 v07 KNX Data Security, Annex A example (tool key 00..0F), as quoted in
#: /repo/test/secure_tests/data_secure_test.py::fixture_test_point_to_point_cemi
AN158_FRAME = bytes.fromhex(
    "29 00 b0 60 ff 67 ff 00 22 03 f1 90 00 00 00 00"
    "00 04 67 67 24 2a 23 08 ca 76 a1 17 74 21 4e e4"
    "cf 5d 94 90 9f 74 3d 05 0d 8f c1 68"
)
AN158_KEY = bytes(range(16))
AN158_PLAIN = bytes.fromhex("03d705351001") + bytes(range(0x20, 0x30))

#: Frame recorded from ETS (4.0.9 -> 0/4/0, GroupValueResponse 74 29 29, seq 155806854986), key of GA 0/4/0 in
#: /repo/test/secure_tests/resources/SecureTest.knxkeys (password "test"),
#: /repo/test/secure_tests/data_secure_test.py::fixture_test_group_response_cemi
ETS_FRAME = bytes.fromhex("29003ce0400904001103f110002446cfef4ac085e7092ab062b44d")
ETS_KEY = bytes.fromhex("dfdf23a59fbb40404091d1c162087e8b")
ETS_PLAIN = bytes.fromhex("0040742929")

#: Expected encoder outputs of the xknx suite for the same key (data_secure_test.py test_data_secure_group_send*):
#: not independent of xknx, so they are reported but do not gate the oracle self test.
SUITE_SEND = [
    # (L_Data octets from Ctrl1, plain apdu)
    (bytes.fromhex("bce0500104000e03f11000254ae1cb67cd184afe5744"), bytes.fromhex("0000")),
    (bytes.fromhex("3ce0500104001103f11000254ae1cb67cd98e577b519be47bb"), bytes.fromhex("0080ff0005")),
]


def split_ldata(frame: bytes) -> dict[str, object]:
    """Take a secured cEMI L_Data frame apart (no xknx code)."""
    assert frame[1] == 0
    ctrl1, ctrl2 = frame[2], frame[3]
    sa, da = frame[4:6], frame[6:8]
    npdu_len = frame[8]
    tpdu = frame[9:]
    assert len(tpdu) == npdu_len + 1
    assert tpdu[0] & 0x03 == 0x03 and tpdu[1] == 0xF1
    return {
        "ctrl1": ctrl1,
        "ctrl2": ctrl2,
        "sa": sa,
        "da": da,
        "at": ctrl2 >> 7,
        "eff": ctrl2 & 0x0F,
        "tpci_octet": tpdu[0] & 0xFC,
        "scf": tpdu[2],
        "body": tpdu[3:],
    }


def self_test() -> list[str]:
    """Re-check the reference against the vectors. Returns the list of failures."""
    fails: list[str] = []
    for name, frame, key, plain in (
        ("AN158-annexA", AN158_FRAME, AN158_KEY, AN158_PLAIN),
        ("ETS-recorded-group-response", ETS_FRAME, ETS_KEY, ETS_PLAIN),
    ):
        f = split_ldata(frame)
        got = open_asdu(key, f["scf"], f["body"], f["sa"], f["da"], f["at"], f["eff"], f["tpci_octet"])  # type: ignore[arg-type]
        if got != plain:
            fails.append(f"{name}: open -> {None if got is None else got.hex()} expected {plain.hex()}")
            continue
        seq = int.from_bytes(f["body"][:6], "big")  # type: ignore[index]
        again = asdu(key, plain, f["scf"], seq, f["sa"], f["da"], f["at"], f["eff"], f["tpci_octet"])  # type: ignore[arg-type]
        if again != f["body"]:
            fails.append(f"{name}: re-encryption differs")
        # any other key / a flipped MAC bit must not verify
        if open_asdu(bytes(16), f["scf"], f["body"], f["sa"], f["da"], f["at"], f["eff"], f["tpci_octet"]) is not None:  # type: ignore[arg-type]
            fails.append(f"{name}: verifies with a wrong key")
        bad = bytearray(f["body"])  # type: ignore[arg-type]
        bad[-1] ^= 1
        if open_asdu(key, f["scf"], bytes(bad), f["sa"], f["da"], f["at"], f["eff"], f["tpci_octet"]) is not None:  # type: ignore[arg-type]
            fails.append(f"{name}: verifies with a flipped MAC bit")
    # builder reproduces both complete frames octet for octet
    # (the Annex A example keeps the standard Frame Type bit on a long frame: copy Ctrl1 as printed)
    built = secure_ldata(
        AN158_KEY, AN158_PLAIN, scf=0x90, seq=4, sa=0xFF67, da=0xFF00, group=False, ctrl1=0xB0, hop_count=6, set_frame_type=False
    )
    if built != AN158_FRAME:
        fails.append("AN158-annexA: frame builder differs")
    built = secure_ldata(ETS_KEY, ETS_PLAIN, scf=0x10, seq=155806854986, sa=0x4009, da=0x0400, group=True, ctrl1=0x3C, hop_count=6)
    if built != ETS_FRAME:
        fails.append("ETS-recorded: frame builder differs")
    return fails


def suite_vectors_agree() -> int:
    """Number of xknx-suite encoder expectations the reference reproduces (informational)."""
    n = 0
    for ldata, plain in SUITE_SEND:
        f = split_ldata(b"\x11\x00" + ldata)
        if open_asdu(ETS_KEY, f["scf"], f["body"], f["sa"], f["da"], f["at"], f["eff"], f["tpci_octet"]) == plain:  # type: ignore[arg-type]
            n += 1
    return n
