#!/bin/bash
# usage: tools/mutcheck.sh <patch> [prop] [tier]
# Applies <patch> to a scratch worktree of /repo HEAD, runs the property's check against it
# (evidence redirected), prints the verdict, removes the worktree.  Exit 0 = check caught it (rc 1).
P=$(readlink -f "$1"); B=$(basename "$P"); PROP=${2:-${B%%-*}}; TIER=${3:-quick}
WT=$(mktemp -d /tmp/mut.XXXXXX); rmdir "$WT"
git -C /repo worktree add --detach "$WT" HEAD -q || exit 3
if ! git -C "$WT" apply "$P" 2>/dev/null && ! (cd "$WT" && patch -p1 -s < "$P"); then echo "$B: PATCH DOES NOT APPLY"; git -C /repo worktree remove --force "$WT"; exit 3; fi
SUITE=""
if [ -n "$WITH_SUITE" ]; then SUITE=$(/verif/tools/repotest.sh "$WT" | head -1); fi
OUTD=$(mktemp -d /tmp/mutout.XXXXXX)
cd /verif && XKNX_SRC="$WT" VERIF_OUT="$OUTD" PYTHONHASHSEED=0 timeout 900 /venv/bin/python -m vlib.run "$PROP" --tier "$TIER" > "$OUTD/log" 2>&1; RC=$?
MECH=$(grep -m3 -B1 '^VIOLATION' "$OUTD/log" | grep -v '^VIOLATION' | grep -v '^--' | cut -c1-160 | head -2 | tr '\n' '|')
echo "$B: prop=$PROP rc=$RC ${SUITE:+suite[$SUITE]} $MECH"
git -C /repo worktree remove --force "$WT"; rm -rf "$OUTD"
[ $RC -eq 1 ]
