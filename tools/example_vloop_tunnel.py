import sys, asyncio, time
sys.path.insert(0, __import__('os').environ.get('XKNX_SRC','/repo')); sys.path.insert(0,'/verif')
from vlib.vloop import new_loop, Deadlock
from xknx import XKNX
from xknx.io.tunnel import UDPTunnel
from xknx.knxip import *
from xknx.cemi import CEMIFrame, CEMILData, CEMIMessageCode
from xknx.telegram import Telegram, GroupAddress, IndividualAddress
from xknx.telegram.apci import GroupValueWrite
from xknx.dpt import DPTArray

loop = new_loop()
def gateway(tr, data, addr):
    frame,_ = KNXIPFrame.from_knx(data)
    b = frame.body
    if isinstance(b, ConnectRequest):
        resp = ConnectResponse(communication_channel=7, status_code=ErrorCode.E_NO_ERROR, data_endpoint=HPAI("10.0.0.2",3671), crd=ConnectResponseData(request_type=ConnectRequestType.TUNNEL_CONNECTION, individual_address=IndividualAddress("1.1.9")))
        tr.deliver_later(0.01, KNXIPFrame.init_from_body(resp).to_knx())
    elif isinstance(b, TunnellingRequest):
        tr.deliver_later(0.01, KNXIPFrame.init_from_body(TunnellingAck(communication_channel_id=b.communication_channel_id, sequence_counter=b.sequence_counter)).to_knx())
    elif isinstance(b, ConnectionStateRequest):
        tr.deliver_later(0.01, KNXIPFrame.init_from_body(ConnectionStateResponse(communication_channel_id=b.communication_channel_id)).to_knx())
    elif isinstance(b, DisconnectRequest):
        tr.deliver_later(0.01, KNXIPFrame.init_from_body(DisconnectResponse(communication_channel_id=b.communication_channel_id)).to_knx())
loop.on_send = gateway
async def main():
    xknx = XKNX()
    got=[]
    t = UDPTunnel(xknx, cemi_received_callback=got.append, gateway_ip="10.0.0.2", gateway_port=3671, local_ip="10.0.0.1")
    await t.connect()
    tg = Telegram(destination_address=GroupAddress("1/2/3"), payload=GroupValueWrite(DPTArray((1,2))))
    cemi = CEMIFrame(code=CEMIMessageCode.L_DATA_REQ, data=CEMILData.init_from_telegram(tg, src_addr=IndividualAddress("1.1.9")))
    for i in range(3): await t.send_cemi(cemi)
    await asyncio.sleep(200)
    await t.disconnect()
w=time.time()
loop.run(main())
print("vtime", loop.time()-1000, "wall", time.time()-w, "frames", len(loop.wire), "exc", loop.exceptions)
for t_, d, data, addr, tr in loop.wire: print(round(t_-1000,3), d, KNXIPFrame.from_knx(data)[0].body.__class__.__name__)
print("leaked", loop.finish())
