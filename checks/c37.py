"""C37 device registry: index == naive scan, dispatch exactly once in registration order, refused ops change nothing."""

from __future__ import annotations

import asyncio
import inspect
import random

from xknx import devices as D
from xknx.devices import Device
from xknx.dpt import DPTArray, DPTBinary
from xknx.telegram import Telegram
from xknx.telegram.address import GroupAddress, InternalGroupAddress, parse_device_group_address
from xknx.telegram.apci import GroupValueRead, GroupValueResponse, GroupValueWrite

from vlib.core_harness import (
    ProbeDevice,
    bounded,
    fake,
    inject_incoming,
    make_xknx,
    queue_outgoing,
    run_case,
    watch_device_process,
)

LEVEL = "exploration"
TECHNIQUE = (
    "runtime monitor: add/remove/re-add histories over every device class on a real XKNX; after each operation the registry's "
    "index is compared with a naive scan of the reference registration list, Device.process (wrapped at class level) is compared "
    "with that scan for every telegram the real queue processes, refused operations are compared by deep snapshot"
)
LEVEL_TEXT = (
    "Histories of 10-40 operations {add new device of a random class with random address kwargs from a 10-address pool (plain, "
    "passive lists, internal), add an already registered device, remove, remove an unregistered one, re-add, dispatch a burst of "
    "incoming/outgoing telegrams with arbitrary wire-valid payloads} before and after XKNX.start(). Exploration: histories are sampled."
)
LEVEL_NOTE = (
    "Trusted: Device.has_group_address as the naive scan (cross-checked against the addresses the harness configured). Judged: "
    "iteration order/len/contains of the registry, devices_by_group_address == scan for every pool address after every operation, "
    "process-call list per telegram == scan (a dispatch cut short because a device class raised is reported with its own mechanism), "
    "refused add/remove raise and leave registry, index, device callbacks and state-updater registrations unchanged; after an add "
    "that fails half way (sync_state=' ' makes the tracker parser raise) the registry is unchanged or fully consistent (what it lists "
    "is indexed); a later device of the address removed from an earlier device's device_updated callback during dispatch does not "
    "process that telegram (self-removal / removal of an earlier device shifts the live list: not generated)."
)
SHARDS = {"quick": 1, "thorough": 16}
TIMEOUT = {"quick": 300, "thorough": 3000}

CLASSES = ["BinarySensor", "Climate", "ClimateMode", "Cover", "DateDevice", "DateTimeDevice", "TimeDevice", "ExposeSensor",
           "Fan", "Light", "Notification", "NumericValue", "RawValue", "Scene", "Sensor", "Switch", "Weather"]
POOL = ["1/0/1", "1/0/2", "1/0/3", "1/1/1", "2/3/4", "2/3/5", "31/7/255", "0/0/1", "i-one", "i-two"]
VALUE_TYPES = {"Sensor": ("temperature", "percent", "pulse_2byte", "string"), "NumericValue": ("temperature", "percent", "pulse_2byte"),
               "ExposeSensor": ("temperature", "binary", "string", "percent"), "Notification": (None, "string", "latin_1")}


class NotifyingProbe(ProbeDevice):
    """User-defined device that reports every processed write through the device_updated callbacks."""

    def process_group_write(self, telegram):  # type: ignore[override]
        super().process_group_write(telegram)
        self.after_update()


def address_kwargs(cls) -> list[str]:
    return [p for p in inspect.signature(cls.__init__).parameters if p.startswith("group_address")]


def gen_device_spec(rng: random.Random, allow_mode: bool = True) -> dict:
    name = rng.choice(CLASSES)
    cls = getattr(D, name)
    keys = address_kwargs(cls)
    chosen = rng.sample(keys, rng.randint(1, min(4, len(keys))))
    kwargs = {}
    for k in chosen:
        a = rng.choice(POOL)
        r = rng.random()
        if r < 0.2:
            kwargs[k] = [a] + [rng.choice(POOL) for _ in range(rng.randint(1, 2))]
        elif r < 0.25:
            kwargs[k] = [None, rng.choice(POOL)]
        else:
            kwargs[k] = a
    extra = {}
    if name in VALUE_TYPES:
        extra["value_type"] = rng.choice(VALUE_TYPES[name])
    if name == "RawValue":
        extra["payload_length"] = rng.choice((0, 1, 2))
    if name in ("DateDevice", "DateTimeDevice", "TimeDevice"):
        extra["localtime"] = rng.random() < 0.5
    if name in ("Switch", "NumericValue", "RawValue", "Notification", "DateDevice", "DateTimeDevice", "TimeDevice"):
        extra["respond_to_read"] = rng.random() < 0.3
    if name == "BinarySensor" and rng.random() < 0.3:
        extra["reset_after"] = 1.0
    mode = None
    if name == "Climate" and allow_mode and rng.random() < 0.6:
        mode = gen_device_spec(random.Random(rng.random()), allow_mode=False)
        while mode["cls"] != "ClimateMode":
            mode = gen_device_spec(random.Random(rng.random()), allow_mode=False)
    sync = rng.choice((False, False, True, "init"))
    return {"cls": name, "kwargs": kwargs, "extra": extra, "mode": mode, "sync_state": sync}


def build(xknx, spec: dict, idx: int):
    cls = getattr(D, spec["cls"])
    kw = dict(spec["kwargs"])
    kw.update(spec["extra"])
    if "sync_state" in inspect.signature(cls.__init__).parameters:
        kw["sync_state"] = spec["sync_state"]
    mode_dev = None
    if spec.get("mode"):
        mode_dev = build(xknx, spec["mode"], idx)[0]
        kw["mode"] = mode_dev
    dev = cls(xknx, f"{spec['cls']}{idx}", **kw)
    addrs = set()
    for k, v in spec["kwargs"].items():
        if k == "group_address_state" and spec["extra"].get("localtime"):
            continue  # documented: the state address is ignored with localtime=True
        for a in v if isinstance(v, list) else [v]:
            if a is not None:
                addrs.add(parse_device_group_address(a))
    if spec.get("mode"):
        for v in spec["mode"]["kwargs"].values():
            for a in v if isinstance(v, list) else [v]:
                if a is not None:
                    addrs.add(parse_device_group_address(a))
    return dev, addrs, mode_dev


def gen_case(rng: random.Random) -> dict:
    ops = []
    start_at = rng.randint(0, 8)
    for i in range(rng.randint(10, 40)):
        k = rng.choices(("add", "add_dup", "remove", "remove_unreg", "readd", "dispatch", "reentrant", "add_failing"),
                        (30, 10, 14, 8, 12, 26, 5, 4))[0]
        op = {"op": k, "pick": rng.randrange(1 << 16)}
        if k == "add":
            op["spec"] = gen_device_spec(rng)
            op["also_mode"] = rng.random() < 0.5
        if k == "dispatch":
            op["telegrams"] = [
                (rng.random() < 0.4, rng.choice(POOL), rng.choice(("write", "response", "read")),
                 rng.choice(("b", "a")), [rng.randrange(256) for _ in range(rng.choice((1, 1, 2, 2, 3, 4, 6, 8, 14)))])
                for _ in range(rng.randint(1, 8))
            ]
        ops.append(op)
    ops.append({"op": "dispatch", "pick": 0, "telegrams": [(False, a, "write", "a", [1]) for a in POOL]})
    return {"ops": ops, "start_at": start_at}


def _addr(a: str):
    return InternalGroupAddress(a) if a.startswith("i-") else GroupAddress(a)


def snapshot(xknx, all_devs, pool_addrs):
    return (
        [id(d) for d in xknx.devices],
        len(xknx.devices),
        [[id(d) for d in xknx.devices.devices_by_group_address(a)] for a in pool_addrs],
        [(id(d), [id(cb.__self__) if hasattr(cb, "__self__") else id(cb) for cb in d.device_updated_cbs]) for d in all_devs],
        sorted(xknx.state_updater._workers),  # noqa: SLF001
        sorted(id(t) for t in xknx.task_registry.tasks),
    )


def run_one(ctx, case_seed: str) -> None:
    rng = random.Random(case_seed)
    case = gen_case(rng)
    pool_addrs = [_addr(a) for a in POOL]
    wit = {"case_seed": case_seed}
    trace: list = []  # history for the witness

    async def main(loop):
        xknx = make_xknx()
        registered: list[Device] = []  # reference registration order
        removed: list[Device] = []
        all_devs: list[Device] = []
        conf: dict[int, set] = {}
        started = False
        keyof: dict[int, int] = {}
        keep = []
        seq = 0

        def scan(a):
            return [d for d in registered if d.has_group_address(a)]

        def check_index(after: str) -> None:
            ctx.ev()
            if [id(d) for d in xknx.devices] != [id(d) for d in registered] or len(xknx.devices) != len(registered):
                ctx.violation("registry-iteration-differs-from-registration-list", dict(wit, after=after, trace=trace),
                              f"iteration over the registry differs from the registration list after {after}")
            for d in all_devs:
                if (d in xknx.devices) != any(d is x for x in registered):
                    ctx.violation("registry-contains-wrong", dict(wit, after=after, device=d.name, trace=trace),
                                  f"`{d.name} in devices` is wrong after {after}")
            for a in pool_addrs:
                got = list(xknx.devices.devices_by_group_address(a))
                exp = scan(a)
                ctx.count("index_lookups_checked")
                if exp:
                    ctx.count("index_lookups_nonempty")
                if len(exp) > 1:
                    ctx.count("index_lookups_shared_address")
                if [id(d) for d in got] != [id(d) for d in exp]:
                    if sorted(id(d) for d in got) == sorted(id(d) for d in exp):
                        mech = "index-order-differs-from-registration-order"
                    elif len(got) > len(exp):
                        mech = "index-lists-unregistered-or-duplicate-device"
                    else:
                        mech = "index-misses-registered-device"
                    ctx.violation(mech + "-after-" + after.split(":")[0], dict(wit, after=after, address=str(a), expected=[d.name for d in exp],
                                                                              got=[d.name for d in got], trace=trace),
                                  f"devices_by_group_address({a}) = {[d.name for d in got]}, naive scan = {[d.name for d in exp]} after {after}")
                conf_exp = [d for d in registered if a in conf[id(d)]]
                if [id(d) for d in conf_exp] != [id(d) for d in exp]:
                    ctx.count("has_group_address_disagrees_with_configuration_recorded")

        for n_op, op in enumerate(case["ops"]):
            if n_op == case["start_at"] and not started:
                await xknx.start()
                started = True
                ctx.count("started_midway")
            k = op["op"]
            if k == "add":
                dev, addrs, mode_dev = build(xknx, op["spec"], len(all_devs))
                news = [(dev, addrs)]
                if mode_dev is not None and op["also_mode"]:
                    news.append((mode_dev, {a for a in pool_addrs if mode_dev.has_group_address(a)}))
                for d, ad in news:
                    all_devs.append(d)
                    conf[id(d)] = ad
                    xknx.devices.async_add(d)
                    registered.append(d)
                    trace.append(("add", d.name, sorted(str(a) for a in ad)))
                    ctx.count("adds")
                    ctx.count("add_" + type(d).__name__)
                    check_index("add:" + type(d).__name__)
            elif k == "readd" and removed:
                d = removed.pop(op["pick"] % len(removed))
                xknx.devices.async_add(d)
                registered.append(d)
                trace.append(("readd", d.name))
                ctx.count("readds")
                check_index("readd:" + type(d).__name__)
            elif k == "remove" and registered:
                d = registered.pop(op["pick"] % len(registered))
                xknx.devices.async_remove(d)
                if not d.name.startswith("Failing"):
                    removed.append(d)  # (a device whose add fails is not offered for re-adding)
                trace.append(("remove", d.name))
                ctx.count("removes")
                check_index("remove:" + type(d).__name__)
            elif k in ("add_dup", "remove_unreg"):
                cands = registered if k == "add_dup" else removed
                if not cands and k == "remove_unreg":
                    d, ad, _m = build(xknx, gen_device_spec(random.Random(op["pick"]), allow_mode=False), 900 + n_op)
                    conf[id(d)] = ad
                    all_devs.append(d)
                    removed.append(d)
                    cands = removed
                if not cands:
                    continue
                d = cands[op["pick"] % len(cands)]
                before = snapshot(xknx, all_devs, pool_addrs)
                raised = None
                try:
                    (xknx.devices.async_add if k == "add_dup" else xknx.devices.async_remove)(d)
                except Exception as exc:  # noqa: BLE001  "raises an error"
                    raised = type(exc).__name__
                after = snapshot(xknx, all_devs, pool_addrs)
                trace.append((k, d.name, raised))
                ctx.ev()
                ctx.count("refused_" + k)
                if raised is None:
                    ctx.violation(f"{k}-not-refused", dict(wit, device=d.name, trace=trace),
                                  f"{'adding an already registered' if k == 'add_dup' else 'removing an unregistered'} device did not raise")
                    # keep the reference in step with what the registry now claims, then stop judging this history
                    return
                if before != after:
                    names = ("iteration", "len", "index", "device_updated_cbs", "state_updater", "tasks")
                    diff = [names[i] for i in range(len(before)) if before[i] != after[i]]
                    ctx.violation(f"refused-{k}-changed-" + "+".join(diff), dict(wit, device=d.name, changed=diff, trace=trace),
                                  f"refused {k} of {d.name} changed {diff}")
                check_index(k + ":" + type(d).__name__)
            elif k == "add_failing":
                # an add that fails half way for a real reason: sync_state=" " makes the tracker option parser raise while the
                # device registers with the state updater.  Afterwards the registry must be unchanged or fully consistent.
                a = POOL[op["pick"] % 8]
                d = D.Switch(xknx, f"Failing{len(all_devs)}", group_address_state=a, sync_state=" ")
                all_devs.append(d)
                conf[id(d)] = {parse_device_group_address(a)}
                raised = None
                try:
                    xknx.devices.async_add(d)
                except Exception as exc:  # noqa: BLE001
                    raised = type(exc).__name__
                ctx.count("failed_adds" if raised else "failing_add_did_not_raise_recorded")
                if d in xknx.devices:
                    registered.append(d)  # the registry claims it: then it must be indexed like any other device
                    ctx.count("failed_add_left_device_registered")
                else:
                    removed.append(d)
                trace.append(("add_failing", d.name, raised))
                check_index("add_failing:Switch")
            elif k in ("dispatch", "reentrant"):
                if not started:
                    await xknx.start()
                    started = True
                telegrams = op.get("telegrams")
                reentrant_cb = None
                if k == "reentrant":
                    # an earlier device's device_updated callback removes a LATER device of the same address during dispatch
                    a = POOL[op["pick"] % len(POOL)]
                    probe = NotifyingProbe(xknx, f"Probe{len(all_devs)}", [_addr(a)])
                    all_devs.append(probe)
                    conf[id(probe)] = {_addr(a)}
                    xknx.devices.async_add(probe)
                    registered.append(probe)
                    trace.append(("add", probe.name, [a]))
                    later = [d for d in registered if d is not probe and d.has_group_address(_addr(a)) and not d.name.startswith("Failing")]
                    if later:
                        victim = later[(op["pick"] >> 4) % len(later)]
                        xknx.devices.async_remove(victim)
                        registered.remove(victim)
                        xknx.devices.async_add(victim)
                        registered.append(victim)
                        trace.append(("remove+readd", victim.name))
                    else:
                        victim = D.Switch(xknx, f"Victim{len(all_devs)}", group_address=a, sync_state=False)
                        all_devs.append(victim)
                        conf[id(victim)] = {parse_device_group_address(a)}
                        xknx.devices.async_add(victim)
                        registered.append(victim)
                        trace.append(("add", victim.name, [a]))
                    check_index("reentrant-setup")
                    # let the reads that the (re-)added devices' trackers put on the queue right away go through first
                    for _ in range(6):
                        await asyncio.sleep(0)
                    await bounded(xknx.join(), 10000.0)
                    armed = [True]

                    def reentrant_cb(dev, probe=probe, victim=victim, armed=armed):
                        if dev is probe and armed[0]:
                            armed[0] = False
                            xknx.devices.async_remove(victim)
                            registered.remove(victim)
                            removed.append(victim)
                            trace.append(("remove-from-device-callback", victim.name))
                            ctx.count("later_device_removed_from_an_earlier_devices_callback")

                    xknx.devices.register_device_updated_cb(reentrant_cb)
                    telegrams = [(False, a, "write", "b", [1])]
                injected = []
                with watch_device_process() as plog:
                    n_ho = len(fake(xknx).handoffs)
                    for outgoing, a, pk, vk, data in telegrams:
                        seq += 1
                        value = DPTBinary(data[0] & 0x3F) if vk == "b" else DPTArray(tuple(data))
                        p = GroupValueWrite(value) if pk == "write" else GroupValueResponse(value) if pk == "response" else GroupValueRead()
                        t = Telegram(destination_address=_addr(a), payload=p)
                        keep.append(t)
                        injected.append((t, a))
                        if outgoing:
                            queue_outgoing(xknx, t)
                        else:
                            inject_incoming(xknx, t)
                    ok, _ = await bounded(xknx.join(), 10000.0)
                    if not ok:
                        ctx.violation("queue-stalled-during-dispatch", dict(wit, trace=trace), "join() did not return")
                        return
                # group the process log by telegram (payload identity survives cEMI conversion)
                by_tg: dict[int, list] = {}
                tg_addr: dict[int, object] = {}
                for (_tm, d, t, exc) in plog.calls:
                    by_tg.setdefault(id(t.payload), []).append((d, exc))
                    tg_addr[id(t.payload)] = t.destination_address
                    keep.append(t)
                for t, _a in injected:
                    tg_addr.setdefault(id(t.payload), t.destination_address)
                for h in fake(xknx).handoffs[n_ho:]:
                    if h.telegram is not None and h.telegram.payload is not None:
                        tg_addr.setdefault(id(h.telegram.payload), h.telegram.destination_address)
                        keep.append(h.telegram)
                injected_ids = {id(t.payload) for t, _a in injected}
                for pid, a in tg_addr.items():
                    ctx.ev()
                    if not isinstance(a, (GroupAddress, InternalGroupAddress)):
                        continue
                    exp = scan(a)
                    got = by_tg.get(pid, [])
                    if reentrant_cb is not None and pid not in injected_ids:
                        ctx.count("other_telegrams_during_reentrant_dispatch_not_judged")
                        continue  # processed before or after the removal: its expectation depends on when
                    ctx.count("telegrams_dispatched")
                    if pid not in injected_ids:
                        ctx.count("telegrams_generated_by_devices")
                    if [id(d) for d, _e in got] == [id(d) for d in exp]:
                        ctx.count("dispatch_lists_equal")
                        if len(exp) > 1:
                            ctx.count("dispatch_to_several_devices")
                        for d, e in got:
                            if e:
                                ctx.count("device_raised_recorded_" + type(d).__name__ + "_" + e)
                        continue
                    w = dict(wit, address=str(a), expected=[d.name for d in exp], got=[(d.name, e) for d, e in got], trace=trace)
                    gids = [id(d) for d, _e in got]
                    if got and got[-1][1] and gids == [id(d) for d in exp][: len(gids)]:
                        d, e = got[-1]
                        ctx.violation(f"dispatch-cut-short-by-{type(d).__name__}-raising-{e}", w,
                                      f"telegram to {a}: {type(d).__name__} raised {e}, the later devices {[x.name for x in exp[len(gids):]]} never saw it")
                    elif sorted(gids) == sorted(id(d) for d in exp):
                        ctx.violation("dispatch-order-differs-from-registration-order", w, f"telegram to {a} dispatched in the wrong order")
                    elif len(set(gids)) < len(gids):
                        ctx.violation("device-processed-telegram-twice", w, f"telegram to {a}: a device processed it more than once")
                    elif set(gids) - {id(d) for d in exp} and reentrant_cb is not None:
                        ctx.violation("device-removed-before-its-turn-still-processed-telegram", w,
                                      f"telegram to {a}: a device removed from an earlier device's callback during dispatch still processed it")
                    elif set(gids) - {id(d) for d in exp}:
                        ctx.violation("telegram-dispatched-to-wrong-device", w, f"telegram to {a} reached a device that is not registered for it")
                    else:
                        ctx.violation("registered-device-missed-telegram", w, f"telegram to {a}: devices {[d.name for d in exp]} expected, got {[d.name for d, _ in got]}")
                trace.append(("dispatch", len(telegrams)))
                if reentrant_cb is not None:
                    xknx.devices.unregister_device_updated_cb(reentrant_cb)
                    check_index("reentrant-remove")
        if started:
            ok, _ = await bounded(xknx.stop(), 10000.0)
            if not ok:
                ctx.count("stop_stalled_recorded")
        xknx.started.clear()

    res = run_case(main, max_vtime=1e6)
    if res.error or res.deadlock or res.budget:
        ctx.violation("history-aborted", dict(wit, error=res.error, deadlock=res.deadlock, budget=res.budget, trace=trace),
                      f"history aborted: {res.error} deadlock={res.deadlock} budget={res.budget}")
    kinds = "".join(t[0][0] if t[0] != "readd" else "R" for t in trace)
    ctx.distinct((kinds[:24], tuple(t[1][:4] for t in trace if t[0] == "add")[:6]))
    ctx.sample({"history": [list(t) if t[0] != "add" else [t[0], t[1], t[2][:4]] for t in trace[:10]]}, cap=4)


def run(ctx):
    ctx.rule = ("history = 10-40 operations over devices of all 17 classes with address kwargs drawn from a 10-address pool; distinct = "
                "(operation-kind string, first device classes)")
    ctx.require("adds", "readds", "removes", "refused_add_dup", "refused_remove_unreg", "index_lookups_shared_address",
                "dispatch_lists_equal", "dispatch_to_several_devices", "telegrams_generated_by_devices", "started_midway",
                "later_device_removed_from_an_earlier_devices_callback", "failed_adds",
                *("add_" + c for c in CLASSES))
    n = ctx.scale(1200, 96000)
    for i in range(n):
        if ctx.mine(i):
            run_one(ctx, f"C37/{ctx.seed}/{i}")


def replay(ctx, witness):
    ctx.rule = "replay of one recorded case"
    run_one(ctx, witness["case_seed"])
    ctx.distinct("replay-a")
    ctx.distinct("replay-b")
