"""C03 TPCI: all 256 control octets x destination kinds through the real resolve / to_knx."""

from __future__ import annotations

from xknx.cemi.cemi_frame import CEMILData
from xknx.telegram.address import GroupAddress, GroupAddressType, IndividualAddress
from xknx.telegram.apci import GroupValueRead, IndividualAddressRead
from xknx.exceptions import ConversionError, CouldNotParseCEMI, UnsupportedCEMIMessage
from xknx.telegram import tpci as tpci_mod
from xknx.telegram.tpci import TPCI

LEVEL = "exploration"
TECHNIQUE = (
    "runtime monitor: exhaustive octet x destination-kind enumeration of the real TPCI.resolve / to_knx "
    "(directly and through CEMILData.from_knx / to_knx), decided by re-encoding equality and an independent "
    "table of the defined TPDU codings"
)
LEVEL_TEXT = (
    "All 256 octets x {individual, individual 0.0.0, group != 0, group 0 (broadcast)} are decoded by the real TPCI.resolve and, "
    "inside minimal L_Data frames, by the real CEMILData.from_knx; every returned PDU is re-encoded. All 54 constructible PDUs "
    "(6 unnumbered + 3 numbered classes x sequence numbers 0..15) are encoded and decoded back for their destination kind. "
    "Everything runs under the three group address notations (GroupAddress.address_format set by the harness, restored), and every "
    "constructible PDU also travels through a real CEMILData frame for its destination kind. The finite space is completed (exhaustive)."
)
LEVEL_NOTE = (
    "Trusted: CPython, my table of the defined codings (KNX 03_03_04 Transport Layer section 2: 000000xx data group/broadcast/individual, "
    "000001xx tag group (group destinations only), 01SSSSxx connected data, 10000000 connect, 10000001 disconnect, 11SSSS10 ack, "
    "11SSSS11 nak; the connection-oriented codes only for individual destinations). Judged: exception class of a rejection "
    "(ConversionError), re-encoding equality on the transport bits (all 8 for control PDUs, upper 6 for data PDUs), "
    "undefined codes accepted, encode->decode of every constructible PDU with sequence number 0..15; a decode is independent of what a consumer "
    "did to the object returned by an earlier decode of the same octet (attributes changed, then decoded again, directly and through cEMI). "
    "Not judged (recorded): defined data codes with non-zero APCI bits that are rejected, PDUs built with sequence numbers "
    "outside 0..15, which APCI follows in the cEMI frame."
)

KINDS = (
    # name, dst_is_group_address, dst_is_zero, statement kind
    ("individual", False, False, "individual"),
    ("individual0", False, True, "individual"),
    ("group", True, False, "group"),
    ("broadcast", True, True, "broadcast"),
)


def ref_decode(octet: int, kind: str):
    """Defined TPDU codings, written from the Transport Layer coding table. None = undefined."""
    top2 = octet >> 6
    seq = (octet >> 2) & 0xF
    low2 = octet & 3
    if kind in ("group", "broadcast"):
        if top2 == 0 and seq == 0:
            return ("TDataBroadcast" if kind == "broadcast" else "TDataGroup", 0)
        if top2 == 0 and seq == 1:
            return ("TDataTagGroup", 1)
        return None
    if top2 == 0:
        return ("TDataIndividual", 0) if seq == 0 else None
    if top2 == 1:
        return ("TDataConnected", seq)
    if top2 == 2:
        if octet == 0x80:
            return ("TConnect", 0)
        if octet == 0x81:
            return ("TDisconnect", 0)
        return None
    if low2 == 2:
        return ("TAck", seq)
    if low2 == 3:
        return ("TNak", seq)
    return None


def octet_class(octet: int) -> str:
    """Coarse, stable class of an octet for mechanism strings."""
    control = bool(octet & 0x80)
    numbered = bool(octet & 0x40)
    seq = (octet >> 2) & 0xF
    low2 = octet & 3
    if not control:
        if numbered:
            return "data-numbered"
        return "data-unnumbered-seq" + ("0" if seq == 0 else "1" if seq == 1 else "N")
    if numbered:
        return f"control-numbered-flags{low2}"
    return f"control-unnumbered-seq{'0' if seq == 0 else 'N'}-flags{low2}"


def _resolve(octet, is_group, is_zero):
    try:
        return "pdu", TPCI.resolve(octet, is_group, is_zero)
    except ConversionError as exc:
        return "rejected", exc
    except BaseException as exc:  # noqa: BLE001
        return "error", exc


def _judge_pdu(ctx, where, octet, kname, kind, pdu):
    """Oracle 1 + 2 for a PDU returned for `octet`. Returns True when fine."""
    cls = type(pdu).__name__
    wit = {"octet": octet, "octet_bin": f"{octet:08b}", "kind": kname, "decoded": repr(pdu), "where": where}
    mech = f"{where}-{kind}-{octet_class(octet)}-read-as-{cls}"
    try:
        enc = pdu.to_knx()
    except BaseException as exc:  # noqa: BLE001
        wit["exception"] = repr(exc)
        ctx.violation(f"{where}-{kind}-{cls}-to_knx-raises-{type(exc).__name__}", wit,
                      f"{cls}.to_knx() raised {type(exc).__name__} for the PDU decoded from {octet:#04x}")
        return False
    wit["reencoded"] = enc
    if not isinstance(enc, int) or isinstance(enc, bool) or not 0 <= enc <= 255:
        ctx.violation(f"{where}-{kind}-{cls}-to_knx-not-an-octet", wit, f"{cls}.to_knx() returned {enc!r}")
        return False
    mask = 0xFF if pdu.control else 0xFC
    ref = ref_decode(octet, kind)
    if enc & mask != octet & mask:
        ctx.violation(mech, wit,
                      f"octet {octet:#04x} ({octet:08b}) to a {kname} destination decodes to {pdu!r}, which encodes to {enc:#04x}: "
                      f"the transport bits are not reproduced{' (the code is undefined)' if ref is None else ''}")
        return False
    if ref is None:
        ctx.violation(mech, wit,
                      f"octet {octet:#04x} ({octet:08b}) is not a defined TPDU coding for a {kname} destination but is read as {pdu!r}")
        return False
    if ref != (cls, pdu.sequence_number):
        ctx.count("class_differs_from_table_not_judged")
    ctx.count("accepted_and_reencodes")
    return True


def _mutation_probe(ctx, where, octet, kname, kind, pdu, decode_again):
    """Change the attributes of a decoded PDU (as a consumer may), decode the same octet again: the new result must be pristine.

    `decode_again()` returns the TPCI object of a second, independent decode of the same input (or None)."""
    cls = type(pdu).__name__
    before = pdu.sequence_number
    try:
        pdu.sequence_number = (before + 5) & 0xF
    except AttributeError:
        ctx.count("decoded_pdu_without_settable_attributes")
        return
    ctx.count("decoded_pdu_mutated_then_decoded_again")
    ctx.ev()
    again = decode_again()
    ref = ref_decode(octet, kind)
    mask = 0xFF if pdu.control else 0xFC
    ok = again is not None and type(again) is type(pdu) and again.sequence_number == before and again.to_knx() & mask == octet & mask
    if ref is not None and ok:
        ok = (type(again).__name__, again.sequence_number) == ref
    if ok:
        ctx.count("second_decode_pristine")
    else:
        ctx.violation(f"{where}-{kind}-{cls}-second-decode-reflects-mutation-of-earlier-result",
                      {"octet": octet, "octet_bin": f"{octet:08b}", "kind": kname, "where": where, "first_decoded_sequence_number": before,
                       "consumer_set_sequence_number_to": (before + 5) & 0xF, "second_decode": repr(again),
                       "second_reencodes_to": None if again is None else again.to_knx()},
                      f"octet {octet:#04x} ({kname}) decoded to {cls}(seq {before}); after the consumer changed that object's sequence_number the same "
                      f"octet decodes to {again!r}, which encodes to {None if again is None else hex(again.to_knx())}")
    try:   # restore, so that a shared instance does not poison the rest of the sweep
        pdu.sequence_number = before
    except AttributeError:
        pass


NOTATION_NAME = ["LONG"]   # notation in force (set by run), for mechanism strings / witnesses


def _cemi_frame(octet: int, is_group: bool, is_zero: bool, tail: bytes) -> bytes:
    ctrl1 = 0xBC
    ctrl2 = 0xE0 if is_group else 0x60
    dst = b"\x00\x00" if is_zero else (b"\x0a\x03" if is_group else b"\x11\x05")
    return bytes((ctrl1, ctrl2, 0x11, 0x01)) + dst + bytes((len(tail), octet)) + tail


# APCI continuations tried after a data TPCI octet, so that at least one parses for every low-2-bit value
_TAILS = (b"\x00", b"\x80", b"\x01", b"\x00\x01", b"\x41\x00\x10", b"\xd1\x00", b"\xc0", b"\x40", b"\xdc")


def _exhaustive_octets(ctx):
    for kname, is_group, is_zero, kind in KINDS:
        for octet in range(256):
            ctx.ev()
            ctx.count("resolve_calls")
            what, res = _resolve(octet, is_group, is_zero)
            ref = ref_decode(octet, kind)
            if what == "error":
                ctx.violation(f"resolve-{kind}-{octet_class(octet)}-raises-{type(res).__name__}",
                              {"octet": octet, "kind": kname, "exception": repr(res)},
                              f"TPCI.resolve({octet:#04x}, {kname}) raised {type(res).__name__}, neither a rejection nor a PDU")
                outcome = "error"
            elif what == "rejected":
                ctx.count("rejected")
                if ref is not None:
                    ctx.count("defined_code_rejected_not_judged")
                outcome = "rejected"
            else:
                ctx.count("decoded")
                ok = _judge_pdu(ctx, "resolve", octet, kname, kind, res)
                if ok:
                    def _again(octet=octet, is_group=is_group, is_zero=is_zero):
                        what2, res2 = _resolve(octet, is_group, is_zero)
                        return res2 if what2 == "pdu" else None
                    _mutation_probe(ctx, "resolve", octet, kname, kind, res, _again)
                outcome = type(res).__name__ + ("" if ok else "!")
                if octet in (0x00, 0x47, 0xC2) and kname == "individual":
                    ctx.sample({"octet": f"{octet:#04x}", "kind": kname, "decoded": repr(res), "reencoded": f"{res.to_knx():#04x}"})
            ctx.distinct((kname, octet_class(octet), outcome))

            # the same octet inside a minimal L_Data frame through the real cEMI parser
            control_bit = bool(octet & 0x80)
            tails = (b"",) if control_bit else _TAILS
            parsed = None
            for tail in tails:
                raw = _cemi_frame(octet, is_group, is_zero, tail)
                ctx.ev()
                ctx.count("cemi_from_knx_calls")
                try:
                    parsed = CEMILData.from_knx(raw)
                    break
                except UnsupportedCEMIMessage:
                    ctx.count("cemi_unsupported")
                    if what == "rejected":
                        break  # the TPCI is refused whatever follows
                except CouldNotParseCEMI:
                    ctx.count("cemi_could_not_parse")
                except BaseException as exc:  # noqa: BLE001
                    ctx.violation(f"cemi-{kind}-{octet_class(octet)}-raises-{type(exc).__name__}",
                                  {"cemi": raw, "octet": octet, "kind": kname, "exception": repr(exc)},
                                  f"CEMILData.from_knx raised {type(exc).__name__} on TPCI octet {octet:#04x}")
                    break
            if parsed is None:
                if what == "pdu":
                    ctx.count("cemi_no_parsable_apdu_found_not_judged")
                continue
            ctx.count("cemi_decoded")
            pdu = parsed.tpci
            if what == "rejected":
                ctx.violation(f"cemi-{kind}-{octet_class(octet)}-accepted-but-resolve-rejects",
                              {"cemi": raw, "octet": octet, "kind": kname, "decoded": repr(pdu)},
                              f"the cEMI parser accepted TPCI octet {octet:#04x} that TPCI.resolve rejects")
                continue
            if not _judge_pdu(ctx, "cemi", octet, kname, kind, pdu):
                continue
            if what == "pdu" and (type(pdu) is not type(res) or pdu.sequence_number != res.sequence_number):
                ctx.violation(f"cemi-{kind}-destination-decodes-as-{type(pdu).__name__}-instead-of-{type(res).__name__}-{NOTATION_NAME[0]}-notation",
                              {"cemi": raw, "octet": octet, "kind": kname, "notation": NOTATION_NAME[0], "decoded": repr(pdu), "resolve": repr(res)},
                              f"frame {raw.hex()} ({kname} destination, {NOTATION_NAME[0]} notation) decodes to {pdu!r}; "
                              f"TPCI.resolve for that destination kind gives {res!r}")
                continue
            ctx.count("cemi_decoded_class_equals_resolve")

            def _again_cemi(raw=raw):
                try:
                    return CEMILData.from_knx(raw).tpci
                except BaseException:  # noqa: BLE001
                    return None
            _mutation_probe(ctx, "cemi", octet, kname, kind, pdu, _again_cemi)
            try:
                again = parsed.to_knx()
            except BaseException as exc:  # noqa: BLE001
                ctx.violation(f"cemi-{kind}-{type(pdu).__name__}-frame-to_knx-raises-{type(exc).__name__}",
                              {"cemi": raw, "octet": octet, "kind": kname, "exception": repr(exc)},
                              f"re-encoding the frame parsed from {raw.hex()} raised {type(exc).__name__}")
                continue
            mask = 0xFF if pdu.control else 0xFC
            if len(again) < 8 or again[7] & mask != octet & mask:
                ctx.violation(f"cemi-{kind}-{octet_class(octet)}-frame-reencodes-other-tpci",
                              {"cemi": raw, "reencoded": again, "octet": octet, "kind": kname, "decoded": repr(pdu)},
                              f"frame {raw.hex()} re-encodes as {again.hex()}: TPCI bits differ")
            else:
                ctx.count("cemi_frame_reencodes")


def _constructible():
    """Every PDU the library can build, with the destination kinds it is used for."""
    m = tpci_mod
    out = [
        (m.TDataGroup, None, ("group",)),
        (m.TDataBroadcast, None, ("broadcast",)),
        (m.TDataTagGroup, None, ("group",)),
        (m.TDataIndividual, None, ("individual", "individual0")),
        (m.TConnect, None, ("individual", "individual0")),
        (m.TDisconnect, None, ("individual", "individual0")),
    ]
    for cls in (m.TDataConnected, m.TAck, m.TNak):
        for seq in range(16):
            out.append((cls, seq, ("individual", "individual0")))
    return out


def _constructible_through_cemi(ctx):
    """Every PDU the library builds, put into a real CEMILData for its destination kind, serialised and parsed back."""
    src = IndividualAddress("1.1.1")
    dests = {"group": GroupAddress(0x0A03), "broadcast": GroupAddress(0), "individual": IndividualAddress(0x1105), "individual0": IndividualAddress(0)}
    for cls, seq, knames in _constructible():
        name = cls.__name__
        for kname in knames:
            ctx.ev()
            ctx.count("pdu_cemi_roundtrips")
            pdu = cls() if seq is None else cls(sequence_number=seq)
            payload = None if pdu.control else (GroupValueRead() if kname in ("group", "broadcast") else IndividualAddressRead())
            wit = {"pdu": name, "sequence_number": seq, "kind": kname, "notation": NOTATION_NAME[0]}
            try:
                raw = CEMILData(src_addr=src, dst_addr=dests[kname], tpci=pdu, payload=payload).to_knx()
                wit["cemi"] = raw
                back = CEMILData.from_knx(raw).tpci
            except BaseException as exc:  # noqa: BLE001
                wit["exception"] = repr(exc)
                ctx.violation(f"build-{name}-cemi-roundtrip-raises-{type(exc).__name__}-{NOTATION_NAME[0]}-notation", wit,
                              f"{pdu!r} to a {kname} destination through CEMILData raised {type(exc).__name__} ({NOTATION_NAME[0]} notation)")
                continue
            wit["decoded"] = repr(back)
            if _same_pdu(pdu, back):
                ctx.count("pdu_cemi_roundtrip_ok")
                ctx.distinct(("build-cemi", name, kname, seq, NOTATION_NAME[0]))
            else:
                ctx.violation(f"build-{name}-decodes-back-through-cemi-as-{type(back).__name__}-{NOTATION_NAME[0]}-notation", wit,
                              f"{pdu!r} to a {kname} destination is sent as {raw.hex()} and parsed back as {back!r} ({NOTATION_NAME[0]} notation)")


def _same_pdu(a, b) -> bool:
    return type(a) is type(b) and a.sequence_number == b.sequence_number and a == b and b == a


def _constructible_roundtrip(ctx):
    kinds = {k[0]: k for k in KINDS}
    known = {n for n in dir(tpci_mod)
             if isinstance(getattr(tpci_mod, n), type) and issubclass(getattr(tpci_mod, n), TPCI) and getattr(tpci_mod, n) is not TPCI}
    covered = {c.__name__ for c, _s, _k in _constructible()}
    if known != covered:
        ctx.inconclusive(f"TPCI classes in xknx {sorted(known)} differ from the ones this check constructs {sorted(covered)}")
    for cls, seq, knames in _constructible():
        name = cls.__name__
        for kname in knames:
            _n, is_group, is_zero, kind = kinds[kname]
            ctx.ev()
            ctx.count("pdu_roundtrips")
            wit = {"pdu": name, "sequence_number": seq, "kind": kname}
            try:
                pdu = cls() if seq is None else cls(sequence_number=seq)
                enc = pdu.to_knx()
            except BaseException as exc:  # noqa: BLE001
                wit["exception"] = repr(exc)
                ctx.violation(f"build-{name}-raises-{type(exc).__name__}", wit, f"building/encoding {name}({seq}) raised {type(exc).__name__}")
                continue
            wit["encoded"] = enc
            if not isinstance(enc, int) or isinstance(enc, bool) or not 0 <= enc <= 255:
                ctx.violation(f"build-{name}-to_knx-not-an-octet", wit, f"{name}.to_knx() returned {enc!r}")
                continue
            ref = ref_decode(enc, kind)
            if ref != (name, pdu.sequence_number):
                what_code = "undefined-code" if ref is None else ("other-sequence-number" if ref[0] == name else f"code-of-{ref[0]}")
                ctx.violation(f"build-{name}-encodes-to-{what_code}", wit,
                              f"{pdu!r} encodes to {enc:#04x}, which the coding table reads as {ref} for a {kname} destination")
                continue
            what, back = _resolve(enc, is_group, is_zero)
            wit["decoded"] = repr(back)
            if what != "pdu":
                ctx.violation(f"build-{name}-own-encoding-{what}", wit,
                              f"{pdu!r} encodes to {enc:#04x}, which TPCI.resolve refuses for a {kname} destination: {back!r}")
            elif not _same_pdu(pdu, back):
                ctx.violation(f"build-{name}-decodes-back-as-{type(back).__name__}", wit,
                              f"{pdu!r} encodes to {enc:#04x}, which decodes to {back!r} for a {kname} destination")
            else:
                ctx.count("pdu_roundtrip_ok")
                ctx.distinct(("build", name, kname, seq))
    # outside the quantifier: recorded only
    for cls in (tpci_mod.TDataConnected, tpci_mod.TAck, tpci_mod.TNak):
        for seq in (-1, 16, 255):
            try:
                cls(sequence_number=seq).to_knx()
                ctx.count("out_of_range_sequence_number_encoded_not_judged")
            except BaseException:  # noqa: BLE001
                ctx.count("out_of_range_sequence_number_refused_not_judged")


def run(ctx):
    ctx.rule = ("exhaustive: 256 octets x 4 destination kinds (individual, individual 0.0.0, group, broadcast) through TPCI.resolve and through "
                "CEMILData.from_knx; 54 constructible PDUs x their destination kinds, directly and inside real CEMILData frames; all of it under the "
                "LONG, SHORT and FREE group address notation; distinct = (kind, octet class, outcome) and (PDU, kind, seq)")
    ctx.require("resolve_calls", "rejected", "decoded", "accepted_and_reencodes", "cemi_decoded", "cemi_frame_reencodes",
                "pdu_roundtrips", "pdu_roundtrip_ok", "decoded_pdu_mutated_then_decoded_again", "second_decode_pristine",
                "pdu_cemi_roundtrips", "pdu_cemi_roundtrip_ok", "cemi_decoded_class_equals_resolve")
    # self test of the reference table: 4 + 4 + 64 + 2 + 32 defined codes for individual, 8 for group
    n_ind = sum(ref_decode(o, "individual") is not None for o in range(256))
    n_grp = sum(ref_decode(o, "group") is not None for o in range(256))
    if (n_ind, n_grp) != (4 + 64 + 2 + 32, 8):
        ctx.inconclusive(f"reference table self test failed: {n_ind}, {n_grp}")
        return
    saved = GroupAddress.address_format
    try:
        for fmt in (GroupAddressType.LONG, GroupAddressType.SHORT, GroupAddressType.FREE):
            GroupAddress.address_format = fmt
            NOTATION_NAME[0] = fmt.name
            ctx.count("notations_run")
            _exhaustive_octets(ctx)
            _constructible_roundtrip(ctx)
            _constructible_through_cemi(ctx)
    finally:
        GroupAddress.address_format = saved
        NOTATION_NAME[0] = "LONG"
    ctx.exhaustive = True
    ctx.extra["exhaustive_part"] = "(256 octets x 4 destination kinds; 54 PDUs directly and through cEMI frames) x 3 group address notations"


def replay(ctx, witness):
    """Re-run everything (the space is tiny); the witness case is among it."""
    run(ctx)
