"""Reserved-bit masks for application-layer PDUs (DESIGN §3.7), used by C05 / C13.

``mask(cls_name, raw) -> bytes`` of ``len(raw)``: bit = 1 where the KNX
specification *defines* the bit, 0 where it is reserved / don't-care.  The
table is written from the PDU figures of KNX Application Layer 03.03.07 and
Logical Tag Extended 10.01 as cited in the class docstrings of
xknx/telegram/apci.py; it is **not** derived by running the encoder.

Rules common to every service
* octet 0, bits 7..2 belong to the transport layer (TPCI) and are not part of
  the APDU: mask 0x03.
* every other bit is defined unless listed below.

Per-service reserved bits (octet index in the APDU -> AND-mask of defined bits)
* services whose APCI is the full 10 bits and which carry no 6-bit data
  (A_GroupValue_Read, A_IndividualAddress_Read/Response/Write, A_Restart): the
  decoder dispatches on the upper 4 APCI bits only and is deliberately tolerant
  about the lower six; those six bits are don't-care (DESIGN §3.7, §7).  How
  often that tolerance was exercised is *counted* by C05 (`tolerant_code_bits`),
  not judged.
* A_GroupValue_Write / A_GroupValue_Response with more than 6 data bits: the six
  low bits of octet 1 are unused ("shall be 0").
* A_SystemNetworkParameter_Read/Response/Write: low nibble of octet 5 reserved
  (12 bit PID followed by 4 reserved bits).
* A_PropertyExtDescription_Response: bit 6 of octet 13 (w | reserved | PDT).
* A_Authorize_Request: octet 2 is reserved (00h).
* A_PropertyDescription_Response: high nibble of octet 6 (reserved | 12 bit
  max_nr_of_elem).
* A_Link_Read: high nibble of octet 3 (reserved | start_index).
* A_Link_Write: upper six bits of octet 3 (reserved | d | s).
* A_IndividualAddressSerialNumber_Response: octets 10..11 reserved.
* A_IndividualAddressSerialNumber_Write: octets 10..13 reserved.

A class that is not in ``MASKS`` raises KeyError: C05/C13 turn that into
*inconclusive*, so a new service cannot slip through unchecked.
"""

from __future__ import annotations

from collections.abc import Callable

Rule = Callable[[bytes], dict[int, int]]


def _none(_raw: bytes) -> dict[int, int]:
    return {}


def _fixed(**kw: int) -> Rule:
    table = {int(k[1:]): v for k, v in kw.items()}
    return lambda _raw: table


_TOLERANT_CODE = _fixed(o1=0xC0)


def _group_value(raw: bytes) -> dict[int, int]:
    # 6-bit data in octet 1 when the APDU is 2 octets; unused otherwise
    return {} if len(raw) == 2 else {1: 0xC0}


MASKS: dict[str, Rule] = {
    "GroupValueRead": _TOLERANT_CODE,
    "GroupValueWrite": _group_value,
    "GroupValueResponse": _group_value,
    "IndividualAddressWrite": _TOLERANT_CODE,
    "IndividualAddressRead": _TOLERANT_CODE,
    "IndividualAddressResponse": _TOLERANT_CODE,
    "ADCRead": _none,
    "ADCResponse": _none,
    "SystemNetworkParameterRead": _fixed(o5=0xF0),
    "SystemNetworkParameterResponse": _fixed(o5=0xF0),
    "SystemNetworkParameterWrite": _fixed(o5=0xF0),
    "PropertyExtValueRead": _none,
    "PropertyExtValueResponse": _none,
    "PropertyExtValueWriteCon": _none,
    "PropertyExtValueWriteConRes": _none,
    "PropertyExtValueWriteUnCon": _none,
    "PropertyExtValueInfoReport": _none,
    "PropertyExtDescriptionRead": _none,
    "PropertyExtDescriptionResponse": _fixed(o13=0xBF),
    "FunctionPropertyExtCommand": _none,
    "FunctionPropertyExtStateRead": _none,
    "FunctionPropertyExtStateResponse": _none,
    "MemoryExtendedWrite": _none,
    "MemoryExtendedWriteResponse": _none,
    "MemoryExtendedRead": _none,
    "MemoryExtendedReadResponse": _none,
    "MemoryRead": _none,
    "MemoryResponse": _none,
    "MemoryWrite": _none,
    "UserMemoryRead": _none,
    "UserMemoryResponse": _none,
    "UserMemoryWrite": _none,
    "UserMemoryBitWrite": _none,
    "UserManufacturerInfoRead": _none,
    "UserManufacturerInfoResponse": _none,
    "FunctionPropertyCommand": _none,
    "FunctionPropertyStateRead": _none,
    "FunctionPropertyStateResponse": _none,
    "DeviceDescriptorRead": _none,
    "DeviceDescriptorResponse": _none,
    "Restart": _TOLERANT_CODE,
    "RestartMasterReset": _none,
    "RestartMasterResetResponse": _none,
    "FilterTableOpen": _none,
    "FilterTableRead": _none,
    "FilterTableResponse": _none,
    "FilterTableWrite": _none,
    "RouterMemoryRead": _none,
    "RouterMemoryResponse": _none,
    "RouterMemoryWrite": _none,
    "MemoryBitWrite": _none,
    "AuthorizeRequest": _fixed(o2=0x00),
    "AuthorizeResponse": _none,
    "KeyWrite": _none,
    "KeyResponse": _none,
    "PropertyValueRead": _none,
    "PropertyValueResponse": _none,
    "PropertyValueWrite": _none,
    "PropertyDescriptionRead": _none,
    "PropertyDescriptionResponse": _fixed(o6=0x0F),
    "NetworkParameterRead": _none,
    "NetworkParameterResponse": _none,
    "IndividualAddressSerialRead": _none,
    "IndividualAddressSerialResponse": _fixed(o10=0x00, o11=0x00),
    "IndividualAddressSerialWrite": _fixed(o10=0x00, o11=0x00, o12=0x00, o13=0x00),
    "DomainAddressWrite": _none,
    "DomainAddressRead": _none,
    "DomainAddressResponse": _none,
    "DomainAddressSelectiveRead": _none,
    "NetworkParameterWrite": _none,
    "LinkRead": _fixed(o3=0x0F),
    "LinkResponse": _none,
    "LinkWrite": _fixed(o3=0x03),
    "GroupPropValueRead": _none,
    "GroupPropValueResponse": _none,
    "GroupPropValueWrite": _none,
    "GroupPropValueInfoReport": _none,
    "DomainAddressSerialNumberRead": _none,
    "DomainAddressSerialNumberResponse": _none,
    "DomainAddressSerialNumberWrite": _none,
    "FileStreamInfoReport": _none,
    "SecureAPDU": _none,
}

# services decoded tolerantly on the low six APCI bits (counted, not judged)
TOLERANT_CODE_CLASSES = frozenset(
    name for name, rule in MASKS.items() if rule is _TOLERANT_CODE
)


def mask(cls_or_name: object, raw: bytes) -> bytes:
    """Mask of the bits the specification defines for this APDU (1 = defined)."""
    if isinstance(cls_or_name, str):
        name = cls_or_name
    elif isinstance(cls_or_name, type):
        name = cls_or_name.__name__
    else:
        name = type(cls_or_name).__name__
    rule = MASKS[name]  # KeyError -> caller reports inconclusive
    out = bytearray(b"\xff" * len(raw))
    if out:
        out[0] = 0x03
    for index, value in rule(raw).items():
        if index < len(out):
            out[index] &= value
    return bytes(out)


def reserved_bit_count(cls_or_name: object, raw: bytes) -> int:
    """Number of masked-out bits after octet 0 (evidence only)."""
    return sum(8 - bin(b).count("1") for b in mask(cls_or_name, raw)[1:])


def differs(cls_or_name: object, raw: bytes, enc: bytes) -> list[tuple[int, int, int]]:
    """[(octet index, raw octet, encoded octet)] where defined bits differ."""
    m = mask(cls_or_name, raw)
    return [
        (i, raw[i], enc[i])
        for i in range(min(len(raw), len(enc)))
        if (raw[i] ^ enc[i]) & m[i]
    ]
