"""APDU corpora for the application-layer checks (C04, C05, C06) and for the
checks that need *inner* APDUs (C12, C13, C15, C18).

Everything here is written from the KNX specifications (Application Layer
03.03.07, Logical Tag Extended 10.01) as cited in the class docstrings of
xknx/telegram/apci.py -- octet layouts are typed in by hand, never obtained by
running the encoder.  Nothing in this module imports xknx.

Stable API
----------
``canonical_frames()``      -> list[(service class name, valid APDU bytes)]
                               (one or more per service class; TPCI bits zero)
``rejection_classes()``     -> list[(label, APDU bytes)] one per class of
                               malformed / unsupported APDU;
                               ``REJECTION_EXPECT[label]`` is "conversion" or
                               "unsupported"
``structured_apdus(rng, n)``-> iterator of n APDUs (bytes): mutated canonical
                               frames, random codes x hostile lengths/fills
``structured_for_code(code, rng)`` -> iterator over lengths x fills for one
                               10-bit APCI code
``position_sweeps(stride)`` -> iterator: every octet value in every position of
                               every canonical frame
``truncations()``           -> iterator: every prefix / small extension of every
                               canonical frame
``exhaustive(length)``      -> iterator over all APDUs of that length
``apci_code(raw)``          -> the 10-bit APCI of an APDU of >= 2 octets
``recognised(code)``        -> spec service name if the 10-bit code belongs to a
                               service the library claims to decode, else None
"""

from __future__ import annotations

from collections.abc import Iterator
import random

# ---------------------------------------------------------------------------
# 10-bit APCI codes, typed in from the APCI table of the Application Layer
# specification (and LTE 7.6 for A_GroupPropValue_*).  Services whose APCI is
# 4 bits wide carry 6 data bits in the low bits of the second octet: the whole
# 64-code block belongs to them.
# ---------------------------------------------------------------------------

DATA6_BLOCKS: dict[int, str] = {
    0x040: "A_GroupValue_Response",
    0x080: "A_GroupValue_Write",
    0x180: "A_ADC_Read",
    0x200: "A_Memory_Read",
    0x240: "A_Memory_Response",
    0x280: "A_Memory_Write",
    0x300: "A_DeviceDescriptor_Read",
    0x340: "A_DeviceDescriptor_Response",
}

SPEC_CODES: dict[int, str] = {
    0x000: "A_GroupValue_Read",
    0x0C0: "A_IndividualAddress_Write",
    0x100: "A_IndividualAddress_Read",
    0x140: "A_IndividualAddress_Response",
    # A_ADC_Response: 4-bit APCI 0111 + channel; the codes from 0x1C8 upwards of
    # that block were later allocated to other services, so only channels 0..7
    # are unambiguous A_ADC_Response codes.
    **{0x1C0 + ch: "A_ADC_Response" for ch in range(8)},
    0x1C8: "A_SystemNetworkParameter_Read",
    0x1C9: "A_SystemNetworkParameter_Response",
    0x1CA: "A_SystemNetworkParameter_Write",
    0x1CC: "A_PropertyExtValue_Read",
    0x1CD: "A_PropertyExtValue_Response",
    0x1CE: "A_PropertyExtValue_WriteCon",
    0x1CF: "A_PropertyExtValue_WriteConRes",
    0x1D0: "A_PropertyExtValue_WriteUnCon",
    0x1D1: "A_PropertyExtValue_InfoReport",
    0x1D2: "A_PropertyExtDescription_Read",
    0x1D3: "A_PropertyExtDescription_Response",
    0x1D4: "A_FunctionPropertyExtCommand",
    0x1D5: "A_FunctionPropertyExtState_Read",
    0x1D6: "A_FunctionPropertyExtState_Response",
    0x1FB: "A_MemoryExtended_Write",
    0x1FC: "A_MemoryExtended_WriteResponse",
    0x1FD: "A_MemoryExtended_Read",
    0x1FE: "A_MemoryExtended_ReadResponse",
    0x2C0: "A_UserMemory_Read",
    0x2C1: "A_UserMemory_Response",
    0x2C2: "A_UserMemory_Write",
    0x2C4: "A_UserMemoryBit_Write",
    0x2C5: "A_UserManufacturerInfo_Read",
    0x2C6: "A_UserManufacturerInfo_Response",
    0x2C7: "A_FunctionPropertyCommand",
    0x2C8: "A_FunctionPropertyState_Read",
    0x2C9: "A_FunctionPropertyState_Response",
    0x380: "A_Restart",
    0x381: "A_Restart (master reset)",
    0x3A1: "A_Restart_Response",
    0x3C0: "A_FilterTable_Open",
    0x3C1: "A_FilterTable_Read",
    0x3C2: "A_FilterTable_Response",
    0x3C3: "A_FilterTable_Write",
    0x3C8: "A_RouterMemory_Read",
    0x3C9: "A_RouterMemory_Response",
    0x3CA: "A_RouterMemory_Write",
    0x3D0: "A_MemoryBit_Write",
    0x3D1: "A_Authorize_Request",
    0x3D2: "A_Authorize_Response",
    0x3D3: "A_Key_Write",
    0x3D4: "A_Key_Response",
    0x3D5: "A_PropertyValue_Read",
    0x3D6: "A_PropertyValue_Response",
    0x3D7: "A_PropertyValue_Write",
    0x3D8: "A_PropertyDescription_Read",
    0x3D9: "A_PropertyDescription_Response",
    0x3DA: "A_NetworkParameter_Read",
    0x3DB: "A_NetworkParameter_Response",
    0x3DC: "A_IndividualAddressSerialNumber_Read",
    0x3DD: "A_IndividualAddressSerialNumber_Response",
    0x3DE: "A_IndividualAddressSerialNumber_Write",
    0x3E0: "A_DomainAddress_Write",
    0x3E1: "A_DomainAddress_Read",
    0x3E2: "A_DomainAddress_Response",
    0x3E3: "A_DomainAddressSelective_Read",
    0x3E4: "A_NetworkParameter_Write",
    0x3E5: "A_Link_Read",
    0x3E6: "A_Link_Response",
    0x3E7: "A_Link_Write",
    0x3E8: "A_GroupPropValue_Read",
    0x3E9: "A_GroupPropValue_Response",
    0x3EA: "A_GroupPropValue_Write",
    0x3EB: "A_GroupPropValue_InfoReport",
    0x3EC: "A_DomainAddressSerialNumber_Read",
    0x3ED: "A_DomainAddressSerialNumber_Response",
    0x3EE: "A_DomainAddressSerialNumber_Write",
    0x3F0: "A_FileStream_InfoReport",
    0x3F1: "S-A_Data (APCI_SEC)",
}

# Listed in the coding table without a PDU definition; the library documents
# them as *not supported* (RouterStatus* docstrings).  Not judged.
LEGACY_UNSUPPORTED: dict[int, str] = {
    0x3CD: "A_RouterStatus_Read",
    0x3CE: "A_RouterStatus_Response",
    0x3CF: "A_RouterStatus_Write",
}

# Codes of the specification the library does not claim at all (examples used
# as "unsupported" representatives).
UNSUPPORTED_EXAMPLES: dict[int, str] = {
    0x1CB: "reserved (system broadcast block)",
    0x2C3: "reserved user message",
    0x2CA: "reserved user message",
    0x2F8: "manufacturer specific user message",
    0x3C4: "reserved coupler service",
    0x3DF: "A_ServiceInformation_Indication_Write",
    0x3EF: "reserved",
    0x3FF: "reserved",
}


def apci_code(raw: bytes) -> int:
    """10-bit APCI of an APDU (TPCI bits ignored)."""
    return ((raw[0] << 8) | raw[1]) & 0x3FF


def recognised(code: int) -> str | None:
    """Spec name if `code` belongs to a service the library claims to decode."""
    name = SPEC_CODES.get(code)
    if name is not None:
        return name
    return DATA6_BLOCKS.get(code & 0x3C0)


def all_recognised_exact_codes() -> set[int]:
    """Exact codes + base codes of the 6-bit-data blocks (for enum cross-check)."""
    return set(SPEC_CODES) | set(DATA6_BLOCKS)


# ---------------------------------------------------------------------------
# Canonical frames: one valid APDU (or more) per service class, octets typed in
# from the PDU figures.  hex strings, spaces ignored.
# ---------------------------------------------------------------------------

_EXT_HDR = "000B 00 10 36"  # object type 0x000B, instance 0x001, property 0x036
_SERIAL = "00FA 1234 5678"

_CANONICAL: list[tuple[str, str]] = [
    ("GroupValueRead", "00 00"),
    ("GroupValueWrite", "00 81"),
    ("GroupValueWrite", "00 80 0C 1A"),
    ("GroupValueResponse", "00 41"),
    ("GroupValueResponse", "00 40 0C 1A"),
    ("IndividualAddressWrite", "00 C0 11 05"),
    ("IndividualAddressRead", "01 00"),
    ("IndividualAddressResponse", "01 40"),
    ("ADCRead", "01 85 08"),
    ("ADCResponse", "01 C5 08 01 23"),
    ("SystemNetworkParameterRead", "01 C8 0000 00B0 01"),
    ("SystemNetworkParameterResponse", "01 C9 0000 00B0 01 AA BB"),
    ("SystemNetworkParameterWrite", "01 CA 0000 00B0 01"),
    ("PropertyExtValueRead", f"01 CC {_EXT_HDR} 01 0001"),
    ("PropertyExtValueResponse", f"01 CD {_EXT_HDR} 01 0001 AA BB"),
    ("PropertyExtValueWriteCon", f"01 CE {_EXT_HDR} 01 0001 AA BB"),
    ("PropertyExtValueWriteConRes", f"01 CF {_EXT_HDR} 01 0001 00"),
    ("PropertyExtValueWriteUnCon", f"01 D0 {_EXT_HDR} 01 0001 AA BB"),
    ("PropertyExtValueInfoReport", f"01 D1 {_EXT_HDR} 01 0001 AA BB"),
    ("PropertyExtDescriptionRead", f"01 D2 {_EXT_HDR} 00 05"),
    ("PropertyExtDescriptionResponse", f"01 D3 {_EXT_HDR} 00 05 0009 0001 91 000A 32"),
    ("FunctionPropertyExtCommand", f"01 D4 {_EXT_HDR} 01 02"),
    ("FunctionPropertyExtStateRead", f"01 D5 {_EXT_HDR} 01"),
    ("FunctionPropertyExtStateResponse", f"01 D6 {_EXT_HDR} 00 AA"),
    ("MemoryExtendedWrite", "01 FB 02 012345 AA BB"),
    ("MemoryExtendedWriteResponse", "01 FC 00 012345"),
    ("MemoryExtendedRead", "01 FD 02 012345"),
    ("MemoryExtendedReadResponse", "01 FE 00 012345 AA BB"),
    ("MemoryRead", "02 02 1234"),
    ("MemoryResponse", "02 42 1234 AA BB"),
    ("MemoryWrite", "02 82 1234 AA BB"),
    ("UserMemoryRead", "02 C0 12 3456"),
    ("UserMemoryResponse", "02 C1 12 3456 AA BB"),
    ("UserMemoryWrite", "02 C2 12 3456 AA BB"),
    ("UserMemoryBitWrite", "02 C4 02 1234 F00F 0110"),
    ("UserManufacturerInfoRead", "02 C5"),
    ("UserManufacturerInfoResponse", "02 C6 7B 1234"),
    ("FunctionPropertyCommand", "02 C7 01 02 AA"),
    ("FunctionPropertyStateRead", "02 C8 01 02 AA"),
    ("FunctionPropertyStateResponse", "02 C9 01 02 00 AA"),
    ("DeviceDescriptorRead", "03 00"),
    ("DeviceDescriptorResponse", "03 40 07B0"),
    ("Restart", "03 80"),
    ("RestartMasterReset", "03 81 01 00"),
    ("RestartMasterResetResponse", "03 A1 00 0005"),
    ("FilterTableOpen", "03 C0"),
    ("FilterTableRead", "03 C1 02 0100"),
    ("FilterTableResponse", "03 C2 02 0100 AA BB"),
    ("FilterTableWrite", "03 C3 02 0100 AA BB"),
    ("RouterMemoryRead", "03 C8 02 0100"),
    ("RouterMemoryResponse", "03 C9 02 0100 AA BB"),
    ("RouterMemoryWrite", "03 CA 02 0100 AA BB"),
    ("MemoryBitWrite", "03 D0 01 1234 F0 0F"),
    ("AuthorizeRequest", "03 D1 00 11223344"),
    ("AuthorizeResponse", "03 D2 02"),
    ("KeyWrite", "03 D3 02 11223344"),
    ("KeyResponse", "03 D4 02"),
    ("PropertyValueRead", "03 D5 01 36 10 01"),
    ("PropertyValueResponse", "03 D6 01 36 10 01 AA BB"),
    ("PropertyValueWrite", "03 D7 01 36 10 01 AA BB"),
    ("PropertyDescriptionRead", "03 D8 01 36 02"),
    ("PropertyDescriptionResponse", "03 D9 01 36 02 11 000A 32"),
    ("NetworkParameterRead", "03 DA 0000 0B 01"),
    ("NetworkParameterResponse", "03 DB 0000 0B 01 AA"),
    ("IndividualAddressSerialRead", f"03 DC {_SERIAL}"),
    ("IndividualAddressSerialResponse", f"03 DD {_SERIAL} 1105 0000"),
    ("IndividualAddressSerialWrite", f"03 DE {_SERIAL} 1105 00000000"),
    ("DomainAddressWrite", "03 E0 1234"),
    ("DomainAddressWrite", "03 E0 123456789ABC"),
    ("DomainAddressRead", "03 E1"),
    ("DomainAddressResponse", "03 E2 123456789ABC"),
    ("DomainAddressResponse", "03 E2 1234"),
    ("DomainAddressSelectiveRead", "03 E3 1234 1105 03"),
    ("NetworkParameterWrite", "03 E4 0000 0B 01"),
    ("LinkRead", "03 E5 07 01"),
    ("LinkResponse", "03 E6 07 11 0801 0802"),
    ("LinkResponse", "03 E6 07 00"),
    ("LinkWrite", "03 E7 07 01 0801"),
    ("GroupPropValueRead", "03 E8 0140 01 33"),
    ("GroupPropValueResponse", "03 E9 0140 01 33 AA"),
    ("GroupPropValueWrite", "03 EA 0140 01 33 AA"),
    ("GroupPropValueInfoReport", "03 EB 0140 01 33 AA"),
    ("DomainAddressSerialNumberRead", f"03 EC {_SERIAL}"),
    ("DomainAddressSerialNumberResponse", f"03 ED {_SERIAL} 1234"),
    ("DomainAddressSerialNumberResponse", f"03 ED {_SERIAL} 123456789ABC"),
    ("DomainAddressSerialNumberWrite", f"03 EE {_SERIAL} E000170C"),
    ("DomainAddressSerialNumberWrite", f"03 EE {_SERIAL} 1234"),
    ("DomainAddressSerialNumberWrite", f"03 EE {_SERIAL} 123456789ABC"),
    (
        "DomainAddressSerialNumberWrite",
        f"03 EE {_SERIAL} E000170C 01 000102030405060708090A0B0C0D0E0F",
    ),
    ("FileStreamInfoReport", "03 F0 12 AA BB"),
    # SCF 0x10 = CCM encryption, S-A_Data; 6 octets sequence number, 2 octets
    # secured APDU, 4 octets MAC
    ("SecureAPDU", "03 F1 10 000000000004 6767 242A2308"),
    # SCF 0x80 = tool access, authentication only
    ("SecureAPDU", "03 F1 80 0000000000FF 0081 01020304"),
]

# Service classes the library documents as stubs (no valid frame exists).
STUB_CLASSES = ("RouterStatusRead", "RouterStatusResponse", "RouterStatusWrite")


def _hx(text: str) -> bytes:
    return bytes.fromhex(text.replace(" ", ""))


def canonical_frames() -> list[tuple[str, bytes]]:
    """(service class name, valid APDU) - at least one per implemented class."""
    return [(name, _hx(text)) for name, text in _CANONICAL]


def canonical_by_class() -> dict[str, list[bytes]]:
    """Class name -> list of valid APDUs."""
    out: dict[str, list[bytes]] = {}
    for name, raw in canonical_frames():
        out.setdefault(name, []).append(raw)
    return out


# ---------------------------------------------------------------------------
# Rejection classes
# ---------------------------------------------------------------------------

_REJECTIONS: list[tuple[str, str, str]] = [
    # label, hex, expectation
    ("empty", "", "conversion"),
    ("one-octet", "00", "conversion"),
    ("fixed-length-too-long:A_GroupValue_Read", "00 00 00", "conversion"),
    ("fixed-length-too-short:A_IndividualAddress_Write", "00 C0 11", "conversion"),
    ("fixed-length-too-long:A_IndividualAddress_Write", "00 C0 11 05 00", "conversion"),
    ("fixed-length-too-short:A_ADC_Read", "01 85", "conversion"),
    ("fixed-length-too-short:A_Memory_Read", "02 02 12", "conversion"),
    ("min-length-too-short:A_Memory_Write", "02 82 12", "conversion"),
    ("min-length-too-short:A_PropertyValue_Response", "03 D6 01 36 10", "conversion"),
    ("min-length-too-short:A_PropertyExtValue_Response", f"01 CD {_EXT_HDR} 01 00", "conversion"),
    ("min-length-too-short:A_SystemNetworkParameter_Read", "01 C8 0000 00", "conversion"),
    ("min-length-too-short:A_FunctionPropertyExtCommand", "01 D4 000B 00 10", "conversion"),
    ("fixed-length-too-long:A_PropertyValue_Read", "03 D5 01 36 10 01 00", "conversion"),
    ("fixed-length-too-short:A_Authorize_Request", "03 D1 00 112233", "conversion"),
    ("bad-enum:A_FunctionPropertyExtState_Response-return-code", f"01 D6 {_EXT_HDR} 42 AA", "conversion"),
    ("bad-enum:A_PropertyExtValue_WriteConRes-return-code", f"01 CF {_EXT_HDR} 01 0001 42", "conversion"),
    ("inner-length-short:A_MemoryBit_Write", "03 D0 02 1234 F0 0F", "conversion"),
    ("inner-length-long:A_MemoryBit_Write", "03 D0 00 1234 F0 0F", "conversion"),
    ("inner-length-short:A_UserMemoryBit_Write", "02 C4 03 1234 F00F 0110", "conversion"),
    ("odd-list:A_Link_Response", "03 E6 07 11 0801 08", "conversion"),
    ("list-too-long:A_Link_Response", "03 E6 07 11" + " 0801" * 7, "conversion"),
    ("wrong-length:A_DomainAddress_Write", "03 E0 123456", "conversion"),
    ("wrong-length:A_DomainAddressSerialNumber_Write", f"03 EE {_SERIAL} 123456", "conversion"),
    ("empty-asdu:A_DomainAddressSelective_Read", "03 E3", "conversion"),
    ("too-short:S-A_Data", "03 F1 10 000000000004 242A2308"[:-2], "conversion"),
    ("bad-scf-algorithm:S-A_Data", "03 F1 70 000000000004 6767 242A2308", "conversion"),
    ("bad-scf-service:S-A_Data", "03 F1 17 000000000004 6767 242A2308", "conversion"),
    ("unsupported:reserved-user-message", "02 CA 00 00", "unsupported"),
    ("unsupported:manufacturer-user-message", "02 F8 01", "unsupported"),
    ("unsupported:A_ServiceInformation_Indication_Write", "03 DF 00 00 00", "unsupported"),
    ("unsupported:reserved-escape", "03 FF", "unsupported"),
    ("unsupported:legacy-A_RouterStatus_Read", "03 CD", "unsupported"),
    ("unsupported:legacy-A_RouterStatus_Write", "03 CF 01", "unsupported"),
]

REJECTION_EXPECT: dict[str, str] = {label: exp for label, _, exp in _REJECTIONS}


def rejection_classes() -> list[tuple[str, bytes]]:
    """(label, APDU) - one representative per class of rejected APDU."""
    return [(label, _hx(text)) for label, text, _ in _REJECTIONS]


# ---------------------------------------------------------------------------
# Generators
# ---------------------------------------------------------------------------

STRUCTURED_LENGTHS: tuple[int, ...] = (*range(2, 33), 54, 55, 56, 57, 254, 255)


def _tpci_bits(rng: random.Random) -> int:
    """Upper six bits of octet 0 (TPCI): mostly zero, sometimes anything."""
    return 0 if rng.random() < 0.7 else rng.randrange(64) << 2


def structured_for_code(
    code: int, rng: random.Random, lengths: tuple[int, ...] = STRUCTURED_LENGTHS
) -> Iterator[bytes]:
    """All lengths x fills for one 10-bit APCI code.

    Fills: zero, 0xFF, two random bodies, and bodies whose first octet (where
    every service that has one keeps its internal length / count field) is
    consistent with the total length under the layouts in use (number of octet
    pairs after a 3 octet header; number of octets after a 3 octet header;
    octets after the field itself), one short and one long.
    """
    hi, lo = (code >> 8) & 0x03, code & 0xFF
    for length in lengths:
        n = length - 2
        bodies = [bytes(n), b"\xff" * n]
        if n:
            bodies.append(rng.randbytes(n))
            bodies.append(rng.randbytes(n))
            candidates = set()
            for base in ((length - 5) // 2, length - 5, n - 1):
                for delta in (-1, 0, 1):
                    candidates.add((base + delta) & 0xFF)
            for value in sorted(candidates):
                bodies.append(bytes([value]) + rng.randbytes(n - 1))
        for body in bodies:
            yield bytes([_tpci_bits(rng) | hi, lo]) + body


def position_sweeps(stride: int = 1) -> Iterator[bytes]:
    """Every octet value (step `stride`) in every position of every canonical frame."""
    for _, raw in canonical_frames():
        for pos in range(len(raw)):
            for value in range(0, 256, stride):
                if value != raw[pos]:
                    yield raw[:pos] + bytes([value]) + raw[pos + 1 :]


def truncations() -> Iterator[bytes]:
    """Every prefix of every canonical frame and the frame extended by 1..3 octets."""
    for _, raw in canonical_frames():
        for cut in range(len(raw)):
            yield raw[:cut]
        for extra in (b"\x00", b"\xff", b"\x00\x00", b"\x01\x02\x03"):
            yield raw + extra


def structured_apdus(rng: random.Random, n: int) -> Iterator[bytes]:
    """`n` structure-aware APDUs: valid frames, mutated valid frames, hostile lengths."""
    frames = [raw for _, raw in canonical_frames()]
    rejects = [raw for _, raw in rejection_classes()]
    codes = sorted(all_recognised_exact_codes() | set(LEGACY_UNSUPPORTED) | set(UNSUPPORTED_EXAMPLES))
    for i in range(n):
        kind = i % 8
        if kind == 0:
            yield frames[(i // 8) % len(frames)]
        elif kind == 1:
            yield rejects[(i // 8) % len(rejects)]
        elif kind in (2, 3):  # mutate some octets of a valid frame
            raw = bytearray(rng.choice(frames))
            for _ in range(rng.randint(1, 3)):
                raw[rng.randrange(len(raw))] = rng.choice((0, 0xFF, rng.randrange(256)))
            yield bytes(raw)
        elif kind == 4:  # truncate / extend a valid frame
            raw = rng.choice(frames)
            if rng.random() < 0.5:
                yield raw[: rng.randrange(len(raw) + 1)]
            else:
                yield raw + rng.randbytes(rng.choice((1, 2, 3, 17, 200)))
        elif kind == 5:  # known code, hostile length
            code = rng.choice(codes) | (rng.randrange(64) if rng.random() < 0.2 else 0)
            length = rng.choice(STRUCTURED_LENGTHS)
            fill = rng.choice((bytes(length - 2), b"\xff" * (length - 2), rng.randbytes(length - 2)))
            yield bytes([_tpci_bits(rng) | (code >> 8) & 3, code & 0xFF]) + fill
        elif kind == 6:  # any code, short
            code = rng.randrange(1024)
            yield bytes([_tpci_bits(rng) | code >> 8, code & 0xFF]) + rng.randbytes(rng.randrange(0, 24))
        else:  # pure noise
            yield rng.randbytes(rng.choice((0, 1, 2, 3, 4, 5, 8, 13, 16, 55, 255)))


def exhaustive(length: int) -> Iterator[bytes]:
    """All APDUs of exactly `length` octets (length <= 3 is practical)."""
    if length == 0:
        yield b""
        return
    for value in range(256**length):
        yield value.to_bytes(length, "big")


def input_space(
    rng: random.Random, quick: bool, shard: int = 0, nshards: int = 1
) -> Iterator[tuple[str, bytes]]:
    """The C04 input space (also the domain of C05), split over shards.

    Yields (source tag, APDU).  Tags: ``x012`` all APDUs of 0..2 octets,
    ``x3`` APDUs of 3 octets (all of them unless `quick`: 200,000 random),
    ``code`` per 10-bit code x length x fill, ``canon`` valid frames,
    ``reject`` rejection classes, ``trunc`` truncations/extensions, ``sweep``
    every octet value at every position of the valid frames, ``mix`` the
    structured_apdus() mixture.
    """
    if shard == 0:
        for length in (0, 1, 2):
            for raw in exhaustive(length):
                yield "x012", raw
    if quick:
        for _ in range(200_000):
            yield "x3", rng.randrange(1 << 24).to_bytes(3, "big")
    else:
        for value in range(shard, 1 << 24, nshards):
            yield "x3", value.to_bytes(3, "big")
    for code in range(1024):
        if code % nshards == shard:
            for raw in structured_for_code(code, rng):
                yield "code", raw
    if shard == 0:
        for _, raw in canonical_frames():
            yield "canon", raw
        for _, raw in rejection_classes():
            yield "reject", raw
        for raw in truncations():
            yield "trunc", raw
    for i, raw in enumerate(position_sweeps(1)):
        if (i // 256) % nshards == shard:
            yield "sweep", raw
    for raw in structured_apdus(rng, 60_000 if quick else 40_000):
        yield "mix", raw
