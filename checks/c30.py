"""C30 secure routing: only authenticated, timely frames are forwarded / move the timer; the receive path never raises."""

from __future__ import annotations

import asyncio
import random

from vlib import refcrypto_ip as ref
from vlib.peers_secure import SecureRoutingPeer, all_body_class_names, random_plain_frame
from vlib.vloop import Deadlock, LoopBudget, new_loop, patch_multicast
from xknx import XKNX
from xknx.cemi import CEMIFrame, CEMILData, CEMIMessageCode
from xknx.dpt import DPTArray
from xknx.io.const import XKNX_SERIAL_NUMBER
from xknx.io.routing import SecureRouting
from xknx.knxip import KNXIPFrame, RoutingBusy, RoutingIndication, RoutingLostMessage, SearchRequest
from xknx.telegram import GroupAddress, IndividualAddress, Telegram
from xknx.telegram.apci import GroupValueWrite

LEVEL = "exploration"
TECHNIQUE = (
    "runtime monitor: the real SecureRouting/SecureGroup/SecureSequenceTimer run on the virtual loop with stubbed multicast sockets; a peer built on "
    "an independent CCM injects datagrams; for every datagram the reference decides authenticity, the harness' own local timer (anchored at synchronisation and at every authentic timer update, advanced in exact "
    "milliseconds of the virtual clock in between; event instants carry sub-second fractions) decides timeliness, and callbacks, timer offset, outgoing wrappers/notifies and exceptions are compared with the statement"
)
LEVEL_TEXT = (
    "Generated multicast histories: synchronisation answered / unanswered / answered twice (same loop iteration on the two sockets, consecutive "
    "iterations, two different keepers) / forged; afterwards genuine and forged TimerNotify and SecureWrapper frames at timer offsets ahead, inside the "
    "synchronisation tolerance, inside the latency tolerance, on the boundary and late, wrong-key / bit-flipped / other-session / nested wrappers, plain "
    "frames of all 29 body classes, unknown services and garbage, well formed frames cut short / extended / with one octet replaced (plain and inside an authentic wrapper), echoes, interleaved with our own sends and idle periods that let the periodic notify "
    "fire; latency tolerance 100..3000 ms. A genuine synchronisation reply is also delivered in the loop iterations around the instant the synchronisation wait is given up (timer callbacks within 1 ns of the "
    "timeout deadline of synchronize(), 0-2 call_soon hops later, and right after the connect task was cancelled). The same SecureRouting object is also disconnected and connected again inside a history (second synchronisation answered by a keeper that is "
    "level or ahead, or unanswered) with sends before and after; timer monotonicity of outgoing wrappers is judged across the restart. Histories are sampled, hence exploration."
)
LEVEL_NOTE = (
    "Trusted: vlib/refcrypto_ip.py (self-tested against the recorded vectors at start; failure => inconclusive), the virtual loop. Judged: a plain frame "
    "reaches a callback only if it is a search/description service; a wrapper reaches a callback only if the reference verifies it (backbone key, session 0) and "
    "its timer is above local - latency, local being the harness' millisecond model of the timer, not the value the code reports (frames exactly on the boundary are not judged); a datagram the reference cannot authenticate never changes "
    "current_timer_value() - clock, never completes the synchronisation, never makes us answer with an update notify carrying its tag; after synchronisation the "
    "timer offset never decreases and the timer values of outgoing wrappers never decrease; no delivery raises and nothing reaches the loop exception handler. "
    "Malformed plain frames that make the shared KNXnet/IP parser raise ValueError/IndexError (property C20) surface here as receive-path-raises-*-on-plain-malformed / -w-inner-malformed; "
    "frames with DIB/SRP lists are left to C20 (a zero-length DIB hangs instead of raising). Recorded, not judged: that valid timely wrappers are forwarded (required to be observed), wrappers authentic for another session id, nested / forbidden "
    "inner services, role (timekeeper/follower) changes, what happens before the synchronisation finished."
)
SHARDS = {"quick": 1, "thorough": 16}
TIMEOUT = {"quick": 200, "thorough": 1500}

DISCOVERY = (0x0201, 0x0202, 0x0203, 0x0204, 0x020B, 0x020C)
PEER_ADDR = ("10.0.0.7", 3671)

SYNC_KINDS = (
    "reply", "reply", "reply-dup-two-sockets", "reply-dup-two-keepers", "reply-dup-next-iteration", "reply-forged", "reply-wrong-tag",
    "none", "none", "tn-ahead", "plain", "wrapper-valid", "reply-late-forged-then-reply",
)
MAIN_KINDS = (
    "tn-ahead", "tn-sync", "tn-latency", "tn-boundary", "tn-late", "tn-forged-key", "tn-forged-bit", "tn-forged-late",
    "w-ahead", "w-sync", "w-latency", "w-boundary", "w-late", "w-late", "w-forged-key", "w-forged-bit", "w-forged-late", "w-other-session", "w-nested", "w-forbidden",
    "w-busy", "w-lost", "w-search", "plain", "plain", "plain", "plain-unknown", "garbage", "echo-own", "echo-foreign", "send", "send", "send", "idle-short", "idle-long",
    "tn-own-identity", "restart-answered", "restart-unanswered", "w-busy-fade-out", "w-busy-fade-out", "plain-malformed", "plain-malformed", "w-inner-malformed", "w-inner-malformed", "w-inner-garbage",
)
NO_DIB = tuple(n for n in all_body_class_names() if n not in ("SearchResponse", "SearchResponseExtended", "DescriptionResponse", "SearchRequestExtended"))


def gen_spec(rng, index):
    return {
        "seed": rng.randrange(1 << 30),
        "latency_ms": rng.choice((100, 101, 337, 500, 1000, 1000, 1006, 1999, 2000, 3000)),
        "sync": [rng.choice(SYNC_KINDS) for _ in range(rng.choice((1, 1, 2, 3)))],
        "main": [rng.choice(MAIN_KINDS) for _ in range(rng.randrange(6, 34))],
        # a genuine synchronisation reply delivered in the loop iterations around the instant the synchronisation wait is given up
        # (timeout of synchronize(), or the connect task being cancelled): offset to the deadline in seconds, extra call_soon hops
        "sync_edge": rng.choice((None, None, None, None, None, "timeout", "timeout", "cancel")),
        "sync_edge_offset": rng.choice((-3e-10, 0.0, 1e-10, 3e-10, 6e-10, 1e-3)),
        "sync_edge_hops": rng.choice((0, 0, 0, 1, 2)),
    }


def make_cemi(rng, code=CEMIMessageCode.L_DATA_REQ):
    tg = Telegram(destination_address=GroupAddress(rng.randrange(1, 65536)), payload=GroupValueWrite(DPTArray((rng.randrange(256), rng.randrange(256)))))
    return CEMIFrame(code=code, data=CEMILData.init_from_telegram(tg, src_addr=IndividualAddress(rng.randrange(1, 65536))))


def run_history(ctx, spec):
    rng = random.Random(spec["seed"])
    random.seed(spec["seed"] ^ 0xC30)  # xknx draws tags and notify delays from the global generator
    patch_multicast()
    loop = new_loop()
    key = rng.randbytes(16)
    latency = spec["latency_ms"]
    sync_tol = round(latency / 10)
    peer = SecureRoutingPeer(key, serial=rng.randbytes(6))
    callbacks: list[bytes] = []
    cemis: list[bytes] = []
    kinds: list[str] = []
    trace: list[dict] = []
    unauth_identities: dict[tuple[bytes, bytes], str] = {}
    auth_identities: set[tuple[bytes, bytes]] = set()  # an update notify may legitimately answer these
    st = {"synced_at": None, "routing": None, "last_tx": None}

    def cb(frame, source, transport):
        try:
            callbacks.append(frame.to_knx())
        except Exception:  # noqa: BLE001 - a parsed but non-canonical frame xknx cannot re-serialise; the observer must not raise
            callbacks.append(repr(frame).encode())

    def timer():
        return st["routing"].transport.secure_timer

    def clock_ms():
        return int(loop.time() * 1000.0)

    def model_local(tmr):
        """The harness' own local timer: anchored when the timer was (re)set by synchronisation / an authentic frame,
        advanced in exact milliseconds of the virtual clock in between. Before synchronisation: what the code reports."""
        if st.get("anchor") is None:
            return tmr.current_timer_value()
        a_timer, a_clock = st["anchor"]
        return a_timer + (clock_ms() - a_clock)

    def tx_records():
        return [(t, data) for (t, d, data, addr, tr) in loop.wire if d == "tx"]

    def our_sync_identity():
        for _, data in tx_records():
            c = peer.classify(data)
            if c["kind"] == "timer_notify":
                return c["serial"], c["tag"]
        return None

    def latest_sync_identity():
        for _, data in reversed(tx_records()):
            c = peer.classify(data)
            if c["kind"] == "timer_notify":
                return c["serial"], c["tag"]
        return None

    def inject(kind, raw, cls, sock="listener", addr=PEER_ADDR):
        """Deliver one datagram and judge it. cls: dict(kind=plain|tn|wrapper|garbage, authentic=bool, timer=int|None, service=int|None, inner=bytes|None, session0=bool)."""
        want = "multicast_listener" if sock == "listener" else "udp"
        live = [t for t in loop.datagram_transports if t.kind == want and not t.closed]
        if not live:
            return
        tr = live[-1]  # the endpoints of the current connection (the same SecureRouting object may have been restarted)
        inner = cls.get("inner")
        if cls["kind"] == "wrapper" and cls["authentic"] and inner and ref.service_of(inner) == 0x0532 and len(inner) >= 10:
            st["max_busy_wait"] = max(st.get("max_busy_wait", 0), int.from_bytes(inner[8:10], "big"))
        tmr = timer()
        reported = tmr.current_timer_value()
        local = model_local(tmr)
        if reported != local:
            ctx.count("reported_timer_differs_from_ms_clock_model")
        off_before = reported - clock_ms()
        authed_before = tmr.timer_authenticated
        n_cb = len(callbacks)
        exc = None
        ctx.ev()
        try:
            tr.deliver(raw, addr)
        except Exception as e:  # noqa: BLE001
            exc = e
        off_after = tmr.current_timer_value() - clock_ms()
        if st.get("anchor") is not None and off_after != off_before:
            # the frame moved the timer: the model follows by the same amount (judged below: only authentic frames may do this)
            st["anchor"] = (st["anchor"][0] + (off_after - off_before), st["anchor"][1])
        got = callbacks[n_cb:]
        entry = {
            "t": round(loop.time() - 1000, 4), "kind": kind, "socket": sock, "raw": raw, "class": {k: v for k, v in cls.items() if k != "inner"},
            "local_timer": local, "reported_timer": reported, "offset_before": off_before, "offset_after": off_after, "forwarded": got, "exception": repr(exc) if exc else None,
        }
        trace.append(entry)
        kinds.append(kind + ("+" if got else "-") + ("!" if exc else ""))
        w = {"spec": spec, "event": entry, "history": trace[-10:], "latency_ms": latency, "synchronised": st["synced_at"] is not None}
        ctx.count("delivered_" + cls["kind"])
        if exc is not None:
            ctx.violation(
                f"receive-path-raises-{type(exc).__name__}-on-{kind}", w,
                f"delivering a {kind} datagram raised {exc!r} out of datagram_received",
            )
        authentic = cls["authentic"]
        if cls["kind"] == "plain":
            if got:
                if cls["service"] in DISCOVERY:
                    ctx.count("plain_discovery_forwarded")
                else:
                    ctx.violation(f"plain-service-{cls['service']:04x}-forwarded", w, f"a plain frame of service 0x{cls['service']:04x} reached the callbacks of the secure group")
            elif cls["service"] in DISCOVERY:
                ctx.count("plain_discovery_not_forwarded")
            else:
                ctx.count("plain_other_dropped")
        elif cls["kind"] == "garbage":
            if got:
                ctx.violation("unparseable-datagram-forwarded", w, "a datagram that is no KNXnet/IP frame reached the callbacks")
        elif cls["kind"] == "tn":
            if got:
                ctx.violation("timer-notify-forwarded-to-callbacks", w, "a TimerNotify reached the routing callbacks")
            ctx.count("tn_authentic" if authentic else "tn_unauthentic")
        elif cls["kind"] == "wrapper":
            delta = cls["timer"] - (local - latency)
            if got:
                if not authentic:
                    ctx.violation(f"unauthentic-wrapper-forwarded-{kind}", w, f"{kind}: a wrapper the reference cannot verify under the backbone key was forwarded")
                elif delta < 0:
                    ctx.violation("late-wrapper-forwarded", w, f"a wrapper whose timer is {-delta} ms beyond the latency tolerance was forwarded")
                elif delta == 0:
                    ctx.count("boundary_wrapper_forwarded_not_judged")
                else:
                    ctx.count("valid_timely_wrapper_forwarded")
                if authentic and cls.get("inner") is not None and not cls.get("unforwardable") and got[0] != cls["inner"]:
                    ctx.violation("forwarded-frame-differs-from-wrapped-content", w, "the forwarded frame is not the frame that was wrapped")
            elif authentic and delta > 0 and cls.get("session0") and not cls.get("unforwardable"):
                ctx.count("valid_timely_wrapper_dropped_after_sync" if authed_before else "valid_timely_wrapper_dropped_before_sync")
            elif authentic and delta < 0:
                ctx.count("late_wrapper_dropped")
            elif not authentic:
                ctx.count("unauthentic_wrapper_dropped")
        # the timer
        if off_after != off_before:
            ctx.count("timer_moved_by_" + cls["kind"])
            if not authentic:
                ctx.violation(f"unauthenticated-frame-moves-timer-{kind}", w, f"{kind}: a datagram the reference cannot authenticate changed the timer offset by {off_after - off_before} ms")
            elif off_after < off_before and st["synced_at"] is not None:
                ctx.violation(f"timer-moved-backwards-{kind}", w, f"{kind}: the timer offset decreased by {off_before - off_after} ms after synchronisation")
        return entry

    # ---- datagram builders -------------------------------------------------
    def tn(timer_value, *, serial=None, tag=None, forge=None):
        serial = rng.randbytes(6) if serial is None else serial
        tag = rng.randbytes(2) if tag is None else tag
        timer_value = max(0, min(timer_value, (1 << 48) - 1))
        if forge == "key":
            raw = peer.timer_notify(timer_value, tag, serial=serial, key=rng.randbytes(16))
        else:
            raw = peer.timer_notify(timer_value, tag, serial=serial)
            if forge == "bit":
                b = bytearray(raw)
                pos = 6 + rng.randrange(30)
                b[pos] ^= 1 << rng.randrange(8)
                raw = bytes(b)
                f = ref.TimerNotifyFields(raw)
                timer_value, serial, tag = f.timer, f.serial, f.tag
        authentic = ref.timer_notify_valid(key, raw)
        if authentic:
            auth_identities.add((serial, tag))
        elif (serial, tag) != our_sync_identity():
            unauth_identities[(serial, tag)] = "timer-notify"
        return raw, {"kind": "tn", "authentic": authentic, "timer": timer_value, "service": 0x0955}

    def inner_routing():
        return KNXIPFrame.init_from_body(RoutingIndication(raw_cemi=make_cemi(rng, CEMIMessageCode.L_DATA_IND).to_knx())).to_knx()

    def wrapper(timer_value, *, inner=None, forge=None, session_id=0, unforwardable=False):
        inner = inner_routing() if inner is None else inner
        timer_value = max(0, min(timer_value, (1 << 48) - 1))
        serial, tag = rng.randbytes(6), rng.randbytes(2)
        if forge == "key":
            raw = peer.wrapped(inner, timer_value, tag, serial=serial, key=rng.randbytes(16))
        else:
            raw = peer.wrapped(inner, timer_value, tag, serial=serial, session_id=session_id)
            if forge == "bit":
                b = bytearray(raw)
                pos = rng.choice((4, 5, 6, 7, *range(8, len(raw))))
                b[pos] ^= 1 << rng.randrange(8)
                raw = bytes(b)
        c = peer.classify(raw)
        if c["kind"] != "wrapper":
            return raw, {"kind": "garbage", "authentic": False, "timer": None, "service": None}
        if c["authentic"]:
            auth_identities.add((c["serial"], c["tag"]))
        else:
            unauth_identities[(c["serial"], c["tag"])] = "wrapper"
        return raw, {
            "kind": "wrapper", "authentic": c["authentic"], "timer": c["timer"], "service": 0x0950, "inner": c["inner"],
            "session0": c["session_id"] == 0, "unforwardable": unforwardable,
        }

    def plain():
        name = rng.choice(all_body_class_names())
        made = None
        while made is None:
            made = random_plain_frame(rng, name)
        raw = made[1]
        svc = ref.service_of(raw)
        if svc == 0x0955:
            return raw, {"kind": "tn", "authentic": ref.timer_notify_valid(key, raw), "timer": None, "service": svc}
        if svc == 0x0950:
            c = peer.classify(raw)
            return raw, {"kind": "wrapper", "authentic": c["authentic"], "timer": c["timer"], "service": svc, "inner": None, "session0": c["session_id"] == 0}
        return raw, {"kind": "plain", "authentic": False, "timer": None, "service": svc}

    # ---- the history ---------------------------------------------------------
    async def sync_event(kind, tmr):
        ident = our_sync_identity()
        local = tmr.current_timer_value()
        value = local + rng.choice((3_600_000, 12345, 0, -1, -500_000, 1 << 36))
        if kind == "none" or ident is None:
            return
        serial, tag = ident
        if kind == "reply":
            inject(kind, *tn(value, serial=serial, tag=tag))
        elif kind == "reply-dup-two-sockets":
            raw, cls = tn(value, serial=serial, tag=tag)
            inject("reply", raw, cls, "listener")
            inject("second-synchronisation-reply-in-same-iteration", raw, cls, "unicast")
        elif kind == "reply-dup-two-keepers":
            inject("reply", *tn(value, serial=serial, tag=tag), "listener")
            inject("second-synchronisation-reply-in-same-iteration", *tn(value + rng.choice((-3, 0, 5, 1000)), serial=serial, tag=tag), "unicast", ("10.0.0.8", 3671))
        elif kind == "reply-dup-next-iteration":
            raw, cls = tn(value, serial=serial, tag=tag)
            inject("reply", raw, cls)
            await asyncio.sleep(0)
            inject("reply-after-synchronisation-step", raw, cls)
        elif kind in ("reply-forged", "reply-late-forged-then-reply"):
            authed = tmr.timer_authenticated
            inject("reply-forged", *tn(value, serial=serial, tag=tag, forge=rng.choice(("key", "bit"))))
            await asyncio.sleep(0)
            await asyncio.sleep(0)
            ctx.ev()
            if tmr.timer_authenticated and not authed and not tmr.timekeeper:
                ctx.violation("forged-synchronisation-reply-completes-synchronisation", {"spec": spec, "history": trace[-6:]}, "a TimerNotify with our tag but an invalid MAC completed the timer synchronisation")
            if kind == "reply-late-forged-then-reply":
                inject("reply", *tn(value, serial=serial, tag=tag))
        elif kind == "reply-wrong-tag":
            inject(kind, *tn(value, serial=serial, tag=bytes((tag[0] ^ 1, tag[1]))))
        elif kind == "tn-ahead":
            inject(kind, *tn(local + rng.choice((1, 5000))))
        elif kind == "plain":
            inject(kind, *plain())
        elif kind == "wrapper-valid":
            inject(kind, *wrapper(local + rng.choice((-5, 0, 100))))

    async def main_event(kind, routing, tmr):
        local = model_local(tmr)
        lat = latency
        off = {
            "ahead": rng.choice((1, 2, 1000, 100_000, 1 << 33)),
            "sync": -rng.randrange(0, sync_tol),
            "latency": -rng.choice((rng.randrange(sync_tol, lat), lat - 1, lat - 2)),
            "boundary": -lat,
            # lateness probed in 1 ms steps right behind the tolerance, and far behind it
            "late": -lat - rng.choice((1, 2, 3, 4, 5, 6, 7, 8, 9, 10, 11, 12, 1, 2, 50, 5000, 10_000_000)),
        }
        if kind.startswith("tn-") and kind[3:] in off:
            inject(kind, *tn(local + off[kind[3:]]))
        elif kind == "tn-forged-key":
            inject(kind, *tn(local + off["ahead"] + 7, forge="key"))
        elif kind == "tn-forged-bit":
            inject(kind, *tn(local + off["ahead"] + 7, forge="bit"))
        elif kind == "tn-forged-late":
            inject(kind, *tn(local + off["late"], forge=rng.choice(("key", "bit"))))
        elif kind == "tn-own-identity":
            inject(kind, *tn(local + rng.choice((5, -5, off["late"])), serial=XKNX_SERIAL_NUMBER, tag=(our_sync_identity() or (b"", b"\x00\x00"))[1]))
        elif kind.startswith("w-") and kind[2:] in off:
            inject(kind, *wrapper(local + off[kind[2:]]))
        elif kind == "w-forged-key":
            inject(kind, *wrapper(local + off["ahead"] + 3, forge="key"))
        elif kind == "w-forged-bit":
            inject(kind, *wrapper(local + rng.choice((off["ahead"] + 3, 0)), forge="bit"))
        elif kind == "w-forged-late":
            inject(kind, *wrapper(local + off["late"], forge=rng.choice(("key", "bit"))))
        elif kind == "w-other-session":
            inject(kind, *wrapper(local + 5, session_id=rng.choice((1, 0x100, 0xFFFF))))
        elif kind == "w-nested":
            inject(kind, *wrapper(local + 5, inner=peer.wrapped(inner_routing(), local + 5, b"\x00\x01"), unforwardable=True))
        elif kind == "w-forbidden":
            svc = rng.choice((0x0740, 0x0741, 0x0742, 0x0743, 0x0533))
            body = rng.randbytes(rng.randrange(0, 10))
            inject(kind, *wrapper(local + 5, inner=ref.header(svc, 6 + len(body)) + body, unforwardable=True))
        elif kind == "w-busy":
            inject(kind, *wrapper(local + rng.choice((0, 5)), inner=KNXIPFrame.init_from_body(RoutingBusy(wait_time=rng.choice((0, 20, 50)), control_field=rng.choice((0, 1, 0xFFFF, rng.randrange(65536))))).to_knx()))
        elif kind in ("restart-answered", "restart-unanswered"):
            # the same SecureRouting object is stopped and started again; wrappers are sent before and after.
            # The statement does not reset: outgoing timer values must not decrease across the restart.
            await main_event("send", routing, tmr)
            await routing.disconnect()
            await asyncio.sleep(rng.choice((0.0, 0.125, 0.5, 2.375)))
            before = len(tx_records())
            task = asyncio.create_task(routing.connect())
            await asyncio.sleep(rng.choice((0.001, 0.15)))
            if kind == "restart-answered" and len(tx_records()) > before and not task.done():
                ident = latest_sync_identity()
                # a time keeper that is level with or ahead of us (a keeper behind us is not part of the histories)
                value = tmr.current_timer_value() + rng.choice((0, 1, 12345, 3_600_000))
                st["anchor"] = None
                inject("restart-sync-reply", *tn(value, serial=ident[0], tag=ident[1]))
            try:
                await asyncio.wait_for(task, 30)
            except Exception as exc:  # noqa: BLE001
                kinds.append("reconnect-" + type(exc).__name__)
                ctx.count("reconnect_raised_" + type(exc).__name__)
                return
            st["anchor"] = (tmr.current_timer_value(), clock_ms())
            kinds.append(kind)
            ctx.count("restarts_of_the_same_secure_routing_object")
            ctx.count("restart_second_sync_" + ("timekeeper" if tmr.timekeeper else "follower"))
            await main_event("send", routing, tmr)
        elif kind == "w-busy-fade-out":
            # three authentic, timely wrapped RoutingBusy frames: #2 more than 10 ms after #1 while pausing (busy counter >= 1),
            # #3 after sending resumed but inside the N x 100 ms slow-duration fade-out; then a send, which must still complete
            def busy(wait):
                return KNXIPFrame.init_from_body(RoutingBusy(wait_time=wait, control_field=rng.choice((0, 0, 1, 0xFFFF, rng.randrange(65536))))).to_knx()

            w1 = rng.choice((20, 40, 60))
            inject("w-busy-1", *wrapper(model_local(tmr) + rng.choice((0, 3)), inner=busy(w1)))
            await asyncio.sleep(rng.choice((0.011, 0.015)))
            inject("w-busy-2-while-pausing", *wrapper(model_local(tmr) + rng.choice((0, 3)), inner=busy(rng.choice((1, w1)))))
            await asyncio.sleep(w1 / 1000 + rng.choice((0.06, 0.08, 0.1)))
            inject("w-busy-3-in-fade-out", *wrapper(model_local(tmr) + rng.choice((0, 3)), inner=busy(rng.choice((0, 10, 30)))))
            ctx.count("busy_fade_out_patterns")
            await main_event("send", routing, tmr)
        elif kind == "w-lost":
            inject(kind, *wrapper(local + rng.choice((0, 5)), inner=KNXIPFrame.init_from_body(RoutingLostMessage(lost_messages=rng.randrange(1, 100))).to_knx()))
        elif kind == "w-search":
            inject(kind, *wrapper(local, inner=KNXIPFrame.init_from_body(SearchRequest()).to_knx()))
        elif kind == "plain":
            inject(kind, *plain())
        elif kind in ("plain-malformed", "w-inner-malformed"):
            # a well formed frame cut short / extended (total length field adjusted) or with one body octet replaced
            # (classes with DIB/SRP lists are left to C20: a zero-length DIB would hang, not raise)
            name = rng.choice(NO_DIB)
            made = None
            while made is None:
                made = random_plain_frame(rng, name)
            raw = made[1]
            if rng.random() < 0.6 or len(raw) == 6:
                cut = rng.choice((6, 7, 8, len(raw) - 1, len(raw) - 2, rng.randrange(6, len(raw) + 1), len(raw) + 1))
                body = (raw + b"\x00\x00")[6:cut]
                raw = raw[:4] + (6 + len(body)).to_bytes(2, "big") + body
            else:
                pos = rng.randrange(6, len(raw))
                raw = raw[:pos] + bytes((rng.choice((0, 1, 0x7F, 0x80, 0xFF, rng.randrange(256))),)) + raw[pos + 1 :]
            svc = ref.service_of(raw)
            kinds.append(name)
            ctx.count("malformed_injected")
            if kind == "plain-malformed":
                if svc == 0x0955:
                    inject(kind, raw, {"kind": "tn", "authentic": ref.timer_notify_valid(key, raw), "timer": None, "service": svc})
                elif svc == 0x0950:
                    c = peer.classify(raw)
                    if c["kind"] == "wrapper":
                        inject(kind, raw, {"kind": "wrapper", "authentic": c["authentic"], "timer": c["timer"], "service": svc, "inner": None, "session0": c["session_id"] == 0})
                    else:
                        inject(kind, raw, {"kind": "garbage", "authentic": False, "timer": None, "service": None})
                else:
                    inject(kind, raw, {"kind": "plain", "authentic": False, "timer": None, "service": svc})
            else:
                inject(kind, *wrapper(local + rng.choice((0, 5)), inner=raw, unforwardable=True))
        elif kind == "w-inner-garbage":
            inner = rng.choice((b"", b"\x06", b"\x06\x10", rng.randbytes(rng.randrange(1, 40)), b"\x06\x10\x05\x30\x00\x05", b"\x06\x10\x05\x30\x00\x20\x29", b"\x05\x10\x05\x30\x00\x06", b"\x06\x11\x05\x30\x00\x06"))
            inject(kind, *wrapper(local + rng.choice((0, 5)), inner=inner, unforwardable=True))
        elif kind == "plain-unknown":
            svc = rng.choice((0x0533, 0x0740, 0x0743, 0x0AAA, 0x0000, 0xFFFF, 0x0956))
            body = rng.randbytes(rng.randrange(0, 20))
            inject(kind, ref.header(svc, 6 + len(body)) + body, {"kind": "plain", "authentic": False, "timer": None, "service": svc})
        elif kind == "garbage":
            raw = rng.choice((b"", b"\x06", rng.randbytes(rng.randrange(1, 60)), b"\x06\x10\x09\x50\x00\x08\x00\x00", b"\x06\x10\x09\x55\x00\x24" + rng.randbytes(10)))
            inject(kind, raw, {"kind": "garbage", "authentic": False, "timer": None, "service": None})
        elif kind in ("echo-own", "echo-foreign"):
            if st["last_tx"] is None:
                return
            raw = st["last_tx"]
            c = peer.classify(raw)
            own = loop.datagram_transports[1].local_addr
            if c["kind"] == "wrapper":
                cls = {"kind": "wrapper", "authentic": c["authentic"], "timer": c["timer"], "service": 0x0950, "inner": c["inner"], "session0": True, "unforwardable": kind == "echo-own"}
            else:
                cls = {"kind": "tn", "authentic": c.get("authentic", False), "timer": c.get("timer"), "service": 0x0955}
            inject(kind, raw, cls, "listener", own if kind == "echo-own" else PEER_ADDR)
        elif kind == "send":
            try:
                await asyncio.wait_for(routing.send_cemi(make_cemi(rng)), 5)
                kinds.append("send")
                ctx.count("sends")
            except Exception as exc:  # noqa: BLE001
                kinds.append("send-" + type(exc).__name__)
                ctx.count("send_raised_" + type(exc).__name__)
                if isinstance(exc, TimeoutError) and st.get("max_busy_wait", 0) < 2000:
                    ctx.violation(
                        "send-stalls-after-received-routing-busy", {"spec": spec, "history": trace[-12:]},
                        "send_cemi did not complete within 5 s although no RoutingBusy announced more than 2 s",
                    )
            txs = tx_records()
            st["last_tx"] = txs[-1][1] if txs else None
        elif kind == "idle-short":
            await asyncio.sleep(rng.choice((0.001, 0.05, 0.3)))
        elif kind == "idle-long":
            await asyncio.sleep(rng.choice((1.5, 3.625, 12.0, 25.0, 2 + rng.randrange(1, 1000) / 1000)))

    async def main():
        xknx = XKNX()
        routing = SecureRouting(xknx, individual_address=None, cemi_received_callback=cemis.append, local_ip="10.0.0.1", backbone_key=key, latency_ms=latency)
        st["routing"] = routing
        routing.transport.register_callback(cb)
        task = asyncio.create_task(routing.connect())
        await asyncio.sleep(0.001)
        tmr = routing.transport.secure_timer
        edge = spec.get("sync_edge")
        if edge is not None and our_sync_identity() is not None:
            serial, tag = our_sync_identity()
            raw, cls = tn(tmr.current_timer_value() + rng.choice((3_600_000, 12345, 0)), serial=serial, tag=tag)

            def deliver_edge(hops=spec["sync_edge_hops"]):
                if hops:
                    loop.call_soon(deliver_edge, hops - 1)
                    return
                ctx.count("sync_reply_at_edge_delivered_" + ("while_waiting" if not task.done() and not tmr.timer_authenticated else "after"))
                inject("synchronisation-reply-in-iteration-the-wait-is-given-up", raw, cls)

            ctx.count("sync_edge_" + edge)
            if edge == "timeout":
                sync_tx = next(t for t, data in tx_records() if peer.classify(data)["kind"] == "timer_notify")
                # the deadline exactly as synchronize() computes it: loop.time() at its start + delay
                deadline = sync_tx + (tmr.max_delay_time_follower_update_notify + 2 * tmr.latency_tolerance_ms / 1000)
                loop.call_at(deadline + spec["sync_edge_offset"], deliver_edge)
                try:
                    await asyncio.wait_for(task, 60)
                except Exception as exc:  # noqa: BLE001
                    ctx.count("connect_raised_" + type(exc).__name__)
                    return
                await asyncio.sleep(0.001)
            else:
                await asyncio.sleep(rng.choice((0.0, 0.05, 0.2)))
                task.cancel()
                deliver_edge()
                for _ in range(3):
                    await asyncio.sleep(0)
                    inject("synchronisation-reply-after-connect-was-cancelled", raw, cls)
                try:
                    await asyncio.wait_for(task, 60)
                except BaseException as exc:  # noqa: BLE001
                    ctx.count("connect_after_cancel_" + type(exc).__name__)
                kinds.append("cancelled")
                await routing.disconnect()
                return
        for kind in spec["sync"]:
            await asyncio.sleep(rng.choice((0.0, 0.01, 0.125, 0.15, 0.4, rng.randrange(1, 500) / 1000)))
            if task.done():
                break
            await sync_event(kind, tmr)
        try:
            await asyncio.wait_for(task, 30)
        except Exception as exc:  # noqa: BLE001
            kinds.append("connect-" + type(exc).__name__)
            ctx.count("connect_raised_" + type(exc).__name__)
            return
        st["synced_at"] = loop.time()
        st["anchor"] = (tmr.current_timer_value(), clock_ms())
        kinds.append("keeper" if tmr.timekeeper else "follower")
        ctx.count("synchronised_as_timekeeper" if tmr.timekeeper else "synchronised_as_follower")
        for kind in spec["main"]:
            await asyncio.sleep(rng.choice((0, 0, 0.001, 0.03, 0.125, 0.2, 0.375, 0.625, 0.875, rng.randrange(1, 1000) / 1000)))
            await main_event(kind, routing, tmr)
        await asyncio.sleep(rng.choice((0, 2.0)))
        await routing.disconnect()

    try:
        loop.run(main(), max_vtime=2000)
    except Deadlock:
        ctx.count("history_deadlock")
        kinds.append("deadlock")
    except LoopBudget:
        ctx.count("history_budget")
    except Exception as exc:  # noqa: BLE001
        ctx.violation(f"history-raises-{type(exc).__name__}", {"spec": spec, "history": trace[-10:], "exception": repr(exc)}, f"the history driver saw {exc!r}")
    for e in loop.exceptions:
        ctx.ev()
        ctx.violation(
            f"loop-exception-handler-{e.get('type')}", {"spec": spec, "context": e, "history": trace[-10:]},
            f"the loop exception handler was called: {e.get('message')} {e.get('exception')}",
        )
    loop.finish()

    # ---- what we put on the wire ------------------------------------------------
    prev = None
    for t, data in tx_records():
        c = peer.classify(data)
        ctx.ev()
        if c["kind"] == "wrapper":
            ctx.count("tx_wrappers")
            if not c["authentic"]:
                ctx.count("tx_wrapper_not_verified_by_reference")
            if st["synced_at"] is not None and t >= st["synced_at"]:
                if prev is not None and c["timer"] < prev[0]:
                    ctx.violation(
                        "outgoing-wrapper-timer-decreases", {"spec": spec, "previous": {"t": prev[1] - 1000, "timer": prev[0]}, "this": {"t": t - 1000, "timer": c["timer"]}, "history": trace[-30:]},
                        f"outgoing SecureWrapper timer value {c['timer']} after {prev[0]}",
                    )
                prev = (c["timer"], t)
        elif c["kind"] == "timer_notify":
            ctx.count("tx_timer_notifies")
            if not c["authentic"]:
                ctx.count("tx_timer_notify_not_verified_by_reference")
            ident = (c["serial"], c["tag"])
            if ident in unauth_identities and ident in auth_identities:
                ctx.count("update_notify_identity_shared_by_authentic_and_forged_frame_not_judged")
            elif ident in unauth_identities:
                ctx.violation(
                    f"update-notify-answers-unauthenticated-{unauth_identities[ident]}", {"spec": spec, "notify": data, "history": trace[-30:]},
                    "we sent a TimerNotify carrying serial number and tag of a frame the reference could not authenticate",
                )
        else:
            ctx.count("tx_plain_or_other")
    ctx.count("histories")
    ctx.count("cemi_forwarded", len(cemis))
    ctx.distinct((spec["latency_ms"] // 1000, " ".join(kinds)))
    return kinds


def oracle_ok(ctx):
    bad = ref.self_test(with_pbkdf2=False)
    if bad:
        ctx.inconclusive("reference CCM fails recorded vectors: " + ", ".join(bad))
        return False
    return True


def run(ctx):
    ctx.rule = (
        "history = latency tolerance x synchronisation events (answered / twice / forged / unanswered) x 6..33 events drawn from 36 kinds "
        "(TimerNotify / wrapper at 5 timer offsets, forged variants, plain frames of every body class, garbage, echoes, sends, idle); "
        "distinct = (latency class, event-kind string with outcome: + forwarded, - not, ! raised)"
    )
    if not oracle_ok(ctx):
        return
    ctx.require(
        "histories", "delivered_plain", "delivered_tn", "delivered_wrapper", "delivered_garbage", "plain_discovery_forwarded", "plain_other_dropped",
        "valid_timely_wrapper_forwarded", "late_wrapper_dropped", "unauthentic_wrapper_dropped", "tn_authentic", "tn_unauthentic",
        "timer_moved_by_tn", "timer_moved_by_wrapper", "malformed_injected", "busy_fade_out_patterns", "sync_edge_timeout", "sync_edge_cancel", "sync_reply_at_edge_delivered_while_waiting", "restarts_of_the_same_secure_routing_object", "restart_second_sync_timekeeper", "restart_second_sync_follower", "tx_wrappers", "tx_timer_notifies", "synchronised_as_timekeeper", "synchronised_as_follower", "sends",
    )
    n = ctx.scale(700, 200000)
    for i in range(n):
        spec = gen_spec(ctx.rng, i)
        if not ctx.mine(i):
            continue
        kinds = run_history(ctx, spec)
        if i < 3:
            ctx.sample({"spec": spec, "events": " ".join(kinds)})


def replay(ctx, witness):
    if not oracle_ok(ctx):
        return
    run_history(ctx, witness["spec"])
    ctx.distinct("replay-a")
    ctx.distinct("replay-b")
