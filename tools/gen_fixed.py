#!/venv/bin/python
"""Refresh the 'fixed' list of known_findings.json from the fix: commits in /repo (documentation only)."""
import json, re, subprocess
out = subprocess.run(["git", "-C", "/repo", "log", "--reverse", "--format=%h%x00%s%x00%b%x01"], capture_output=True, text=True).stdout
fixed = []
for rec in out.split("\x01"):
    rec = rec.strip("\n")
    if not rec: continue
    h, s, b = rec.split("\x00")
    if not s.startswith("fix:"): continue
    m = re.match(r"\s*(C\d\d)", b)
    prop = m.group(1) if m else ("C01" if "address constructors" in s else "C??")
    fixed.append(f"fixed: property={prop} {h} {s[4:].strip()}")
p = "/verif/known_findings.json"
d = json.load(open(p)); d["fixed"] = fixed
json.dump(d, open(p, "w"), indent=1); open(p, "a").write("\n")
print(len(fixed), "fixed entries")
