"""C20 KNX/IP frame parsing: termination, declared errors only, consumed length, 'incomplete' only for prefixes."""

from __future__ import annotations

from typing import Any

from vlib import knxip_gen as g
from xknx.exceptions import CouldNotParseKNXIP, IncompleteKNXIPFrame
from xknx.knxip import KNXIPFrame
from xknx.telegram import IndividualAddress

LEVEL = "exploration"
TECHNIQUE = (
    "runtime monitor: KNXIPFrame.from_knx on structure-aware hostile frames under a sys.monitoring LINE-event budget "
    "and a tracemalloc peak bound; oracle on outcome class, consumed length and prefix-consistency of 'incomplete'"
)
LEVEL_TEXT = (
    "Every service type code (35 known + unknown ones) gets hostile frames: valid frames truncated at every length, every octet "
    "replaced by boundary values (all 256 values for short frames), wrong announced lengths 0..5 / shorter / longer, zero-length and "
    "over-long DIB/SRP/CRI/CRD/HPAI structures, unknown status/type/family codes, empty bodies, very many minimal DIBs, plus random "
    "byte strings. The real parser runs on each under a logical step budget (LINE events, linear in the input length) and a heap "
    "peak bound. Exploration: the input space is sampled (the per-frame truncation/octet sweeps are complete for the frames drawn)."
)
LEVEL_NOTE = (
    "Trusted: CPython, sys.monitoring, tracemalloc. Judged: outcome is (frame, rest) with len(data)-len(rest) == announced total length "
    ">= 6, or CouldNotParseKNXIP; IncompleteKNXIPFrame only if octet 0 is 06h, octet 1 is 10h (as far as present) and fewer octets than "
    "max(6, announced) are present; tail invariance: frame+tail (1 octet, 6 octets, another frame, '06 10..', long noise) must give the same verdict "
    "class, an equal frame (header, body, to_knx bytes), rest == tail, and the same exception class for rejections; LINE events <= 3000+300*len; heap peak <= 64 KiB + 256*len (widened from the planned 64*len: "
    "legitimate frames made of 2-octet DIBs need ~70 B/octet). Not judged: whether a tolerant body parser accepts odd content, an "
    "unknown service type in a 4..5 octet prefix (recorded). Wall clock (10 s/case backstop) only yields inconclusive."
)
SHARDS = {"quick": 1, "thorough": 16}
TIMEOUT = {"quick": 300, "thorough": 3000}

LINES_BASE, LINES_PER_OCTET = 3000, 300
HEAP_BASE, HEAP_PER_OCTET = 64 * 1024, 256


def _witness(label: str, data: bytes, **kw: Any) -> dict[str, Any]:
    w: dict[str, Any] = {"label": label, "service": g.service_label(data), "len": len(data)}
    w["data"] = data if len(data) <= 4096 else data[:600]
    if len(data) > 4096:
        w["data_truncated_in_witness"] = True
        w["unit_tail"] = data[-8:]
    w.update(kw)
    return w


def judge(ctx: Any, label: str, data: bytes) -> str:
    """Guarded _judge: a harness failure for one input is counted and skipped."""
    out = g.guarded(ctx, "judge " + label, _judge, ctx, label, data) or "harness-error"
    if out not in ("harness-error", "wall", "step-budget") and (len(data) < 16 or ctx.evaluations % 4 == 0):
        g.guarded(ctx, "judge-bytearray " + label, _judge_bytearray, ctx, label, data)
    return out


def _judge_bytearray(ctx: Any, label: str, data: bytes) -> None:
    """The same octets handed over as a bytearray (what asyncio's proactor loop gives a TCP protocol): the outcome class must be the
    one of the bytes input - same exception type, or a frame re-serialising to the same octets with the same rest."""
    def parse(buf: Any) -> tuple:
        try:
            frame, rest = KNXIPFrame.from_knx(buf)
        except Exception as exc:  # noqa: BLE001
            return (type(exc).__name__, None, None)
        try:
            return ("frame", bytes(frame.to_knx()), bytes(rest))
        except Exception as exc:  # noqa: BLE001 - re-serialisation is C21's subject, only compared here
            return ("frame", "to_knx-raises-" + type(exc).__name__, bytes(rest))

    a, b = parse(bytes(data)), parse(bytearray(data))
    ctx.count("bytearray_inputs_compared")
    if a != b:
        svc = g.service_label(data)
        what = b[0] if b[0] != a[0] else "other-frame"
        ctx.violation(f"{svc}-bytearray-input-outcome-differs-{what}", _witness(label, data, bytes_outcome=a[0], bytearray_outcome=b[0]),
                      f"KNXIPFrame.from_knx gives {a[0]} for {len(data)} octets as bytes but {b[0]} for the same octets as a bytearray")


def _judge(ctx: Any, label: str, data: bytes) -> str:
    """Run one parse under the budgets and judge it. Returns the outcome class."""
    ctx.ev()
    n = len(data)
    svc = g.service_label(data)
    res = g.budgeted(KNXIPFrame.from_knx, (data,), LINES_BASE + LINES_PER_OCTET * n, wall_s=10)
    exc = res["exc"]
    ctx.count("line_events", res["lines"])
    mx = ctx.extra.setdefault("max_line_events_one_call_per_shard", [0])
    if res["lines"] > mx[0] and not isinstance(exc, g.StepBudgetExceeded):
        mx[0] = res["lines"]
    if isinstance(exc, g.WallBackstop):
        ctx.inconclusive(f"wall-clock backstop fired on a {n}-octet {svc} input ({label}); no verdict for it")
        return "wall"
    if isinstance(exc, (KeyboardInterrupt, SystemExit)):
        raise exc
    announced = data[4] * 256 + data[5] if n >= 6 else None
    outcome: str
    if isinstance(exc, g.StepBudgetExceeded):
        outcome = "step-budget"
        ctx.violation(
            f"{svc}-parse-step-budget-exceeded",
            _witness(label, data, where=str(exc), budget=LINES_BASE + LINES_PER_OCTET * n),
            f"KNXIPFrame.from_knx on a {n}-octet {svc} frame executed more than {LINES_BASE + LINES_PER_OCTET * n} lines without returning ({exc})",
        )
    elif exc is None:
        outcome = "frame"
        ctx.count("returned_frame")
        result = res["result"]
        ok_shape = isinstance(result, tuple) and len(result) == 2 and isinstance(result[0], KNXIPFrame) and isinstance(result[1], (bytes, bytearray))
        if not ok_shape:
            ctx.violation("parse-returns-non-frame", _witness(label, data, result=repr(result)[:200]), "from_knx returned something that is not (KNXIPFrame, bytes)")
        else:
            frame, rest = result
            consumed = n - len(rest)
            if announced is None or announced < 6:
                ctx.violation(
                    "frame-returned-with-announced-length-below-header-size",
                    _witness(label, data, announced=announced, consumed=consumed),
                    f"from_knx returned a {svc} frame although the header announces a total length of {announced} (< 6 octets of header); consumed {consumed}",
                )
            elif consumed != announced or bytes(rest) != data[announced:] or frame.header.total_length != announced:
                ctx.violation(
                    f"{svc}-consumed-length-differs-from-announced",
                    _witness(label, data, announced=announced, consumed=consumed, header_total=frame.header.total_length),
                    f"from_knx consumed {consumed} octets of a {svc} frame announcing {announced}",
                )
    elif isinstance(exc, IncompleteKNXIPFrame):
        hdr_ok = (n < 1 or data[0] == 6) and (n < 2 or data[1] == 0x10)
        need = 6 if announced is None else max(6, announced)
        if hdr_ok and n < need:
            outcome = "incomplete"
            ctx.count("incomplete_legit")
            if 4 <= n < 6 and svc == "unknown-service":
                ctx.count("recorded_incomplete_with_unknown_service_in_short_prefix")
        elif n >= need:
            outcome = "incomplete-bad"
            ctx.violation(
                "incomplete-reported-although-announced-length-is-present",
                _witness(label, data, announced=announced),
                f"IncompleteKNXIPFrame for {n} octets although the header announces {announced}",
            )
        else:
            outcome = "incomplete-bad"
            ctx.violation(
                "incomplete-reported-for-header-no-appended-octets-can-complete" + ("-short-input" if n < 6 else ""),
                _witness(label, data, announced=announced),
                f"IncompleteKNXIPFrame for {data[:6].hex()}..: octet 0/1 are not 06h/10h, so no appended octets can complete the frame; CouldNotParseKNXIP expected",
            )
    elif isinstance(exc, CouldNotParseKNXIP):
        outcome = "could-not-parse"
        ctx.count("could_not_parse")
    else:
        outcome = "raises-" + type(exc).__name__
        ctx.violation(
            f"{svc}-parse-raises-{type(exc).__name__}",
            _witness(label, data, exception=repr(exc)[:200]),
            f"KNXIPFrame.from_knx({data[:40].hex()}{'..' if n > 40 else ''}) [{svc}, {label}] raised {type(exc).__name__}: {str(exc)[:80]} instead of CouldNotParseKNXIP",
        )
    if outcome != "step-budget":
        bound = HEAP_BASE + HEAP_PER_OCTET * n
        ctx.count("heap_peak_samples")
        mp = ctx.extra.setdefault("max_heap_peak_one_call_per_shard", [0])
        if res["peak"] > mp[0]:
            mp[0] = res["peak"]
        if res["peak"] > bound:
            ctx.violation(
                f"{svc}-parse-heap-budget-exceeded",
                _witness(label, data, peak=res["peak"], bound=bound),
                f"parsing a {n}-octet {svc} frame allocated a peak of {res['peak']} bytes (> {bound})",
            )
    ctx.count("outcome_" + (outcome if not outcome.startswith("raises-") else "other-exception"))
    ctx.distinct((svc, label, min(n, 48), outcome))
    if outcome not in ("step-budget", "incomplete", "incomplete-bad") and n >= 1:
        # all five tails for valid frames, one (quick) / two for the structured hostile ones, one for every 8th (quick) / 2nd of the rest
        n_tails = 5 if label == "valid" else (ctx.scale(1, 2) if label in _TWO_TAILS else int(ctx.evaluations % ctx.scale(8, 2) == 0))
        if n_tails or (n >= 6 and data[0] == 6 and 6 <= data[4] * 256 + data[5] < n):
            _tail_invariance(ctx, label, data, res, n_tails)
    return outcome


_TWO_TAILS = {"hostile-structure", "random-body", "trailing-octets-in-frame", "truncated-consistent", "empty-body", "many-minimal-dibs"}
_TAIL_FRAME = bytes.fromhex("0610042100" + "0a" + "04010000")  # a valid TunnellingAck
_NOISE = bytes((i * 37 + 11) & 0xFF for i in range(300))


def _tails(k: int, data: bytes) -> list[tuple[str, bytes]]:
    """The five tail kinds; `k` varies their content deterministically."""
    return [
        ("1-octet", bytes(((k * 7 + 1) & 0xFF,))),
        ("6-octets", bytes(((k * 31 + j * 53 + 5) & 0xFF) for j in range(6))),
        ("valid-frame", _TAIL_FRAME if k % 2 else data[: max(6, data[4] * 256 + data[5])] if len(data) >= 6 else _TAIL_FRAME),
        ("header-start", b"\x06\x10" + bytes(((k * 3) & 0xFF,))[: k % 2] ),
        ("long-noise", _NOISE[k % 7 :]),
    ]


def _snapshot(res: dict[str, Any]) -> tuple[Any, ...]:
    """What must not depend on octets beyond the announced length."""
    exc = res["exc"]
    if exc is not None:
        return ("exception", type(exc).__name__)
    result = res["result"]
    if not (isinstance(result, tuple) and len(result) == 2 and isinstance(result[0], KNXIPFrame)):
        return ("non-frame", repr(result)[:80])
    frame = result[0]
    try:
        wire: Any = frame.to_knx()
    except Exception as err:  # noqa: BLE001 - tolerant parses may not be serialisable; then the failure must be the same
        wire = "to_knx-raises-" + type(err).__name__
    return ("frame", frame.header.service_type_ident, frame.header.total_length, wire, frame.body)


def _same_snapshot(a: tuple[Any, ...], b: tuple[Any, ...]) -> bool:
    if a[0] != b[0] or len(a) != len(b):
        return False
    if a[0] != "frame":
        return a == b
    return a[1:4] == b[1:4] and g.body_equal(a[4], b[4])


def _tail_invariance(ctx: Any, label: str, data: bytes, res: dict[str, Any], n_tails: int) -> None:
    """A parse may not depend on octets beyond the announced total length: parsing frame+tail must give the same verdict
    class, an equal frame (header, body, to_knx bytes) and rest == tail exactly; a rejection must keep its exception class."""
    n = len(data)
    svc = g.service_label(data)
    announced = data[4] * 256 + data[5] if n >= 6 else None
    readable = announced is not None and data[0] == 6 and announced >= 6
    cases: list[tuple[str, bytes, dict[str, Any]]] = []
    if readable and n > announced:
        # the input already is frame + tail: compare it with the frame alone
        base = data[:announced]
        base_res = g.budgeted(KNXIPFrame.from_knx, (base,), LINES_BASE + LINES_PER_OCTET * len(base), wall_s=10, heap=False)
        cases.append(("as-generated", data[announced:], res))
    else:
        base, base_res = data, res
    if isinstance(base_res["exc"], (g.StepBudgetExceeded, g.WallBackstop, IncompleteKNXIPFrame)):
        return
    expect = _snapshot(base_res)
    k = ctx.counters.get("tail_parses", 0)
    kinds = _tails(k, base)
    for j in range(n_tails):
        name, tail = kinds[(k + j) % len(kinds)]
        if not tail:
            continue
        r = g.budgeted(KNXIPFrame.from_knx, (base + tail,), LINES_BASE + LINES_PER_OCTET * (len(base) + len(tail)), wall_s=10, heap=False)
        cases.append((name, tail, r))
    for name, tail, r in cases:
        ctx.ev()
        ctx.count("tail_parses")
        ctx.count("tail_kind_" + name)
        if isinstance(r["exc"], g.WallBackstop):
            ctx.inconclusive("wall-clock backstop fired in a frame+tail parse")
            continue
        got = ("exception", "step-budget-exceeded") if isinstance(r["exc"], g.StepBudgetExceeded) else _snapshot(r)
        w = _witness(label, base, tail=tail[:64], tail_kind=name, tail_len=len(tail), alone=repr(expect[:4])[:200], with_tail=repr(got[:4])[:200])
        if not _same_snapshot(expect, got):
            if expect[0] == "frame" and got[0] == "frame":
                mech = f"{svc}-frame-content-depends-on-octets-after-announced-length"
            elif expect[0] == "frame":
                mech = f"{svc}-valid-frame-rejected-when-octets-follow"
            elif got[0] == "frame":
                mech = f"{svc}-rejected-frame-accepted-when-octets-follow"
            else:
                mech = f"{svc}-exception-class-depends-on-octets-after-announced-length"
            ctx.violation(mech, w, f"KNXIPFrame.from_knx({base[:24].hex()}.. + {len(tail)} more octets [{name}]) gives {repr(got[:3])[:120]}, "
                          f"the same {len(base)} octets alone give {repr(expect[:3])[:120]}: the parse depends on octets beyond the announced length")
            ctx.distinct((svc, "tail", name, "differs"))
            continue
        if got[0] == "frame" and bytes(r["result"][1]) != tail:
            ctx.violation(f"{svc}-rest-differs-from-octets-after-announced-length", w,
                          f"from_knx(frame + {len(tail)} octets) returned a rest of {len(r['result'][1])} octets that is not the appended tail")
            continue
        ctx.count("tail_invariant_" + got[0])
        ctx.distinct((svc, "tail", name, got[0]))


def _selftest(ctx: Any) -> None:
    """The step monitor must abort a non-terminating call that runs xknx code."""

    def spin() -> None:
        while True:
            IndividualAddress(1)

    res = g.budgeted(spin, (), 5000, wall_s=5, heap=False)
    if isinstance(res["exc"], g.StepBudgetExceeded):
        ctx.count("budget_selftest_aborted_endless_loop")
    else:
        ctx.inconclusive(f"step-budget self test failed: {res['exc']!r}")
    ctx.extra["instrumented_code_objects"] = g.BUDGET.n_code


def _sweeps(ctx: Any, rng: Any, instances: int) -> None:
    """Complete truncation / octet sweeps over `instances` valid frames per body class."""
    idx = 0
    for cls in g.body_classes():
        for _ in range(instances):
            valid = g.guarded(ctx, "sweep frame", lambda: g.frame_bytes(g.gen_body(cls, rng)))
            idx += 1
            if valid is None or not ctx.mine(idx):
                continue
            if len(valid) > 120:
                # keep the sweep bounded: only the head of long frames is swept octet by octet
                head = 60
            else:
                head = len(valid)
            out = judge(ctx, "valid", valid)
            if out == "frame":
                ctx.count("valid_frames_parsed")
            for cut in range(0, min(len(valid), 140)):
                judge(ctx, "truncated-announced-longer", valid[:cut])
                if cut >= 6:
                    judge(ctx, "truncated-consistent", g._with_total(valid[:cut], cut))
            for total in (0, 1, 2, 3, 4, 5, 6, 7, len(valid) - 1, len(valid) + 1, 0xFFFF):
                judge(ctx, "announced-length-wrong", g._with_total(valid, total))
                judge(ctx, "announced-length-wrong", g._with_total(valid, total) + b"\x06\x10\x05\x30\x00\x06")
            values = range(256) if len(valid) <= ctx.scale(12, 26) else g._INTERESTING
            for pos in range(head):
                for v in values:
                    if v != valid[pos]:
                        judge(ctx, "octet-mutated", valid[:pos] + bytes((v,)) + valid[pos + 1 :])


def run(ctx: Any) -> None:
    ctx.rule = (
        "per service type code: hostile frames from valid ones (truncated at every length, octet sweeps, wrong announced lengths, "
        "trailing octets) and from hostile DIB/SRP/CRI/CRD/HPAI structures; many-minimal-DIB frames; random strings; "
        "distinct = (service type, generator label, min(len,48), outcome class)"
    )
    ctx.require(
        "returned_frame",
        "could_not_parse",
        "incomplete_legit",
        "line_events",
        "heap_peak_samples",
        "budget_selftest_aborted_endless_loop",
        "valid_frames_parsed",
        "tail_invariant_frame",
        "tail_invariant_exception",
    )
    rng = ctx.rng
    _selftest(ctx)
    codes = g.ALL_SERVICE_CODES + [0x0000, 0x0200, 0x020D, 0x0534, 0x0956, 0xFFFF]
    ctx.extra["service_codes_driven"] = len(codes)
    ctx.extra["body_classes"] = len(g.body_classes())

    # 1. complete sweeps on valid frames of every body class
    _sweeps(ctx, rng, ctx.scale(1, 16))

    # 2. structure-aware hostile frames per service code
    per = ctx.scale(500, 20000) // ctx.nshards
    for code in codes:
        for label, data in g.guarded(ctx, "hostile_for_service", g.hostile_for_service, code, rng, per) or []:
            judge(ctx, label, data)
        if len(ctx.samples) < 3:
            label, data = (g.guarded(ctx, "hostile_for_service", g.hostile_for_service, code, rng, 1) or [("empty-body", g.header(code, 6))])[0]
            ctx.sample({"label": label, "data": data[:80]})
            judge(ctx, label, data)

    # 3. the worst legitimate case for time and memory: very many minimal DIBs
    sizes = ctx.scale((1000, 4000), (1000, 4000, 16000, 65000))
    i = 0
    for svc in (0x0204, 0x0202, 0x020C):
        for k, unit in enumerate(g.TINY_DIB_UNITS):
            for size in sizes + ((16000,) if ctx.quick and k == (svc & 3) else ()):
                i += 1
                if ctx.mine(i):
                    judge(ctx, "many-minimal-dibs", g.guarded(ctx, "many_tiny_dibs", g.many_tiny_dibs, svc, size, rng, unit) or b"")
    # and a long zero-filled / 0xFF-filled body per DIB/SRP carrying service
    for svc in (0x0204, 0x0202, 0x020C, 0x020B):
        for fill in (0, 0xFF, 2):
            i += 1
            if ctx.mine(i):
                pre = b"" if svc == 0x0204 else bytes((8, 1, 10, 0, 0, 1, 0x0E, 0x57))
                body = pre + bytes((fill,)) * 3000
                judge(ctx, "long-filled-body", g.header(svc, 6 + len(body)) + body)

    # 4. random byte strings
    for label, data in g.guarded(ctx, "random_strings", g.random_strings, rng, ctx.scale(20000, 600000) // ctx.nshards) or []:
        judge(ctx, label, data)
    g.harness_verdict(ctx)
    ctx.sample({"label": "zero-length DIB", "data": bytes.fromhex("061002040008 0003".replace(" ", ""))})


def replay(ctx: Any, witness: dict[str, Any]) -> None:
    data = witness["data"]
    data = bytes.fromhex(data[4:]) if isinstance(data, str) and data.startswith("hex:") else bytes(data)
    if witness.get("data_truncated_in_witness"):
        ctx.inconclusive("witness holds only the first 600 octets of the input; re-run the seed instead")
        return
    ctx.require("line_events")
    judge(ctx, witness.get("label", "replay"), data)
    ctx.distinct("replay-a")
    ctx.distinct("replay-b")
