"""C42 timed resets of Switch / BinarySensor and BinarySensor press counters.

Real devices on the virtual loop (real telegram queue and task registry, fake
interface confirming at once, `time.time()` of binary_sensor shimmed to the
virtual clock).  Generated on/off telegram histories (GroupValueWrite and
GroupValueResponse mixes, value-unchanged repeats, own commands looped back) with
random gaps; the state and the counter are probed right after every telegram and
at reset-eps, reset, reset+eps (resp. window-eps, window, window+eps) and compared
with a reference timer / counter model that is advanced telegram by telegram.
"""

from __future__ import annotations

import random

from vlib.dev_harness import DevHarness

LEVEL = "exploration"
TECHNIQUE = "runtime monitor: reference timer/counter model compared with device state probed on the virtual clock"
LEVEL_TEXT = (
    "Generated telegram histories (quick 520, thorough 16 x 8000; 3..14 telegrams each) for Switch(reset_after), BinarySensor(reset_after) and "
    "BinarySensor(context_timeout) over invert / state-address / ignore_internal_state / always_callback options, telegram kinds (write, response, "
    "own command, state address), value-unchanged repeats, connection flaps (DISCONNECTED/CONNECTING/CONNECTED through the real ConnectionManager) in 55% of the histories, gaps drawn around the configured times (fractions, just below, just above, far beyond). "
    "Exploration: histories are sampled."
)
LEVEL_NOTE = (
    "Trusted: virtual loop, clock shim, fake interface (confirms at once, so a Switch's own off telegram is looped back in the same instant). "
    "Telegram times lie on a 2^-6 s grid, probes at +-2^-10 s, so a probe never coincides with a telegram; a telegram is never placed exactly on a "
    "reset / window expiry (that instant's order is not specified by the statement). Judged, for GroupValueWrite AND GroupValueResponse telegrams: "
    "state right after every telegram; still on at reset-2^-10 and off at reset / reset+2^-10 measured from the LAST 'on' telegram of either kind "
    "(every 'on' that finds the device on restarts the timer). One case follows the observation instead of being judged: a GroupValueResponse 'on' "
    "that reaches a BinarySensor (always_callback=False) which is off only because of a timed reset - RemoteValue sees an unchanged value, the code "
    "leaves the sensor off, the statement does not say it must turn on; if it does turn on, the timer rule applies from there. Counter == number of "
    "same-state GroupValueWrite telegrams in the current chain (consecutive gaps < timeout, per state, as the suite's test_counter documents) after "
    "every telegram and at window-2^-10, and 0 at window / window+2^-10. For GroupValueResponse the documentation says 'ignored' for counting while the "
    "statement counts telegrams: each response must be EITHER counted like a write OR ignored completely (state, counters, window untouched); the "
    "model adopts whichever the device did; anything else is a violation. Recorded only: device callbacks and the combination reset_after + "
    "context_timeout (a timed reset is not a telegram but is counted by the code)."
)
SHARDS = {"quick": 1, "thorough": 16}
TIMEOUT = {"quick": 120, "thorough": 1500}

G = 2.0**-6
E = 2.0**-10
GA, GA_STATE = "3/0/1", "3/0/2"


def gen(rng: random.Random, index: int) -> dict:
    kind = rng.choice(("switch", "switch", "bs_reset", "bs_reset", "bs_reset", "bs_counter", "bs_counter", "bs_combo"))
    base = rng.choice((0.25, 0.5, 1.0, 1.0, 2.0, 3.0, 0.125, 5.0))
    spec: dict = {"index": index, "kind": kind, "invert": rng.random() < 0.35}
    if kind == "switch":
        spec["reset_after"] = base
        spec["state_address"] = rng.random() < 0.4
    elif kind == "bs_reset":
        spec["reset_after"] = base
        spec["ignore_internal_state"] = rng.random() < 0.4
        spec["always_callback"] = rng.random() < 0.35
    elif kind == "bs_counter":
        spec["context_timeout"] = base
        spec["always_callback"] = rng.random() < 0.3
    else:
        spec["context_timeout"] = base
        spec["reset_after"] = rng.choice((0.25, 0.5, 1.0, 2.0))
    n = rng.randint(3, 14)
    events = []
    expiries: set = set()
    t = 0.0
    same_state_bias = rng.choice((rng.random(), rng.random(), 0.9, 1.0))
    response_rate = rng.choice((0.0, 0.0, 0.2, 0.4, 0.6))
    junk_rate = rng.choice((0.0, 0.0, 0.15, 0.3))
    last = True
    for _ in range(n):
        c = rng.random()
        if c < 0.15:
            gap = G
        elif c < 0.35:
            gap = base / 4
        elif c < 0.5:
            gap = base / 2
        elif c < 0.65:
            gap = base - G
        elif c < 0.8:
            gap = base + G
        elif c < 0.9:
            gap = 2 * base + G
        else:
            gap = int(rng.uniform(0, 3 * base) / G) * G + G
        gap = max(G, gap)
        t += gap
        while t in expiries:  # never exactly on a reset / window expiry of an earlier telegram
            t += G
        if rng.random() < same_state_bias:
            on = last
        else:
            on = rng.random() < 0.6
        last = on
        if rng.random() < junk_rate:
            # not an on/off telegram: a payload the 1-bit remote value rejects, or a GroupValueRead; the reference ignores it
            events.append({"t": t, "on": last, "how": "junk", "junk": rng.choice(("array1", "array2", "binary_big", "read")),
                           "as": rng.choice(("write", "write", "response"))})
            continue
        how = "write"
        k = rng.random()
        if k < response_rate:
            how = "response"
        elif kind == "switch" and k < response_rate + 0.25:
            how = "command"
        if kind == "switch" and how in ("write", "response") and spec["state_address"] and rng.random() < 0.4:
            how += "_state"
        events.append({"t": t, "on": on, "how": how})
        for key in ("reset_after", "context_timeout"):
            if spec.get(key) is not None:
                expiries.add(t + spec[key])
    spec["events"] = events
    # connection flaps through the real ConnectionManager, at odd multiples of 2^-7 s (never on a telegram, an expiry or a probe)
    flaps = []
    if rng.random() < 0.55:
        for _ in range(rng.randint(1, 3)):
            a = (2 * rng.randint(0, int((t + 2 * base) / G)) + 1) * G / 2
            dur = rng.choice((0.0, G, base / 2, base, 2 * base + G))
            seq = [(a, "DISCONNECTED")]
            if rng.random() < 0.5:
                seq.append((a + dur / 2 if dur else a, "CONNECTING"))
            seq.append((a + dur, "CONNECTED"))
            # keep every instant off the telegram grid
            flaps.extend(((int(x / G) * G + G / 2), st) for x, st in seq)
    spec["flaps"] = flaps
    # life-cycle events that cancel internal tasks without touching the telegram history (counter sensors only: what a cancelled
    # reset timer should do is not covered by the statement): XKNX.stop()+start(), device remove + re-add
    life = []
    if kind == "bs_counter" and rng.random() < 0.6:
        for _ in range(rng.randint(1, 3)):
            if rng.random() < 0.7:  # right after a telegram, i.e. while its context window is open
                a = rng.choice(events)["t"] + G / 2 + G / 4
            else:
                a = (2 * rng.randint(0, int((t + base) / G)) + 1) * G / 2 + G / 4
            life.append((a, rng.choice(("restart_xknx", "readd_device"))))
    spec["lifecycle"] = sorted(life)
    if life:
        # keep the reference exact: whether a response was counted cannot be read off the counter while stale counts may linger
        for e in events:
            if e["how"] == "response":
                e["how"] = "write"
    return spec


class Model:
    """Reference timer / counter, advanced telegram by telegram."""

    def __init__(self, r: float | None, c: float | None) -> None:
        self.r, self.c = r, c
        self.st: bool | None = None  # state set by the last effective telegram
        self.deadline: float | None = None  # reset expiry of the last effective 'on'
        self.rv: bool | None = None  # value of the last telegram of any kind (what RemoteValue holds)
        self.cnt = {True: 0, False: 0}
        self.last_t: float | None = None
        self.window_end: float | None = None
        self.tasks_cancelled = False  # a life-cycle event cancelled the context task since the last counted telegram
        self.on_chain = 0  # number of 'on' telegrams that found the device on since it last turned on (for mechanism names)
        self.last_on_kind = ""

    def state(self, t: float) -> bool | None:
        if self.st is None:
            return None
        if self.st and self.deadline is not None and t >= self.deadline:
            return False
        return self.st

    def counter(self, t: float) -> int:
        if self.window_end is None or t >= self.window_end or self.st is None:
            return 0
        return self.cnt[self.st]

    def telegram(self, t: float, on: bool, kind: str) -> None:
        """An effective telegram (state + timer)."""
        was_on = bool(self.state(t))
        self.st = on
        if on:
            self.on_chain = self.on_chain + 1 if was_on else 0
            self.last_on_kind = kind
            self.deadline = None if self.r is None else t + self.r
        else:
            self.deadline = None
            self.on_chain = 0

    def counted(self, t: float, on: bool) -> dict:
        """Counters after counting a telegram of state `on` at t (pure)."""
        if self.last_t is not None and t - self.last_t < self.c:
            cnt = dict(self.cnt)
            cnt[on] += 1
        else:
            cnt = {True: 0, False: 0}
            cnt[on] = 1
        return cnt

    def count(self, t: float, on: bool) -> None:
        self.cnt = self.counted(t, on)
        self.tasks_cancelled = False
        self.last_t = t
        self.window_end = t + self.c
        self.st = on


def run_case(ctx, spec: dict) -> str | None:
    from xknx.devices import BinarySensor, Switch
    from xknx.dpt import DPTBinary

    kind = spec["kind"]
    r = spec.get("reset_after")
    c = spec.get("context_timeout")
    inv = spec["invert"]
    events = spec["events"]
    always_cb = spec.get("always_callback", False)
    judged = kind != "bs_combo"
    name = "Switch" if kind == "switch" else "BinarySensor"
    found: list[str] = []
    trace: list = []
    callbacks: list = []
    h = DevHarness()
    model = Model(r if kind != "bs_combo" else r, c)

    def viol(mech: str, msg: str, extra: dict | None = None) -> None:
        w = {"spec": spec, "trace": trace[-14:], "callbacks": callbacks[-8:]}
        if extra:
            w.update(extra)
        ctx.violation(mech, w, msg)
        found.append(mech)

    # ---- timeline --------------------------------------------------------------
    times = {e["t"] for e in events}
    points: list[tuple[float, int, str, dict | None]] = []
    for e in events:
        points.append((e["t"], 0, "event", e))
        if e["how"] == "junk":
            continue
        if r is not None and e["on"]:
            for d, tag in ((r - E, "reset-eps"), (r, "reset"), (r + E, "reset+eps")):
                points.append((e["t"] + d, 1, tag, e))
        if c is not None:
            for d, tag in ((c - E, "window-eps"), (c, "window"), (c + E, "window+eps")):
                points.append((e["t"] + d, 1, tag, e))
    for i, (lt, lkind) in enumerate(spec.get("lifecycle", [])):
        points.append((lt, 0, "life", {"kind": lkind, "i": i}))
    for i, (ft, fstate) in enumerate(spec.get("flaps", [])):
        points.append((ft, 0, "conn", {"state": fstate, "i": i}))
    points.sort(key=lambda p: (p[0], p[1], p[3].get("i", 0) if p[2] == "conn" else 0))

    async def scenario() -> None:
        await h.start()
        t0 = h.now()

        def cb(dev) -> None:
            callbacks.append((h.now() - t0, bool(dev.state) if dev.state is not None else None, getattr(dev, "counter", None)))
            ctx.count("device_callbacks")

        if kind == "switch":
            dev = Switch(h.xknx, "sw", group_address=GA, group_address_state=GA_STATE if spec["state_address"] else None,
                         invert=inv, reset_after=r, sync_state=False, device_updated_cb=cb)
        else:
            dev = BinarySensor(h.xknx, "bs", group_address_state=GA, invert=inv, reset_after=r, context_timeout=c,
                               ignore_internal_state=spec.get("ignore_internal_state", False),
                               always_callback=always_cb, sync_state=False, device_updated_cb=cb)
        h.xknx.devices.async_add(dev)

        def probe(t: float, tag: str) -> bool:
            ctx.ev()
            st = dev.state
            cnt = getattr(dev, "counter", None)
            trace.append((tag, t, st, cnt))
            if not judged:
                ctx.count("probe_recorded_only")
                if c is not None and cnt != model.counter(t):
                    ctx.count("combo_counter_differs_from_telegram_count")
                return True
            if kind != "bs_counter":
                exp = model.state(t)
                if exp is not None:
                    ctx.count("probe_state")
                    if bool(st) != exp or st is None:
                        if exp:
                            mech = f"{name}-off-before-reset-time"
                            if model.on_chain > 0:
                                mech += "-timer-not-restarted-by-later-on" + ("-response" if model.last_on_kind.startswith("response") else "")
                            elif tag == "after-telegram":
                                mech = f"{name}-on-telegram-leaves-device-off" + ("-response" if model.last_on_kind.startswith("response") else "")
                        elif model.st and model.deadline is not None and t >= model.deadline:
                            mech = f"{name}-still-on-after-reset-time" + ("-repeated-on" if model.on_chain > 0 else "")
                        else:
                            mech = f"{name}-state-differs-from-last-telegram"
                        viol(mech, f"{tag} at +{t}: state {st!r}, reference {exp}", {"at": t, "tag": tag})
                        return False
            if c is not None:
                expc = model.counter(t)
                if model.tasks_cancelled and model.window_end is not None and t >= model.window_end:
                    # clearing the counter when the window passes is done by the cancelled task; the statement only says what is
                    # counted, so this reading is recorded; the next telegram must start a new chain all the same
                    ctx.count("probe_counter_after_cancelled_window_recorded_only")
                    return True
                ctx.count("probe_counter")
                if expc > 1:
                    ctx.count("probe_counter_above_one")
                if cnt != expc:
                    if expc == 0:
                        mech = "BinarySensor-counter-not-cleared-after-context-window"
                    elif cnt is not None and cnt < expc:
                        mech = "BinarySensor-counter-below-telegrams-in-chain"
                    else:
                        mech = "BinarySensor-counter-above-telegrams-in-chain"
                    viol(mech, f"{tag} at +{t}: counter {cnt!r}, reference {expc}", {"at": t, "tag": tag})
                    return False
            return True

        from xknx.core import XknxConnectionState
        from xknx.core.connection_state import XknxConnectionType

        for t, _o, tag, e in points:
            await h.sleep_until(t0 + t)
            if tag == "life":
                # internal tasks are cancelled; the telegram history - and therefore the reference chain - is untouched
                ctx.count("lifecycle_" + e["kind"])
                if model.window_end is not None and t < model.window_end:
                    ctx.count("lifecycle_while_context_window_open")
                    if model.cnt[True] and model.cnt[False]:
                        ctx.count("lifecycle_while_both_states_counted")
                trace.append(("life", t, e["kind"]))
                if e["kind"] == "restart_xknx":
                    await h.xknx.stop()
                    await h.xknx.start()
                else:
                    h.xknx.devices.async_remove(dev)
                    h.xknx.devices.async_add(dev)
                model.tasks_cancelled = True
                await h.settle()
                if not probe(t, "after-" + e["kind"]):
                    return
                continue
            if tag == "conn":
                # the reference timer / counter ignores connection state changes
                state = XknxConnectionState[e["state"]]
                h.xknx.connection_manager.connection_state_changed(
                    state, XknxConnectionType.TUNNEL_TCP if state is XknxConnectionState.CONNECTED else XknxConnectionType.NOT_CONNECTED)
                trace.append(("conn", t, e["state"]))
                ctx.count("connection_" + e["state"].lower())
                if state is XknxConnectionState.CONNECTED:
                    if model.state(t) and model.deadline is not None:
                        ctx.count("reconnect_while_reset_timer_pending")
                    if model.window_end is not None and t < model.window_end:
                        ctx.count("reconnect_while_context_window_open")
                await h.settle()
                if not probe(t, "after-connection-" + e["state"].lower()):
                    return
                continue
            if tag != "event":
                if t in times:
                    continue  # probed by the telegram at that instant
                await h.settle()
                ctx.count("probe_" + tag)
                if not probe(t, tag):
                    return
                continue
            if e["how"] == "junk":
                from xknx.dpt import DPTArray

                ctx.count("junk_" + e["junk"])
                if model.state(t) and model.deadline is not None:
                    ctx.count("junk_while_reset_timer_pending")
                if model.window_end is not None and t < model.window_end:
                    ctx.count("junk_while_context_window_open")
                if e["junk"] == "read":
                    h.incoming_read(GA)
                else:
                    junk = {"array1": DPTArray((1,)), "array2": DPTArray((0, 1)), "binary_big": DPTBinary(2 + int(e["t"] * 64) % 60)}[e["junk"]]
                    (h.incoming_write if e["as"] == "write" else h.incoming_response)(GA, junk)
                trace.append(("rx-junk", t, e["junk"], e["as"]))
                await h.settle()
                if not probe(t, "after-junk-telegram"):
                    return
                continue
            on, how = e["on"], e["how"]
            payload = DPTBinary(int(on) ^ int(inv))
            ctx.count("telegram_" + ("on" if on else "off"))
            ctx.count("how_" + how)
            is_response = how.startswith("response")
            if how == "write":
                h.incoming_write(GA, payload)
            elif how == "write_state":
                h.incoming_write(GA_STATE, payload)
            elif how == "response":
                h.incoming_response(GA, payload)
            elif how == "response_state":
                h.incoming_response(GA_STATE, payload)
            elif on:
                await dev.set_on()
            else:
                await dev.set_off()
            trace.append(("tx" if how == "command" else "rx", t, on, how))
            await h.settle()
            # ---- advance the reference model ------------------------------------
            if kind == "bs_counter" or kind == "bs_combo":
                if not is_response:
                    model.count(t, on)
                else:
                    # counted like a write, or ignored completely: adopt what the device did
                    obs = (dev.state, dev.counter)
                    exp_a = (on, model.counted(t, on)[on])
                    exp_b = (model.st, model.counter(t))
                    if obs == exp_a and obs != exp_b:
                        ctx.count("response_counted_like_a_write")
                        model.count(t, on)
                    elif obs == exp_b:
                        ctx.count("response_ignored_for_counting")
                    elif judged:
                        ctx.ev()
                        viol("BinarySensor-response-neither-counted-nor-ignored",
                             f"response {'on' if on else 'off'} at +{t}: (state, counter) = {obs}; counted would be {exp_a}, ignored {exp_b}", {"at": t})
                        return
                if kind == "bs_combo":
                    model.telegram(t, on, how)
                    model.rv = on
            else:
                ambiguous = (kind == "bs_reset" and is_response and on and not always_cb and model.rv is True
                             and model.state(t) is False)
                if ambiguous:
                    # off only because of a timed reset; RemoteValue sees an unchanged value
                    if dev.state:
                        ctx.count("response_on_after_timed_reset_turned_sensor_on")
                        model.telegram(t, True, how)
                    else:
                        ctx.count("response_on_after_timed_reset_left_sensor_off")
                else:
                    if is_response:
                        ctx.count("response_judged")
                        if on and model.state(t):
                            ctx.count("response_on_while_on_must_restart_timer")
                    elif on and model.state(t):
                        ctx.count("write_on_while_on_must_restart_timer")
                    model.telegram(t, on, how)
                model.rv = on
            if not probe(t, "after-telegram"):
                return
        # sanitizer diagnostics: the statement says nothing about exceptions, so these are recorded, never judged
        for ex in h.swallowed_exceptions():
            ctx.count(f"diagnostic_swallowed_{ex['exc_type']}")
            diag = ctx.extra.setdefault("diagnostics", [])
            if len(diag) < 3:
                diag.append({"log": ex, "spec_index": spec["index"], "trace": [list(map(str, t)) for t in trace[-8:]]})
        for ex in h.loop.exceptions:
            ctx.count(f"diagnostic_loop_exception_{ex['type']}")
        if kind == "switch":
            ctx.count("switch_off_telegrams_sent", sum(1 for s in h.iface.sent if s.kind == "write"))

    try:
        h.run(scenario(), max_vtime=1e4)
    finally:
        h.close()
    if not found:
        ctx.distinct((kind, "".join(("1" if e["on"] else "0") + e["how"][0] for e in events),
                      tuple(round((b["t"] - a["t"]) / (r or c), 2) for a, b in zip(events, events[1:]))))
    return found[0] if found else None


def run(ctx):
    ctx.rule = (
        "history = 3..14 on/off telegrams: incoming GroupValueWrite and GroupValueResponse (response share 0 / 20 / 40 / 60 % per history), for Switch "
        "also own set_on/set_off looped back and telegrams on the state address; same-state repeats with probability up to 1; gaps from {2^-6, 1/4, "
        "1/2, 1-2^-6, 1+2^-6, 2+2^-6, random} x the configured reset / context time; distinct = (device kind, on/off+source string, gap ratios)."
    )
    ctx.require("probe_state", "probe_counter", "probe_counter_above_one", "probe_reset-eps", "probe_reset", "probe_reset+eps",
                "probe_window-eps", "probe_window", "telegram_on", "telegram_off", "how_command", "how_write", "how_response",
                "response_judged", "response_on_while_on_must_restart_timer", "write_on_while_on_must_restart_timer",
                "response_ignored_for_counting", "response_counted_like_a_write",
                "reconnect_while_reset_timer_pending", "reconnect_while_context_window_open",
                "junk_while_reset_timer_pending", "junk_while_context_window_open", "junk_read", "junk_array2",
                "lifecycle_restart_xknx", "lifecycle_readd_device", "lifecycle_while_both_states_counted")
    n = ctx.scale(520, 8000 * 16)
    for i in range(n):
        if not ctx.mine(i):
            continue
        rng = random.Random(f"C42/{ctx.seed}/{i}")
        spec = gen(rng, i)
        run_case(ctx, spec)
        ctx.count("histories")
        ctx.count("histories_" + spec["kind"])
        if i < 4:
            ctx.sample(spec)


def replay(ctx, witness):
    ctx.rule = "replay of one recorded history"
    run_case(ctx, witness["spec"])
    ctx.distinct("replay")
    ctx.distinct("replay2")
