"""Entry point of the runtime-monitoring checks.

    /venv/bin/python -m vlib.run C07 --tier quick|thorough [--replay FILE]

cwd is /verif.  The real xknx is imported from $XKNX_SRC (default /repo, i.e. the
working tree; pure Python, so a fresh interpreter *is* the rebuild).

Verdicts are three-valued:
    exit 0  held on everything observed (KNOWN-FINDING lines may be printed)
    exit 1  violated   -> "VIOLATION property=Cxx replay=<path>"
    exit 2  inconclusive (a deciding monitor observed nothing, a shard died or
            timed out, the reference oracle failed its own self test)
"""

from __future__ import annotations

import argparse
import fnmatch
import hashlib
import importlib
import json
import os
import random
import subprocess
import sys
import time
import traceback
from typing import Any

VERIF = os.path.dirname(os.path.dirname(os.path.abspath(__file__)))
XKNX_SRC = os.environ.get("XKNX_SRC", "/repo")
GUARD = "XKNX_VERIF"
# where evidence/ and replays/ are written; scratch runs (mutants, seeded changes)
# set VERIF_OUT so that they never overwrite the evidence of the real tree
OUT = os.environ.get("VERIF_OUT", VERIF)

MAX_STORED_VIOLATIONS = 40
MAX_DISTINCT = 3_000_000


def _fp(obj: Any) -> int:
    """Stable 64-bit fingerprint."""
    return int.from_bytes(
        hashlib.blake2b(repr(obj).encode("utf-8", "replace"), digest_size=8).digest(),
        "big",
    )


def jsonable(obj: Any, depth: int = 0) -> Any:
    """Best-effort conversion of witnesses to JSON."""
    if depth > 6:
        return repr(obj)
    if obj is None or isinstance(obj, (bool, int, str)):
        return obj
    if isinstance(obj, float):
        if obj != obj or obj in (float("inf"), float("-inf")):
            return repr(obj)
        return obj
    if isinstance(obj, (bytes, bytearray)):
        return "hex:" + bytes(obj).hex()
    if isinstance(obj, dict):
        return {str(k): jsonable(v, depth + 1) for k, v in obj.items()}
    if isinstance(obj, (list, tuple, set, frozenset)):
        return [jsonable(v, depth + 1) for v in obj]
    return repr(obj)


class Inconclusive(Exception):
    """Raised by a check when it cannot decide."""


class Ctx:
    """What a check module sees."""

    def __init__(
        self, prop: str, tier: str, seed: int, shard: int = 0, nshards: int = 1
    ) -> None:
        self.prop = prop
        self.tier = tier
        self.quick = tier == "quick"
        self.seed = seed
        self.shard = shard
        self.nshards = nshards
        self.rng = random.Random(f"{prop}/{seed}/{shard}")
        self.evaluations = 0
        self.counters: dict[str, int] = {}
        self._distinct: set[int] = set()
        self.samples: list[Any] = []
        self.violations: list[dict[str, Any]] = []
        self.violation_counts: dict[str, int] = {}
        self.required: set[str] = set()
        self.inconclusive_reasons: list[str] = []
        self.rule = ""
        self.exhaustive: bool | None = None
        self.assumptions: list[str] = []
        self.extra: dict[str, Any] = {}
        self.t0 = time.time()
        self.replaying: dict[str, Any] | None = None

    # -- sizing ---------------------------------------------------------
    def scale(self, quick: Any, thorough: Any) -> Any:
        return quick if self.quick else thorough

    def mine(self, index: int) -> bool:
        """True if work item `index` belongs to this shard."""
        return index % self.nshards == self.shard

    # -- observations ---------------------------------------------------
    def ev(self, n: int = 1) -> None:
        self.evaluations += n

    def count(self, key: str, n: int = 1) -> None:
        self.counters[key] = self.counters.get(key, 0) + n

    def distinct(self, fingerprint: Any) -> None:
        if len(self._distinct) < MAX_DISTINCT:
            self._distinct.add(_fp(fingerprint))

    def sample(self, obj: Any, cap: int = 6) -> None:
        if len(self.samples) < cap:
            self.samples.append(jsonable(obj))

    def require(self, *keys: str) -> None:
        """Counters that must be non-zero, else the run is inconclusive."""
        self.required.update(keys)

    def inconclusive(self, reason: str) -> None:
        self.inconclusive_reasons.append(reason)

    # -- verdicts -------------------------------------------------------
    def violation(self, mechanism: str, witness: dict[str, Any], msg: str) -> None:
        """Record a violation.

        `mechanism` names *how* the property is broken (stable, no random values);
        it is what known_findings.json is keyed by.
        """
        self.violation_counts[mechanism] = self.violation_counts.get(mechanism, 0) + 1
        stored = sum(1 for v in self.violations if v["mechanism"] == mechanism)
        if stored < 3 and len(self.violations) < MAX_STORED_VIOLATIONS:
            self.violations.append(
                {
                    "mechanism": mechanism,
                    "msg": msg,
                    "witness": jsonable(witness),
                    "shard": self.shard,
                }
            )

    def check(
        self, cond: bool, mechanism: str, witness: dict[str, Any], msg: str
    ) -> bool:
        if not cond:
            self.violation(mechanism, witness, msg)
        return cond

    # -- (de)serialisation for shards -----------------------------------
    def dump(self) -> dict[str, Any]:
        return {
            "evaluations": self.evaluations,
            "counters": self.counters,
            "distinct": sorted(self._distinct),
            "samples": self.samples,
            "violations": self.violations,
            "violation_counts": self.violation_counts,
            "required": sorted(self.required),
            "inconclusive": self.inconclusive_reasons,
            "rule": self.rule,
            "exhaustive": self.exhaustive,
            "assumptions": self.assumptions,
            "extra": self.extra,
        }

    def merge(self, part: dict[str, Any]) -> None:
        self.evaluations += part["evaluations"]
        for k, v in part["counters"].items():
            self.counters[k] = self.counters.get(k, 0) + v
        self._distinct.update(part["distinct"])
        for s in part["samples"]:
            if len(self.samples) < 8:
                self.samples.append(s)
        for v in part["violations"]:
            if len(self.violations) < MAX_STORED_VIOLATIONS:
                self.violations.append(v)
        for k, v in part["violation_counts"].items():
            self.violation_counts[k] = self.violation_counts.get(k, 0) + v
        self.required.update(part["required"])
        self.inconclusive_reasons.extend(part["inconclusive"])
        self.rule = self.rule or part["rule"]
        if part["exhaustive"] is not None:
            self.exhaustive = (
                part["exhaustive"]
                if self.exhaustive is None
                else (self.exhaustive and part["exhaustive"])
            )
        for a in part["assumptions"]:
            if a not in self.assumptions:
                self.assumptions.append(a)
        for k, v in part["extra"].items():
            if isinstance(v, (int, float)) and isinstance(self.extra.get(k), (int, float)):
                self.extra[k] += v
            elif isinstance(v, list) and isinstance(self.extra.get(k), list):
                for item in v:
                    if item not in self.extra[k]:
                        self.extra[k].append(item)
            elif isinstance(v, dict) and isinstance(self.extra.get(k), dict):
                for kk, vv in v.items():
                    if isinstance(vv, (int, float)) and isinstance(
                        self.extra[k].get(kk), (int, float)
                    ):
                        self.extra[k][kk] += vv
                    else:
                        self.extra[k].setdefault(kk, vv)
            else:
                self.extra.setdefault(k, v)


def load_check(prop: str) -> Any:
    return importlib.import_module(f"checks.{prop.lower()}")


def setup_env() -> None:
    """Make the run deterministic and sealed."""
    if XKNX_SRC not in sys.path:
        sys.path.insert(0, XKNX_SRC)
    if VERIF not in sys.path:
        sys.path.insert(0, VERIF)
    os.environ[GUARD] = "1"
    import logging

    logging.getLogger("xknx").setLevel(logging.CRITICAL + 10)
    logging.getLogger("asyncio").setLevel(logging.CRITICAL + 10)
    logging.raiseExceptions = False
    import xknx  # noqa: F401

    src = os.path.realpath(os.path.dirname(os.path.dirname(xknx.__file__)))
    if src != os.path.realpath(XKNX_SRC):
        raise SystemExit(f"xknx imported from {src}, expected {XKNX_SRC}")


def load_known() -> list[dict[str, str]]:
    path = os.path.join(VERIF, "known_findings.json")
    if not os.path.exists(path):
        return []
    with open(path, encoding="utf-8") as fh:
        return list(json.load(fh).get("known", []))


def run_shard(prop: str, tier: str, seed: int, shard: int, nshards: int) -> Ctx:
    ctx = Ctx(prop, tier, seed, shard, nshards)
    random.seed(f"global/{prop}/{seed}/{shard}")
    mod = load_check(prop)
    try:
        mod.run(ctx)
    except Inconclusive as exc:
        ctx.inconclusive(str(exc))
    return ctx


def child_main(args: argparse.Namespace) -> int:
    setup_env()
    shard, nshards = (int(x) for x in args.shard.split("/"))
    import faulthandler

    faulthandler.enable()
    try:
        ctx = run_shard(args.prop, args.tier, args.seed, shard, nshards)
    except BaseException:  # harness failure: never a verdict
        traceback.print_exc()
        return 3
    with open(args.out, "w", encoding="utf-8") as fh:
        json.dump(ctx.dump(), fh)
    return 0


def finish(ctx: Ctx, level: str) -> int:
    """Classify, write evidence and replay files, print verdict lines."""
    try:
        note = getattr(load_check(ctx.prop), "LEVEL_NOTE", "")
    except Exception:  # noqa: BLE001
        note = ""
    if note and note not in ctx.assumptions:
        ctx.assumptions.insert(0, note)
    base = "trusted base: CPython, asyncio, the `cryptography` package; xknx imported from the working tree; real sockets, gateways and OS scheduling are replaced by in-memory endpoints and a virtual clock"
    if base not in ctx.assumptions:
        ctx.assumptions.append(base)
    known = [k for k in load_known() if k.get("property") == ctx.prop]
    new: list[dict[str, Any]] = []
    matched: dict[str, dict[str, str]] = {}
    new_mechs: list[str] = []
    for mech in ctx.violation_counts:
        hit = next(
            (k for k in known if fnmatch.fnmatchcase(mech, k["mechanism"])), None
        )
        if hit is not None:
            matched[hit["mechanism"]] = hit
        else:
            new_mechs.append(mech)
    for v in ctx.violations:
        if v["mechanism"] in new_mechs:
            new.append(v)

    for req in sorted(ctx.required):
        if ctx.counters.get(req, 0) == 0:
            ctx.inconclusive(f"required monitor counter '{req}' is zero")
    if ctx.evaluations == 0:
        ctx.inconclusive("no evaluations")
    distinct = len(ctx._distinct)
    if distinct < 2 and not new_mechs:
        ctx.inconclusive("fewer than 2 distinct non-trivial cases observed")

    os.makedirs(os.path.join(OUT, "evidence"), exist_ok=True)
    os.makedirs(os.path.join(OUT, "replays"), exist_ok=True)
    coverage: dict[str, Any] = {
        "evaluations": ctx.evaluations,
        "distinct_nontrivial": distinct,
        "rule": ctx.rule,
        "samples": ctx.samples[:8] or ["<none recorded>"],
        "observed": dict(sorted(ctx.counters.items())),
        "shards": ctx.nshards,
    }
    if ctx.exhaustive is not None:
        coverage["exhaustive"] = bool(ctx.exhaustive)
    coverage.update(ctx.extra)
    if ctx.violation_counts:
        coverage["violation_mechanisms"] = dict(sorted(ctx.violation_counts.items()))
    if matched:
        coverage["known_findings_matched"] = sorted(matched)
    if ctx.inconclusive_reasons:
        coverage["inconclusive"] = ctx.inconclusive_reasons[:20]
    evidence = {
        "property_id": ctx.prop,
        "tier": ctx.tier,
        "seed": ctx.seed,
        "level": level,
        "coverage": coverage,
        "assumptions": ctx.assumptions,
        "wall_s": round(time.time() - ctx.t0, 3),
        "violations": sum(ctx.violation_counts[m] for m in new_mechs),
    }
    if ctx.replaying is None:
        with open(
            os.path.join(OUT, "evidence", f"{ctx.prop}.json"), "w", encoding="utf-8"
        ) as fh:
            json.dump(evidence, fh, indent=1, sort_keys=True)
            fh.write("\n")

    for hit in matched.values():
        print(f"KNOWN-FINDING: property={ctx.prop} {hit['what']}")

    rc = 0
    if new:
        seen: set[str] = set()
        n = 0
        for v in new:
            if v["mechanism"] in seen:
                continue
            seen.add(v["mechanism"])
            path = os.path.join(
                OUT, "replays", f"{ctx.prop}-{ctx.tier}-{ctx.seed}-{n}.json"
            )
            n += 1
            with open(path, "w", encoding="utf-8") as fh:
                json.dump(
                    {
                        "property": ctx.prop,
                        "tier": ctx.tier,
                        "seed": ctx.seed,
                        "shard": v["shard"],
                        "nshards": ctx.nshards,
                        "mechanism": v["mechanism"],
                        "msg": v["msg"],
                        "witness": v["witness"],
                        "count": ctx.violation_counts[v["mechanism"]],
                    },
                    fh,
                    indent=1,
                )
                fh.write("\n")
            print(f"  {v['mechanism']}: {v['msg']}"[:600])
            print(f"VIOLATION property={ctx.prop} replay={path}")
        rc = 1
    elif ctx.inconclusive_reasons:
        for r in ctx.inconclusive_reasons[:10]:
            print(f"INCONCLUSIVE property={ctx.prop} {r}"[:600])
        rc = 2
    summary = (
        f"{ctx.prop} {ctx.tier} seed={ctx.seed}: "
        f"{'VIOLATED' if rc == 1 else 'INCONCLUSIVE' if rc == 2 else 'held'} "
        f"evaluations={ctx.evaluations} distinct={distinct} "
        f"wall={evidence['wall_s']}s"
    )
    print(summary)
    return rc


def parent_main(args: argparse.Namespace) -> int:
    setup_env()
    mod = load_check(args.prop)
    level = getattr(mod, "LEVEL", "exploration")
    shards = getattr(mod, "SHARDS", {}).get(args.tier, 1)
    shards = min(shards, int(os.environ.get("VERIF_MAX_SHARDS", "16")))
    timeout = getattr(mod, "TIMEOUT", {}).get(
        args.tier, 600 if args.tier == "quick" else 3600
    )

    if args.replay:
        with open(args.replay, encoding="utf-8") as fh:
            rep = json.load(fh)
        ctx = Ctx(args.prop, rep["tier"], rep["seed"], rep["shard"], rep["nshards"])
        ctx.replaying = rep
        random.seed(f"global/{args.prop}/{rep['seed']}/{rep['shard']}")
        if hasattr(mod, "replay"):
            mod.replay(ctx, rep["witness"])
        else:
            mod.run(ctx)
        return finish(ctx, level)

    total = Ctx(args.prop, args.tier, args.seed, 0, shards)
    if shards == 1:
        try:
            part = run_shard(args.prop, args.tier, args.seed, 0, 1)
        except Exception:
            traceback.print_exc()
            print(f"INCONCLUSIVE property={args.prop} harness error")
            return 2
        part.t0 = total.t0
        part.nshards = 1
        return finish(part, level)

    parts_dir = os.path.join(OUT, "evidence", ".parts")
    os.makedirs(parts_dir, exist_ok=True)
    procs = []
    for i in range(shards):
        out = os.path.join(parts_dir, f"{args.prop}-{os.getpid()}-{i}.json")
        cmd = [
            sys.executable,
            "-m",
            "vlib.run",
            args.prop,
            "--tier",
            args.tier,
            "--seed",
            str(args.seed),
            "--shard",
            f"{i}/{shards}",
            "--out",
            out,
        ]
        procs.append((i, out, subprocess.Popen(cmd, cwd=VERIF)))
    deadline = time.time() + timeout
    for i, out, proc in procs:
        try:
            rc = proc.wait(timeout=max(1.0, deadline - time.time()))
        except subprocess.TimeoutExpired:
            proc.kill()
            proc.wait()
            total.inconclusive(f"shard {i} exceeded the wall-clock watchdog")
            continue
        if rc != 0 or not os.path.exists(out):
            total.inconclusive(f"shard {i} died (rc={rc})")
            continue
        with open(out, encoding="utf-8") as fh:
            total.merge(json.load(fh))
        os.unlink(out)
    return finish(total, level)


def main() -> int:
    parser = argparse.ArgumentParser()
    parser.add_argument("prop")
    parser.add_argument("--tier", default=os.environ.get("VERIF_TIER", "quick"))
    parser.add_argument(
        "--seed", type=int, default=int(os.environ.get("VERIF_SEED", "0"))
    )
    parser.add_argument("--replay")
    parser.add_argument("--shard")
    parser.add_argument("--out")
    args = parser.parse_args()
    args.prop = args.prop.upper()
    if args.tier not in ("quick", "thorough"):
        args.tier = "quick"
    if os.environ.get("PYTHONHASHSEED") != "0":
        env = dict(os.environ, PYTHONHASHSEED="0")
        return subprocess.call([sys.executable, "-m", "vlib.run", *sys.argv[1:]], env=env, cwd=VERIF)
    if args.shard:
        return child_main(args)
    return parent_main(args)


if __name__ == "__main__":
    sys.exit(main())
