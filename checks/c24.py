"""C24 outgoing tunnel frames: sequencing, one repetition, one request in flight, success only by the own ACK."""

from __future__ import annotations

import asyncio
import itertools

from vlib.peers_tunnel import (
    ACK_BEHAVIOURS,
    SECURE_DEVICE_PASSWORD,
    SECURE_USER_ID,
    SECURE_USER_PASSWORD,
    Gateway,
    IterationInjector,
    SecureGateway,
    make_cemi,
    secure_harness,
    tag_of,
)
from vlib.vloop import Deadlock, LoopBudget, new_loop
from xknx import XKNX
from xknx.exceptions import CommunicationError
from xknx.io.tunnel import SecureTunnel, TCPTunnel, UDPTunnel

LEVEL = "fault_enumeration"
TECHNIQUE = ("runtime monitor: wire-history oracle (per connection epoch counters 0,1,2..., <= 2 transmissions per frame and "
             "connection, no second request while one is unacknowledged) + own-ACK rule for every send_cemi that returned normally")
LEVEL_TEXT = (
    "The real UDPTunnel talks to a scripted gateway on the virtual loop. The n-th TunnellingRequest transmission the gateway sees "
    "is answered according to the n-th letter of a behaviour string over {ok, lost, late 1.5 s, duplicate, stale (previous counter), "
    "other channel, error status, status octet outside ErrorCode (0x30/0x7F/0xFF as raw bytes, right channel and counter)}; ALL strings up to the stated length are run for 3 sends issued sequentially, concurrently and "
    "staggered, with and without auto-reconnect, with user disconnect()/connect() cycles on the same tunnel object between the "
    "sends, and with the gateway handing out a fresh / the same / a recycled channel id for every connection; every string up to a shorter bound is also run with a server DisconnectRequest "
    "injected at every event-loop iteration of its own baseline run (and in the middle of every sleep), combined with handshake "
    "faults of the reconnect (ConnectResponse late by 0.01/0.5/0.7/0.9/1.2/2.5 s, first one lost, DisconnectResponse lost) and "
    "with route_back / a route-back data endpoint. Plus counter wrap-around runs (300 sends) over UDP, TCP and the secure "
    "tunnel with random faults, and server disconnect / session close / TCP reset at every loop iteration of a TCP and a secure session. Bounded exhaustive fault enumeration; the bound is the behaviour-string length."
)
LEVEL_NOTE = (
    "Trusted: virtual loop, scripted gateway, asyncio. Judged: (1) the k-th new cEMI frame of a connection carries counter k mod "
    "256, the first one 0 (a counter skipped because a send last transmitted on the previous connection failed gets its own "
    "mechanism string); a repetition carries the counter of the frame it repeats; (2) a (connection, counter, frame) is "
    "transmitted at most twice; (3) no TunnellingRequest for another frame while an earlier send that already transmitted has "
    "not returned; (4) send_cemi returned normally => an ACK with the channel and counter of one of that send's transmissions and "
    "E_NO_ERROR was delivered after that transmission on the same connection. Not judged: which exception a failed send raises, "
    "what happens to error-status ACKs of other frames, frames on a channel the server already closed (recorded). TCP: counters only "
    "(no acknowledgements exist). SecureTunnel: counters only, against a scripted secure server (reference crypto, PBKDF2 memoised); its connections "
    "end by wrapped DisconnectRequest, session status close, or TCP reset."
)
SHARDS = {"quick": 1, "thorough": 16}
TIMEOUT = {"quick": 300, "thorough": 3000}

LETTERS = {"o": "ok", "l": "lost", "t": "late", "d": "dup", "s": "stale", "w": "wrongch", "e": "err", "x": "raw"}
RAW = ("raw30", "raw7f", "rawff")  # right channel and counter, status octet outside ErrorCode (0x30 / 0x7F / 0xFF), raw bytes


def behaviour(letter, n):
    name = LETTERS[letter]
    return RAW[n % 3] if name == "raw" else name
MODES = ("seq", "conc", "stag", "seq-noauto", "seq-reuse", "seq-noauto-reuse")


CONNECT_FAULTS = ("d0.01", "d0.5", "d0.7", "d0.9", "d1.2", "d2.5", "lost1", "disc-lost")


def run_case(script, mode="seq", n_sends=3, inject_at=None, transport="udp", faults=None, auto_reconnect_wait=3,
             server_disc_after_tx=None, inject_frac=0.0, connect_fault=None, route_back=False, gw_route_back=False,
             channel_policy="increasing"):
    """Run one scenario; returns (history, iterations, driver error).

    connect_fault shapes the handshakes of RE-connections (the user's first connect() is answered promptly):
    dX = ConnectResponse X seconds late (X < 1: every reconnect; X >= 1, i.e. beyond the client's timeout: the first one),
    lost1 = first reconnect ConnectResponse lost, disc-lost = the client's DisconnectRequests stay unanswered.
    """
    loop = new_loop()
    inj = IterationInjector(loop)
    if transport == "secure":
        gw = SecureGateway(loop)
        loop.on_connection = gw.on_connection
    else:
        gw = Gateway(loop)
    gw.data_endpoint_route_back = gw_route_back
    gw.channel_policy = channel_policy
    box = {"n": 0}
    if connect_fault is not None:
        if connect_fault.startswith("d") and connect_fault[1].isdigit():
            delay = float(connect_fault[1:])
            gw.connect_policy = lambda n, b: "ok" if n == 0 or (delay >= 1.0 and n > 1) else delay
        elif connect_fault == "lost1":
            gw.connect_policy = lambda n, b: "silent" if n == 1 else "ok"
        elif connect_fault == "disc-lost":
            gw.disc_policy = lambda n, b: "silent"
    if faults is not None:
        fl = {int(k): v for k, v in faults.items()}
        gw.ack_policy = lambda n, body: behaviour(fl[n], n) if n in fl else "ok"
    else:
        gw.ack_policy = lambda n, body: behaviour(script[n], n) if n < len(script) else "ok"
    auto = "noauto" not in mode

    def inject():
        if not gw.is_open:  # the server only disconnects a connection it has confirmed to the client
            gw.note("inject_skipped")
            return
        gw.note("inject_server_disconnect")
        box["n"] += 1
        if transport == "secure" and box["n"] % 3 == 2:
            gw.send_session_status(5)  # the server closes the secure session instead
        elif transport != "udp" and box["n"] % 3 == 0:
            gw.lose_transport()  # TCP connection reset
        else:
            gw.send_disconnect_request()

    if inject_at is not None:
        inj.at(inject_at, inject, inject_frac)
    if server_disc_after_tx:
        def on_tx(t, kind, info):
            if kind == "tx" and info.get("type") == "TunnellingRequest" and gw.n_treq in server_disc_after_tx:
                loop.call_later(0.002, inject)
        gw.listeners.append(on_tx)

    async def send(tunnel, tag):
        gw.note("send_start", tag=tag)
        try:
            await tunnel.send_cemi(make_cemi(tag))
        except CommunicationError as exc:
            gw.note("send_fail", tag=tag, exc=type(exc).__name__)
        except Exception as exc:  # noqa: BLE001 - recorded, judged only through the wire rules
            gw.note("send_fail", tag=tag, exc=type(exc).__name__, unexpected=repr(exc)[:120])
        else:
            gw.note("send_ok", tag=tag)

    async def main():
        xknx = XKNX()
        if transport == "udp":
            tunnel = UDPTunnel(xknx, cemi_received_callback=lambda raw: None, gateway_ip="10.0.0.2", gateway_port=3671,
                               local_ip="10.0.0.1", route_back=route_back, auto_reconnect=auto,
                               auto_reconnect_wait=auto_reconnect_wait)
        elif transport == "secure":
            tunnel = SecureTunnel(xknx, cemi_received_callback=lambda raw: None, gateway_ip="10.0.0.2", gateway_port=3671,
                                  user_id=SECURE_USER_ID, user_password=SECURE_USER_PASSWORD,
                                  device_authentication_password=SECURE_DEVICE_PASSWORD,
                                  auto_reconnect=auto, auto_reconnect_wait=auto_reconnect_wait)
        else:
            tunnel = TCPTunnel(xknx, cemi_received_callback=lambda raw: None, gateway_ip="10.0.0.2", gateway_port=3671,
                               auto_reconnect=auto, auto_reconnect_wait=auto_reconnect_wait)
        try:
            await tunnel.connect()
        except CommunicationError:
            gw.note("initial_connect_failed")
            return
        if mode.endswith("reuse"):
            # object reuse: the user closes and re-opens the connection on the same tunnel object between the sends
            for i in range(n_sends):
                await send(tunnel, i + 1)
                if i < n_sends - 1:
                    gw.note("user_cycle")
                    await tunnel.disconnect()
                    await asyncio.sleep(0.5 * (i % 2))
                    try:
                        await tunnel.connect()
                    except CommunicationError:
                        gw.note("reconnect_by_user_failed")
        elif mode in ("seq", "seq-noauto"):
            for i in range(n_sends):
                await send(tunnel, i + 1)
                if transport != "udp":  # no ACK to wait for: pace the sends so that server events fall between them
                    await asyncio.sleep(0.01)
        elif mode == "conc":
            await asyncio.gather(*(send(tunnel, i + 1) for i in range(n_sends)))
        else:  # staggered: the later sends queue behind a retrying earlier one
            async def delayed(i):
                await asyncio.sleep(0.4 * i)
                await send(tunnel, i + 1)
            await asyncio.gather(*(delayed(i) for i in range(n_sends)))
        await asyncio.sleep(2.0)  # late acknowledgements still arrive
        gw.note("user_disconnect")
        await tunnel.disconnect()

    err = None
    try:
        loop.run(main(), max_vtime=600 + 30 * n_sends)
    except (Deadlock, LoopBudget) as exc:
        err = repr(exc)
    finally:
        loop.finish()
    return gw.log, inj.now, err, list(inj.sleeps)


def judge_history(log, udp=True):
    """Oracle over one chronological history. Returns (list of (mechanism, detail), stats)."""
    problems = []
    stats = {"tx_requests": 0, "acks_delivered": 0, "epochs": 0, "send_ok": 0, "send_fail": 0, "repetitions": 0,
             "foreign_acks_delivered": 0, "requests_on_closed_channel_recorded": 0,
             "requests_to_announced_data_endpoint_recorded": 0, "requests_sent_elsewhere_recorded": 0,
             "raw_status_acks_delivered": 0}
    endpoint = None
    epoch = 0
    epoch_ch = None
    tags_in_epoch = []  # order of first transmission
    counter_of = {}  # (epoch, tag) -> counter
    tx_count = {}  # (epoch, seq, tag) -> n
    txs = {}  # tag -> list of (log index, epoch, ch, seq)
    acks = []  # (log index, epoch, ch, seq, status)
    open_sends = set()  # tags transmitted whose send has not returned
    phantom = offset = 0  # sends that failed in this epoch without having transmitted on it / tolerated counter offset
    done = set()
    for idx, (t, kind, info) in enumerate(log):
        typ = info.get("type")
        if kind == "rx" and typ == "ConnectResponse" and info["status"] == "E_NO_ERROR":
            epoch += 1
            epoch_ch = info["ch"]
            endpoint = info.get("data_endpoint") or ["10.0.0.2", 3671]
            tags_in_epoch = []
            phantom = offset = 0
            stats["epochs"] += 1
        elif kind == "tx" and typ == "TunnellingRequest":
            stats["tx_requests"] += 1
            tag = tag_of(bytes.fromhex(info["cemi"]))
            seq, ch = info["seq"], info["ch"]
            if ch != epoch_ch:
                stats["requests_on_closed_channel_recorded"] += 1
            if udp:
                stats["requests_to_announced_data_endpoint_recorded" if info.get("to") == endpoint
                      else "requests_sent_elsewhere_recorded"] += 1
            if tag not in tags_in_epoch:
                expected = (len(tags_in_epoch) + offset) & 0xFF
                with_phantom = (len(tags_in_epoch) + phantom) & 0xFF
                tags_in_epoch.append(tag)
                counter_of[(epoch, tag)] = seq
                if seq != expected and phantom > offset and seq == with_phantom:
                    # a send that was last transmitted on an EARLIER connection failed during this one and still
                    # consumed a counter of this connection
                    offset = phantom
                    problems.append(("counter-of-new-connection-consumed-by-send-that-failed-on-the-previous-one",
                                     {"tag": tag, "counter": seq, "expected": expected, "epoch": epoch, "at": idx}))
                elif seq != expected:
                    if expected == 0:
                        problems.append(("counter-not-restarted-at-0-on-new-connection",
                                         {"tag": tag, "counter": seq, "epoch": epoch, "at": idx}))
                    else:
                        problems.append(("new-frame-does-not-carry-next-counter",
                                         {"tag": tag, "counter": seq, "expected": expected, "epoch": epoch, "at": idx}))
            else:
                stats["repetitions"] += 1
                if seq != counter_of[(epoch, tag)]:
                    problems.append(("repetition-with-another-counter",
                                     {"tag": tag, "counter": seq, "first": counter_of[(epoch, tag)], "at": idx}))
            key = (epoch, seq, tag)
            tx_count[key] = tx_count.get(key, 0) + 1
            if udp and tx_count[key] == 3:
                problems.append(("frame-transmitted-more-than-twice-on-one-connection", {"tag": tag, "counter": seq, "at": idx}))
            if udp:
                others = sorted(open_sends - {tag})
                if others:
                    problems.append(("second-request-while-first-awaits-acknowledgement",
                                     {"tag": tag, "still_open": others, "at": idx}))
                if tag not in done:
                    open_sends.add(tag)
            txs.setdefault(tag, []).append((idx, epoch, ch, seq))
        elif kind == "rx" and typ == "TunnellingAck":
            stats["acks_delivered"] += 1
            if str(info["status"]).startswith("RAW_"):
                stats["raw_status_acks_delivered"] += 1
            acks.append((idx, epoch, info["ch"], info["seq"], info["status"]))
        elif kind in ("send_ok", "send_fail"):
            tag = info["tag"]
            open_sends.discard(tag)
            done.add(tag)
            stats[kind] += 1
            if kind == "send_fail" and udp and txs.get(tag) and txs[tag][-1][1] < epoch:
                phantom += 1
            if kind == "send_ok" and udp:
                mine = txs.get(tag, [])
                own = any(a_idx > t_idx and a_ep == t_ep and a_ch == t_ch and a_seq == t_seq and a_st == "E_NO_ERROR"
                          for (t_idx, t_ep, t_ch, t_seq) in mine for (a_idx, a_ep, a_ch, a_seq, a_st) in acks)
                if not own:
                    if not mine:
                        problems.append(("send-succeeded-without-transmission", {"tag": tag, "at": idx}))
                        continue
                    last_idx, l_ep, l_ch, l_seq = mine[-1]
                    since = [a for a in acks if a[0] > last_idx]
                    if any(a[2] == l_ch and a[3] != l_seq for a in since):
                        mech = "send-confirmed-by-ack-with-another-counter"
                    elif any(a[2] != l_ch for a in since):
                        mech = "send-confirmed-by-ack-for-another-channel"
                    elif any(a[4] != "E_NO_ERROR" for a in since):
                        mech = "send-confirmed-by-ack-with-error-status"
                    elif since:
                        mech = "send-confirmed-by-ack-of-an-earlier-connection"
                    else:
                        mech = "send-confirmed-without-any-acknowledgement"
                    problems.append((mech, {"tag": tag, "channel": l_ch, "counter": l_seq,
                                            "acks_since_last_transmission": [a[2:] for a in since], "at": idx}))
    for a in acks:
        if not any(a[2] == ch and a[3] == seq for lst in txs.values() for (_i, _e, ch, seq) in lst):
            stats["foreign_acks_delivered"] += 1
    return problems, stats


def shape(log):
    """Event-kind string of a history (fingerprint for 'distinct')."""
    out = []
    for _t, kind, info in log:
        typ = info.get("type", "")
        if kind == "tx" and typ == "TunnellingRequest":
            out.append(f"Q{info['seq']}")
        elif kind == "rx" and typ == "TunnellingAck":
            out.append(f"a{info['seq']}{'' if info['status'] == 'E_NO_ERROR' else '!'}")
        elif kind == "rx" and typ == "ConnectResponse":
            out.append("C")
        elif kind == "tx" and typ == "DisconnectRequest":
            out.append("D")
        elif kind == "rx" and typ == "DisconnectRequest":
            out.append("S")
        elif kind == "send_ok":
            out.append("+")
        elif kind == "send_fail":
            out.append("-")
    return "".join(out)


def brief(log, limit=60):
    out = []
    for t, kind, info in log:
        if kind in ("rx_done",):
            continue
        d = {k: v for k, v in info.items() if k not in ("cemi", "tr")}
        if "cemi" in info:
            d["tag"] = tag_of(bytes.fromhex(info["cemi"]))
        out.append([round(t - 1000, 4), kind, d])
    return out[:limit]


def judge_case(ctx, script, mode, inject_at=None, transport="udp", n_sends=3, sample=False, **kw):
    ctx.ev()
    log, iters, err, _sleeps = run_case(script, mode, n_sends=n_sends, inject_at=inject_at, transport=transport, **kw)
    if err is not None:
        ctx.count("driver_did_not_finish_recorded")
    problems, stats = judge_history(log, udp=transport == "udp")
    for k, v in stats.items():
        ctx.count(k, v)
    if transport != "udp":
        later = sum(1 for a, b in zip(shape(log).split("C")[2:], shape(log).split("C")[2:]) if "Q" in a)
        ctx.count(f"frames_on_later_connection_{transport}", later)
    if transport == "secure":
        ctx.count("epochs_secure", stats["epochs"])
        ctx.count("tx_requests_secure", stats["tx_requests"])
    if inject_at is not None and any(kind == "inject_server_disconnect" for _t, kind, _i in log):
        ctx.count("server_disconnects_injected")
    ctx.count(f"runs_{mode}_{transport}")
    raised = sum(1 for _t, k, _i in log if k == "rx_raised")
    if raised:
        ctx.count("receive_path_exceptions_recorded", raised)
    if kw.get("connect_fault"):
        ctx.count(f"runs_connect_fault_{kw['connect_fault']}")
        if any(k == "rx" and i.get("type") == "ConnectResponse" for _t, k, i in log[3:]):
            ctx.count("reconnects_completed_under_connect_fault")
    if kw.get("route_back"):
        ctx.count("runs_route_back")
    if kw.get("channel_policy"):
        ctx.count(f"runs_channel_ids_{kw['channel_policy']}")
        chans = [i["ch"] for _t, k, i in log if k == "rx" and i.get("type") == "ConnectResponse"]
        ctx.count("reconnects_with_the_same_channel_id", sum(1 for a, b in zip(chans, chans[1:]) if a == b))
    ctx.count("user_reconnects_on_same_object", sum(1 for _t, k, _i in log if k == "user_cycle"))
    late = sum(1 for (_t, k, i), (_t2, k2, i2) in zip(log, log[1:])
               if k == "send_fail" and k2 == "rx" and i2.get("type") == "ConnectResponse")
    if late:
        ctx.count("connect_response_right_after_failed_send", late)
    ctx.distinct((transport, mode, shape(log)))
    if sample:
        ctx.sample({"script": script, "mode": mode, "shape": shape(log)}, cap=6)
    seen = set()
    for mech, detail in problems:
        if mech in seen:
            continue
        seen.add(mech)
        ctx.violation(
            f"{transport}-{mech}",
            {"script": script, "mode": mode, "inject_at": inject_at, "transport": transport, "n_sends": n_sends,
             "kw": {k: (sorted(v) if isinstance(v, (set, frozenset)) else v) for k, v in kw.items()},
             "detail": detail, "history": brief(log)},
            f"{transport} tunnel, ack behaviours {[LETTERS[c] for c in script]} mode {mode}"
            f"{'' if inject_at is None else f' server disconnect at iteration {inject_at}'}: {mech} {detail}",
        )
    return iters


def all_scripts(max_len):
    for n in range(0, max_len + 1):
        for tup in itertools.product(LETTERS, repeat=n):
            yield "".join(tup)


def run(ctx):
    with secure_harness(ctx.seed):
        _run(ctx)


def _run(ctx):
    n_all = ctx.scale(3, 5)
    n_inj = ctx.scale(1, 2)
    ctx.rule = (f"all ACK-behaviour strings over {sorted(LETTERS.values())} of length <= {n_all} (later transmissions: ok) x modes "
                f"{MODES} with 3 sends; strings of length <= {n_inj} (+ 'll','lt') x 3 modes x server DisconnectRequest at every loop iteration of "
                "the baseline; 300-send wrap runs (UDP with sparse faults, TCP with server disconnects); distinct = (transport, mode, "
                "event-kind string of the wire history)")
    ctx.require("tx_requests", "acks_delivered", "repetitions", "epochs", "send_ok", "send_fail", "foreign_acks_delivered",
                "server_disconnects_injected", "raw_status_acks_delivered", "runs_conc_udp", "runs_seq_tcp", "runs_seq_secure", "runs_conc_secure",
                "epochs_secure", "tx_requests_secure", "runs_channel_ids_constant", "runs_channel_ids_recycled",
                "reconnects_with_the_same_channel_id", "user_reconnects_on_same_object", "runs_seq-reuse_udp", "runs_seq-noauto-reuse_udp", "frames_on_later_connection_secure", "frames_on_later_connection_tcp", "runs_route_back",
                "reconnects_completed_under_connect_fault", "connect_response_right_after_failed_send",
                *(f"runs_connect_fault_{cf}" for cf in CONNECT_FAULTS))
    assert (set(LETTERS.values()) - {"raw"}) | set(RAW) == set(ACK_BEHAVIOURS)
    i = 0
    for script in all_scripts(n_all):
        for mode in MODES:
            i += 1
            if not ctx.mine(i):
                continue
            if ctx.quick and len(script) == n_all and mode in ("stag", "seq-noauto-reuse"):
                continue  # quick budget: these two modes up to one letter less
            judge_case(ctx, script, mode, sample=script in ("ls", "low", "td") and mode == "seq")
            if mode in ("seq", "seq-reuse") and not (ctx.quick and len(script) == n_all):
                judge_case(ctx, script, mode, channel_policy="constant")
    ctx.extra["strings_enumerated"] = sum(len(LETTERS) ** k for k in range(n_all + 1))
    ctx.extra["bound"] = {"behaviour_string_length": n_all, "sends": 3, "disconnect_injection_string_length": n_inj}

    # server disconnect at every loop iteration of the baseline of that (script, mode)
    for script in list(all_scripts(n_inj)) + (["ll", "lt"] if n_inj < 2 else []):
        for mode in ("seq", "conc", "stag"):
            i += 1
            if not ctx.mine(i):
                continue
            _log, iters, _err, sleeps = run_case(script, mode)
            for k in range(iters):
                judge_case(ctx, script, mode, inject_at=k)
            # the same, with slow / lost handshakes of the reconnect, route_back, and in the middle of sleeps
            points = [(k, 0.0) for k in range(iters)] + [(k, 0.5) for k in sleeps]
            variants = [{"connect_fault": cf} for cf in CONNECT_FAULTS] + [{"route_back": True}, {"gw_route_back": True},
                                                                          {"channel_policy": "constant"},
                                                                          {"channel_policy": "recycled"}]
            if ctx.quick and script not in ("", "l", "ll", "lt"):
                variants = [{"connect_fault": "d0.7"}, {"connect_fault": "lost1"}, {"channel_policy": "constant"}]
            for k, frac in points:
                for kw in variants:
                    if kw.get("connect_fault") is None and frac:
                        continue
                    judge_case(ctx, script, mode, inject_at=k, inject_frac=frac, **kw)
            for kw in variants:  # reconnects the client starts itself (two lost ACKs) under the same handshakes
                judge_case(ctx, script, mode, **kw)

    # wrap-around: 300 sends
    rng = ctx.rng
    for rep in range(ctx.scale(2, 12)):
        i += 1
        if not ctx.mine(i):
            continue
        faults = {rng.randrange(1, 330): rng.choice("ldtswex") for _ in range(rng.randint(2, 8))}
        judge_case(ctx, "", "seq", n_sends=300, faults=faults)
        discs = {rng.randrange(1, 300) for _ in range(rng.randint(0, 3))}
        judge_case(ctx, "", "seq", n_sends=300, transport="tcp", server_disc_after_tx=discs)
        judge_case(ctx, "", "seq", n_sends=300, transport="udp", server_disc_after_tx=discs)
        discs = {rng.randrange(1, 300) for _ in range(rng.randint(3, 6))}  # disconnect / session close / TCP reset in turn
        judge_case(ctx, "", "seq", n_sends=300, transport="secure", server_disc_after_tx=discs)
        judge_case(ctx, "", "conc", n_sends=40, transport="secure", server_disc_after_tx={rng.randrange(1, 40), rng.randrange(1, 40)})
    # secure / TCP tunnel: server disconnect, session close or TCP reset at every loop iteration of a 3-send session
    for transport in ("secure", "tcp"):
        for mode in ("seq", "conc"):
            i += 1
            if not ctx.mine(i):
                continue
            _log, iters, _err, _sl = run_case("", mode, transport=transport)
            for k in range(iters):
                judge_case(ctx, "", mode, inject_at=k, transport=transport)
    ctx.exhaustive = True


def replay(ctx, witness):
    with secure_harness(ctx.seed):
        _replay(ctx, witness)


def _replay(ctx, witness):
    ctx.rule = "replay of one recorded scenario"
    kw = dict(witness.get("kw") or {})
    if "server_disc_after_tx" in kw:
        kw["server_disc_after_tx"] = set(kw["server_disc_after_tx"])
    judge_case(ctx, witness["script"], witness["mode"], inject_at=witness.get("inject_at"),
               transport=witness.get("transport", "udp"), n_sends=witness.get("n_sends", 3), **kw)
    ctx.distinct("replay")
    ctx.distinct("replay2")
