"""C23 incoming sequence counters: delivered once, in order; ACK rules (reference automaton)."""

from __future__ import annotations

import asyncio
import contextlib
import random

from vlib import knxip_gen as g
from vlib.peers_tunnel import Gateway, make_cemi, tag_of
from vlib.vloop import Deadlock, LoopBudget, new_loop
from xknx import XKNX
from xknx.cemi import CEMIFrame, CEMIMessageCode, CEMIMPropInfo, CEMIMPropReadResponse
from xknx.exceptions import CommunicationError
from xknx.io.device_management import DeviceManagement
from xknx.io.device_management_connection import UDPDeviceManagementConnection
from xknx.io.transport import UDPTransport
from xknx.io.tunnel import UDPTunnel
from xknx.profile.const import ResourceObjectType

LEVEL = "exploration"
TECHNIQUE = ("runtime monitor: reference automaton of the incoming sequence counter (expected := 0 per established connection; "
             "c == expected -> ack c + pass up + advance; c == expected-1 -> ack c; else nothing) compared per injected frame "
             "with the ACK frames on the fake transport and the cEMI payloads handed to the callback")
LEVEL_TEXT = (
    "Generated histories of server requests (in-order streams through a lossy / duplicating / reordering channel, counters chosen "
    "relative to the expected one, arbitrary counters, runs over the 255->0 wrap, server-initiated disconnects, gaps around the "
    "2 s out-of-order timer) are delivered to the real UDPTunnel, to the real DeviceManagement handler on a real UDPTransport and "
    "to the real UDPDeviceManagementConnection, each with route_back on and off and with the server announcing its data endpoint "
    "as an address or as the route-back HPAI, all on the virtual loop. Every frame carries a unique tag. Exploration: histories are "
    "sampled, the automaton is small and every (verdict, position-in-epoch class, endpoint) combination is counted."
)
LEVEL_NOTE = (
    "Trusted: virtual loop, scripted gateway. Judged per injected frame (reactions are matched by virtual instant, so deferred "
    "reactions in the same instant pass): number, counter, channel and status of acknowledgements, and which tags reach the "
    "callback, how often and in which order. A connection counts as established once its ConnectResponse has "
    "been delivered: every second block of histories also delivers server frames in the same datagram burst as each "
    "ConnectResponse (consecutive deliveries in one callback, and at +0 via call_soon), for the first connect and every reconnect; "
    "no frame is injected after either side sent a DisconnectRequest. Frames sharing an instant are matched in order. Only the "
    "first frame handled differently from the reference is reported per history. Not judged: order of ACK vs. callback, the tunnel's own 2 s reconnect shortcut (only that the counter "
    "restarts at 0 on the connection that follows), frames for another communication channel (not injected), the "
    "address an ACK is sent to (recorded against the data endpoint announced per connection)."
)
SHARDS = {"quick": 1, "thorough": 16}
TIMEOUT = {"quick": 300, "thorough": 3000}

GAPS = (0.001, 0.001, 0.01, 0.3, 1.0, 1.9, 1.999, 2.0, 2.001, 2.1, 3.5)
KINDS = ("tunnel", "devmgmt", "devconn")


def mgmt_cemi(tag):
    """M_PropInfo.ind whose data carries the tag (reaches indication_callback of the connection)."""
    return CEMIFrame(
        code=CEMIMessageCode.M_PROP_INFO_IND,
        data=CEMIMPropReadResponse(
            property_info=CEMIMPropInfo(object_type=ResourceObjectType.OBJECT_KNXNETIP_PARAMETER, property_id=52,
                                        number_of_elements=1, start_index=1),
            data=tag.to_bytes(3, "big")),
    ).to_knx()


def gen_history(rng, kind, size):
    """A list of ops; counters are resolved while running (relative to the reference automaton / the server stream)."""
    profile = rng.choice(("lossy", "lossy", "adversarial", "adversarial", "wrap", "mixed"))
    ops = []

    def gap():
        if rng.random() < 0.6:
            ops.append(["wait", rng.choice(GAPS)])

    if profile == "wrap":
        start = rng.choice((0, 0, 200, 250))
        ops.append(["burst", start])  # `start` in-order frames, fast
        for _ in range(rng.randint(40, 90)):
            r = rng.random()
            ops.append(["rel", 0] if r < 0.8 else ["rel", -1] if r < 0.9 else ["rel", rng.choice((-2, 1, 2, 128))])
            if rng.random() < 0.1:
                gap()
        return profile, ops
    for _ in range(size):
        r = rng.random()
        if rng.random() < 0.05:
            ops.append(rng.choice((["cycle", 0.0], ["cycle", 2.5], ["start_again"], ["start_again"])))
        if profile == "lossy":
            # the server's own stream 0,1,2,... through a lossy, duplicating, reordering channel
            if r < 0.70:
                ops.append(["srv", 0])
            elif r < 0.80:
                ops.append(["srv", 0])
                ops.append(["srvdup"])  # duplicated datagram / repetition after a lost ACK
            elif r < 0.88:
                ops.append(["srvskip"])  # lost datagram
            elif r < 0.96:
                ops.append(["srvswap"])  # two datagrams overtake each other
            else:
                ops.append(["disc"])
        elif profile == "adversarial":
            if r < 0.45:
                ops.append(["rel", 0])
            elif r < 0.65:
                ops.append(["rel", -1])
            elif r < 0.90:
                ops.append(["rel", rng.choice((-3, -2, 1, 2, 3, 127, 128, 129, 254))])
            elif r < 0.97:
                ops.append(["abs", rng.randrange(256)])
            else:
                ops.append(["disc"])
        else:  # mixed
            if r < 0.5:
                ops.append(["rel", 0])
            elif r < 0.6:
                ops.append(["rel", -1])
            elif r < 0.7:
                ops.append(["abs", rng.randrange(256)])
            elif r < 0.8:
                ops.append(["srv", 0])
            elif r < 0.9:
                ops.append(["rel", 1])
            else:
                ops.append(["disc"])
        gap()
    return profile, ops


class Ref:
    """Reference automaton, written from the statement."""

    def __init__(self):
        self.expected = 0
        self.established = False
        self.epoch = 0
        self.srv = 0  # the server's own outgoing counter
        self.in_epoch = 0

    def new_connection(self):
        self.expected = 0
        self.srv = 0
        self.established = True
        self.epoch += 1
        self.in_epoch = 0

    def evaluate(self, c):
        self.in_epoch += 1
        if c == self.expected:
            self.expected = (self.expected + 1) & 0xFF
            return "E"
        if c == (self.expected - 1) & 0xFF:
            return "R"
        return "O"


BURSTS = ([0], [0, 1], [0, 0, 1], [0, 1, 2], [0, 1, 1, 2], [1], [0, 2, 1], [255, 0])


def run_history(kind, ops, route_back=False, gw_route_back=False, burst=None, burst_seed=0, auto_reconnect=True,
                channel_policy="increasing"):
    """Deliver one history to the real endpoint; returns (injections, acks, callbacks, error, log)."""
    loop = new_loop()
    gw = Gateway(loop)
    gw.data_endpoint_route_back = gw_route_back
    gw.channel_policy = channel_policy
    ref = Ref()
    injections = []
    box = {"tag": 0}
    ack_type = "TunnellingAck" if kind == "tunnel" else "DeviceConfigurationAck"

    def listener(t, kind_, info):
        typ = info.get("type")
        if kind_ == "rx_done" and typ == "ConnectResponse":
            ref.new_connection()
        elif kind_ == "tx" and typ in ("DisconnectRequest", "ConnectRequest"):
            ref.established = False

    if kind != "devmgmt":
        gw.listeners.append(listener)
    brng = random.Random(burst_seed)

    def deliver_burst():
        # server frames in the same datagram burst as the ConnectResponse (initial connect and every reconnect)
        if not (ref.established and gw.channel is not None):
            return
        for c in brng.choice(BURSTS):
            inject(c, "burst with ConnectResponse", burst=True)

    if burst == "same-callback" and kind != "devmgmt":
        gw.after_connect_response = deliver_burst
    elif burst == "call-soon" and kind != "devmgmt":
        gw.after_connect_response = lambda: loop.call_soon(deliver_burst)

    def cb_raw(raw):
        gw.note("cb", tag=tag_of(raw))

    def cb_ind(cemi):
        gw.note("cb", tag=int.from_bytes(cemi.data.data, "big"))

    def inject(c, why, burst=False):
        c &= 0xFF
        box["tag"] += 1
        tag = box["tag"]
        epoch_pos = "first" if ref.in_epoch == 0 else "later"
        wrap = ref.expected in (255, 0) and ref.in_epoch > 0
        verdict = ref.evaluate(c)
        injections.append({"i": len(injections), "t": loop.time(), "epoch": ref.epoch, "c": c, "tag": tag, "verdict": verdict,
                           "why": why, "ch": gw.channel, "pos": epoch_pos, "wrap": wrap, "burst": burst})
        if kind == "tunnel":
            gw.send_tunnelling_request(c, make_cemi(tag, CEMIMessageCode.L_DATA_IND).to_knx())
        elif kind == "devmgmt":
            gw.send_device_configuration_request(c, make_cemi(tag, CEMIMessageCode.L_DATA_IND).to_knx())
        else:
            gw.send_device_configuration_request(c, mgmt_cemi(tag))

    async def main():
        reconnect = None
        if kind == "tunnel":
            ep = UDPTunnel(XKNX(), cemi_received_callback=cb_raw, gateway_ip="10.0.0.2", gateway_port=3671,
                           local_ip="10.0.0.1", route_back=route_back, auto_reconnect=auto_reconnect, auto_reconnect_wait=1)
            await ep.connect()
            if not auto_reconnect:
                async def reconnect():  # the user connects the SAME tunnel object again
                    gw.note("user_connect_again")
                    for _ in range(5):
                        try:
                            await ep.connect()
                            return
                        except CommunicationError:
                            await asyncio.sleep(1)
        elif kind == "devconn":
            ep = UDPDeviceManagementConnection(gateway_ip="10.0.0.2", gateway_port=3671, local_ip="10.0.0.1",
                                               route_back=route_back, indication_callback=cb_ind)
            await ep.connect()

            async def reconnect():
                try:
                    await ep.connect()
                except CommunicationError:
                    await ep.disconnect()
                    await ep.connect()
        else:
            transport = UDPTransport(local_addr=("10.0.0.1", 0), remote_addr=("10.0.0.2", 3671))
            await transport.connect()
            gw.transport = loop.datagram_transports[-1]
            gw.channel = 33
            ep = DeviceManagement(transport=transport, communication_channel=33, cemi_received_callback=cb_raw,
                                  data_endpoint=None if gw_route_back else ("10.0.0.2", 3671))
            ep.start()
            ref.new_connection()

            async def reconnect():
                ep.stop()
                await asyncio.sleep(0.01)
                ep.start()
                gw.channel = 33
                ref.new_connection()
                if burst:
                    deliver_burst()

        async def ensure_established():
            if ref.established and gw.channel is not None:
                return True
            if reconnect is not None:
                await reconnect()
            for _ in range(400):
                if ref.established and gw.channel is not None:
                    return True
                await asyncio.sleep(0.05)
            return False

        for op in ops:
            if op[0] == "wait":
                await asyncio.sleep(op[1])
                continue
            if not await ensure_established():
                gw.note("never_reestablished")
                break
            if op[0] == "cycle":  # object reuse: the user closes the connection and opens it again on the same object
                gw.note("user_cycle")
                ref.established = False
                if kind == "devmgmt":
                    await reconnect()
                else:
                    await ep.disconnect()
                    await asyncio.sleep(op[1])
                    try:
                        await ep.connect()
                    except CommunicationError:
                        pass
                continue
            if op[0] == "start_again":  # a redundant start() on a running handler is documented as a no-op
                if kind == "devmgmt":
                    gw.note("redundant_start")
                    ep.start()
                elif kind == "tunnel":
                    gw.note("heartbeat_restart")
                    ep.start_heartbeat()
                continue
            if op[0] == "disc":
                ref.established = False
                if kind == "devmgmt":
                    gw.channel = None
                else:
                    gw.send_disconnect_request()
            elif op[0] == "rel":
                inject(ref.expected + op[1], f"expected{op[1]:+d}")
            elif op[0] == "abs":
                inject(op[1], "absolute")
            elif op[0] == "srv":
                inject(ref.srv, "server stream")
                ref.srv = (ref.srv + 1) & 0xFF
            elif op[0] == "srvdup":
                inject(ref.srv - 1, "server stream duplicate")
            elif op[0] == "srvskip":
                ref.srv = (ref.srv + 1) & 0xFF
            elif op[0] == "srvswap":
                inject(ref.srv + 1, "server stream overtaking")
                await asyncio.sleep(0.001)
                if ref.established and gw.channel is not None:
                    inject(ref.srv, "server stream overtaken")
                ref.srv = (ref.srv + 2) & 0xFF
            elif op[0] == "burst":
                for _ in range(op[1]):
                    if not (ref.established and gw.channel is not None):
                        break
                    inject(ref.expected, "burst")
                    await asyncio.sleep(0.001)
            await asyncio.sleep(0.001)  # every injection has its own virtual instant
        await asyncio.sleep(0.5)
        if kind == "devmgmt":
            ep.stop()
        else:
            await ep.disconnect()

    err = None
    try:
        loop.run(main(), max_vtime=5000)
    except (Deadlock, LoopBudget) as exc:
        err = repr(exc)
    finally:
        loop.finish()
    acks = [(t, info["ch"], info["seq"], info["status"]) for t, k, info in gw.log if k == "tx" and info.get("type") == ack_type]
    # recorded only: is an ACK addressed to the data endpoint the server announced for that connection?
    box["ack_elsewhere"] = box["ack_to_endpoint"] = 0
    endpoint = None
    for t, k, info in gw.log:
        if k == "rx" and info.get("type") == "ConnectResponse":
            endpoint = ("10.0.0.2", 3671 + (info["ch"] & 1)) if not gw_route_back else ("10.0.0.2", 3671)
        elif k == "tx" and info.get("type") == ack_type and endpoint is not None and kind != "devmgmt":
            if tuple(info.get("to", ())) == endpoint:
                box["ack_to_endpoint"] += 1
            else:
                box["ack_elsewhere"] += 1
    gw.log.append((0.0, "ack_addressing", {"to_endpoint": box["ack_to_endpoint"], "elsewhere": box["ack_elsewhere"]}))
    cbs = [(t, info["tag"]) for t, k, info in gw.log if k == "cb"]
    return injections, acks, cbs, err, gw.log, loop.exceptions


def judge(injections, acks, cbs):
    """Compare with the reference per injected frame. Returns list of (mechanism, detail).

    Reactions are matched by virtual instant; frames sharing an instant (a burst) are matched in order: acknowledgements
    leave in the order the frames were handled, payloads are identified by their tag.
    """
    problems = []
    groups = {}
    for inj in injections:
        groups.setdefault(inj["t"], []).append(inj)
    acks_at = {}
    for a in acks:
        acks_at.setdefault(a[0], []).append(a)
    cb_count = {}
    for c in cbs:
        cb_count[(c[0], c[1])] = cb_count.get((c[0], c[1]), 0) + 1
    name = {"E": "expected", "R": "repeated", "O": "out-of-order"}
    for t, group in groups.items():
        queue = list(acks_at.get(t, []))
        burst = "-in-burst-with-connect-response" if group[0].get("burst") else ""
        for inj in group:
            v = inj["verdict"]
            want_ack = v in "ER"
            want_cb = 1 if v == "E" else 0
            got = []
            if queue and queue[0][2] == inj["c"]:
                got.append(queue.pop(0))
                # a second acknowledgement of the same frame (not the one of a following duplicate)
                following = sum(1 for other in group[group.index(inj) + 1:] if other["c"] == inj["c"] and other["verdict"] in "ER")
                while queue and queue[0][2] == inj["c"] and sum(1 for q in queue if q[2] == inj["c"]) > following:
                    got.append(queue.pop(0))
            n_cb = cb_count.get((t, inj["tag"]), 0)
            d = {"injection": inj, "acks": [x[1:] for x in got], "passed_up": n_cb,
                 "frames_in_same_instant": [(g["c"], g["verdict"]) for g in group] if len(group) > 1 else None}
            if len(got) != (1 if want_ack else 0):
                problems.append((f"{name[v]}-frame{burst}-acknowledged-{len(got)}-times", d))
            elif got and got[0][3] != "E_NO_ERROR":
                problems.append((f"{name[v]}-frame{burst}-acknowledged-with-another-counter-or-status", d))
            elif got and got[0][1] != inj["ch"]:
                problems.append((f"{name[v]}-frame{burst}-acknowledged-on-another-channel", d))
            if n_cb != want_cb:
                problems.append((f"{name[v]}-frame{burst}-passed-up-{n_cb}-times", d))
        for a in queue:
            problems.append(("acknowledgement-with-a-counter-no-request-carried", {"ack": a[1:], "t": t}))
    tags_at = {(inj["t"], inj["tag"]) for inj in injections}
    for a in acks:
        if a[0] not in groups:
            problems.append(("acknowledgement-without-a-request", {"ack": a[1:], "t": a[0]}))
    for c in cbs:
        if (c[0], c[1]) not in tags_at:
            problems.append(("frame-passed-up-without-a-request", {"tag": c[1], "t": c[0]}))
    want_order = [inj["tag"] for inj in injections if inj["verdict"] == "E"]
    got_order = [c[1] for c in cbs]
    if not problems and want_order != got_order:
        problems.append(("frames-passed-up-out-of-order", {"expected": want_order[:40], "observed": got_order[:40]}))
    return problems


def judge_history(ctx, kind, profile, ops, sample=False, route_back=False, gw_route_back=False, burst=None, burst_seed=0,
                  auto_reconnect=True, channel_policy="increasing", debug_logging=False):
    ctx.ev()
    # the logging configuration is a workload dimension: with the xknx loggers at DEBUG the same rules apply
    with (g.debug_logging(ctx) if debug_logging else contextlib.nullcontext()):
        injections, acks, cbs, err, log, excs = run_history(kind, ops, route_back, gw_route_back, burst, burst_seed, auto_reconnect,
                                                            channel_policy)
    if debug_logging:
        ctx.count("histories_with_debug_logging")
    if err is not None:
        ctx.inconclusive(f"{kind} history did not finish: {err}")
        return
    ctx.count(f"histories_{kind}")
    cfg = f"{'rb' if route_back else 'hpai'}_{'gwrb' if gw_route_back else 'gwhpai'}"
    ctx.count(f"histories_{kind}_{cfg}")
    ctx.count("frames_injected", len(injections))
    ctx.count("acks_observed", len(acks))
    ctx.count("frames_passed_up", len(cbs))
    addressing = log[-1][2] if log and log[-1][1] == "ack_addressing" else {}
    ctx.count("acks_sent_to_announced_data_endpoint_recorded", addressing.get("to_endpoint", 0))
    ctx.count("acks_sent_elsewhere_recorded", addressing.get("elsewhere", 0))
    if excs:
        ctx.count("loop_exceptions_recorded", len(excs))
    epochs = max([inj["epoch"] for inj in injections], default=0)
    ctx.count("connection_epochs", epochs)
    ctx.count(f"histories_channel_ids_{channel_policy}")
    if not auto_reconnect and kind == "tunnel":
        ctx.count("histories_tunnel_without_auto_reconnect")
    frames_so_far = 0
    marks = {inj["t"]: inj for inj in injections}
    seen_frames = 0
    pending = None
    for t, k, _info in log:
        if k in ("user_cycle", "user_connect_again", "redundant_start", "heartbeat_restart"):
            pending = (k, sum(1 for inj in injections if inj["t"] <= t and inj["verdict"] == "E"))
            if pending[1]:
                ctx.count(f"{k}_after_frames_{kind}")
            later = sum(1 for inj in injections if inj["t"] > t)
            if pending[1] and later:
                ctx.count(f"frames_after_{k}_{kind}", later)
    if burst:
        ctx.count(f"histories_burst_{burst}_{kind}")
    for inj in injections:
        if inj["verdict"] == "R" and inj["c"] == 255:
            ctx.count(("repeat_255_at_expected_0_on_fresh_connection_" if inj["pos"] == "first"
                       else "repeat_255_at_expected_0_after_a_lap_") + kind)
        if inj.get("burst"):
            ctx.count(f"burst_frames_{inj['verdict']}_{kind}")
            ctx.count(f"burst_frames_{'rb' if route_back else 'hpai'}")
            ctx.count("burst_frames_on_reconnect" if inj["epoch"] > 1 else "burst_frames_on_first_connect")
        ctx.count(f"verdict_{inj['verdict']}_{kind}")
        if inj["wrap"]:
            ctx.count(f"wrap_{inj['verdict']}")
        if inj["pos"] == "first" and inj["epoch"] > 1:
            ctx.count(f"first_after_reconnect_{inj['verdict']}")
            if kind != "devmgmt":
                ctx.count(f"first_after_reconnect_{kind}_{'rb' if route_back else 'hpai'}")
    ctx.distinct((kind, route_back, gw_route_back, burst, "".join(inj["verdict"] if inj["pos"] == "later" else inj["verdict"].lower() for inj in injections)))
    if sample:
        ctx.sample({"endpoint": kind, "route_back": route_back, "gateway_data_endpoint_route_back": gw_route_back,
                    "profile": profile, "ops": ops[:25],
                    "frames": [(inj["c"], inj["verdict"]) for inj in injections[:25]]}, cap=6)
    problems = judge(injections, acks, cbs)
    # an exception of the code under test during an injected event is caught at the injection point (gateway) and judged here:
    # the ACK rules cannot be met by a receive path that raised
    by_time = {}
    for inj in injections:
        by_time.setdefault(inj["t"], inj)
    for t, k, info in log:
        if k == "rx_raised":
            ctx.count("receive_path_exceptions")
            d = {"exception": info.get("detail"), "frame": info.get("type")}
            if t in by_time:
                d["injection"] = by_time[t]
            problems.append((f"receive-path-raises-{info.get('exc')}", d))
    # only the first frame that was handled differently is reported: once the real counter and the reference have
    # diverged, everything after it is a consequence and would blur the mechanism
    first = min((d["injection"]["i"] for _m, d in problems if "injection" in d), default=None)
    if first is not None:
        problems = [(m, d) for m, d in problems if "injection" not in d or d["injection"]["i"] == first]
    seen = set()
    for mech, detail in problems:
        if mech in seen:
            continue
        seen.add(mech)
        short = [(inj["epoch"], inj["c"], inj["verdict"]) for inj in injections]
        ctx.violation(f"{kind}-{mech}", {"endpoint": kind, "profile": profile, "ops": ops, "detail": detail,
                                          "route_back": route_back, "gw_route_back": gw_route_back, "burst": burst, "burst_seed": burst_seed, "auto_reconnect": auto_reconnect,
                                          "channel_policy": channel_policy, "debug_logging": debug_logging,
                                          "frames(epoch,counter,verdict)": short[:400]},
                      f"{kind}: {mech}: {str(detail)[:400]}")


def run(ctx):
    n = ctx.scale(420, 200000)
    ctx.rule = (f"{n} generated histories (profiles lossy/adversarial/wrap/mixed, 20-80 ops, gaps around the 2 s timer) spread over "
                f"{KINDS} x client route_back on/off x server data endpoint as address / route-back HPAI x (no burst | server frames in one burst with every ConnectResponse: same callback or call_soon) x xknx loggers default / DEBUG with a recording handler (every fifth block of 4); distinct = (endpoint, string of reference verdicts with the first frame of each connection marked)")
    ctx.require("frames_injected", "acks_observed", "frames_passed_up",
                *(f"verdict_{v}_{k}" for v in "ERO" for k in KINDS),
                "wrap_E", "wrap_R", "first_after_reconnect_E", "first_after_reconnect_O", "connection_epochs",
                "first_after_reconnect_tunnel_rb", "first_after_reconnect_tunnel_hpai", "first_after_reconnect_devconn_rb",
                "first_after_reconnect_devconn_hpai", "burst_frames_on_first_connect", "burst_frames_on_reconnect",
                "burst_frames_rb", "burst_frames_hpai", "histories_tunnel_without_auto_reconnect", "histories_channel_ids_constant", "histories_channel_ids_recycled",
                "histories_with_debug_logging", "frames_after_user_cycle_tunnel", "frames_after_user_cycle_devconn", "frames_after_user_cycle_devmgmt",
                "frames_after_user_connect_again_tunnel", "frames_after_redundant_start_devmgmt", "frames_after_heartbeat_restart_tunnel",
                *(f"repeat_255_at_expected_0_{w}_{k}" for w in ("on_fresh_connection", "after_a_lap") for k in KINDS),
                *(f"burst_frames_{v}_{k}" for v in "ERO" for k in KINDS),
                *(f"histories_burst_{b}_{k}" for b in ("same-callback", "call-soon") for k in KINDS))
    rng = ctx.rng
    for i in range(n):
        kind = KINDS[i % 3]
        # configuration dimension: client route_back x server data endpoint given as route-back HPAI
        route_back, gw_route_back = bool((i // 3) & 1), bool((i // 6) & 1)
        profile, ops = gen_history(rng, kind, rng.randint(20, 80))
        if not ctx.mine(i):
            continue
        # every second block of 12 histories: server frames in one burst with each ConnectResponse
        burst = (None, "same-callback", None, "call-soon")[(i // 12) % 4]
        # object reuse: every third tunnel history runs without auto-reconnect (the user connects the same object again)
        auto_reconnect = not (kind == "tunnel" and (i // 3) % 3 == 2)
        channel_policy = ("increasing", "constant", "recycled")[(i // 5) % 3]
        judge_history(ctx, kind, profile, ops, sample=i < 6, route_back=route_back, gw_route_back=gw_route_back,
                      burst=burst, burst_seed=i, auto_reconnect=auto_reconnect, channel_policy=channel_policy,
                      debug_logging=(i // 4) % 5 == 3)


def replay(ctx, witness):
    ctx.rule = "replay of one recorded history"
    judge_history(ctx, witness["endpoint"], witness["profile"], witness["ops"],
                  route_back=bool(witness.get("route_back")), gw_route_back=bool(witness.get("gw_route_back")),
                  burst=witness.get("burst"), burst_seed=witness.get("burst_seed", 0),
                  auto_reconnect=witness.get("auto_reconnect", True), channel_policy=witness.get("channel_policy", "increasing"),
                  debug_logging=bool(witness.get("debug_logging")))
    ctx.distinct("replay")
    ctx.distinct("replay2")
