"""C36 task registry: tasks follow the connection state, never two instances, removed/stopped => cancelled."""

from __future__ import annotations

import asyncio
import itertools
import random

from xknx.core import XknxConnectionState
from xknx.core.task_registry import Task

from vlib.core_harness import CONNECTED, CONNECTING, DISCONNECTED, make_xknx, run_case, set_state

LEVEL = "exploration"
TECHNIQUE = (
    "runtime monitor: histories of start_task/remove_task/stop and connection state changes (through the real ConnectionManager) "
    "against the real TaskRegistry on a virtual clock; instrumented cooperative targets (enter/exit log) and the asyncio tasks "
    "carrying the Task's name are compared with the statement's rules per window between operations"
)
LEVEL_TEXT = (
    "Histories of 8-30 operations over 1-4 Task objects covering all 16 combinations of restart_after_reconnect x wait_for_connection x "
    "wait_before_start {0,>0} x repeat_after {None,value}, sync / async / never-ending targets that propagate cancellation, swallow it and "
    "return (at once / after one more await), re-arm their own task via start_task / Task.restart() / Task.reconnected(), remove it via remove_task or cancel it via "
    "Task.cancel() from inside, raise, or "
    "finish exactly in the instant of a state change; operations at the same instant (with and "
    "without a loop turn in between), just before / after the wait_before_start expiry, CONNECTED/CONNECTING/DISCONNECTED transitions, "
    "registry stop followed by further state changes. Exploration: histories are sampled."
)
LEVEL_NOTE = (
    "Trusted: asyncio.all_tasks()/task names as the instance observer. Judged: at most one live instance per Task (target nesting and "
    "pending asyncio tasks named after it); after a transition away from CONNECTED a registered restart_after_reconnect task has no live "
    "instance and makes no target call until the next CONNECTED; each CONNECTED transition (and each start_task while connected) gives "
    "exactly one new instance whose target is entered (exactly once without repeat_after); remove_task/stop leave nothing pending and no "
    "later target call. A task with wait_for_connection=True never enters its "
    "target while the state is not CONNECTED (DISCONNECTED, CONNECTING, never connected), whoever started it. Not judged: start counts "
    "after an explicit start_task while not connected until the next CONNECTED transition (tasks without wait_for_connection may run then); "
    "repeat timing; targets that await during cancellation clean-up (recorded); an instance that swallowed its cancellation or cancelled "
    "itself from inside is given the grace of its own remaining awaits for the nesting rule only (everything created after the cancel "
    "is tracked and must be gone after the next loss/remove/stop); windows whose outcome depends on the order of two timers "
    "expiring at the same instant."
)
SHARDS = {"quick": 1, "thorough": 16}
TIMEOUT = {"quick": 300, "thorough": 3000}

EPS = 1e-6
OPTION_SETS = list(itertools.product((False, True), (False, True), (0, 1), (0, 1)))  # restart, wait_conn, wbs>0, repeat


# what a target may do to its own task from inside (once per user start): replaced by a new instance / removed / just cancelled
SELF_RESTARTS = ("rearm", "restart_self", "reconnected_self")
SELF_ACTIONS = (*SELF_RESTARTS, "selfremove", "cancel_self")


class Probe:
    """Instrumented target of one Task.

    behaviour: None (propagates cancellation, never touches the registry) | "swallow" (catches CancelledError and returns at
    once) | "swallow_await" (catches it, awaits one more loop turn, returns) | "rearm" (calls start_task(own task) from inside
    the target, once per driver start) | "selfremove" (calls remove_task(own task) from inside, once per driver start) |
    "raises" (ends with an ordinary exception) | "restart_self" / "reconnected_self" / "cancel_self" (calls Task.restart() /
    Task.reconnected() / Task.cancel() on its own Task object from inside, once per driver start).
    """

    def __init__(self, idx: int, kind: str, dur, log: list, slow_cleanup: bool, behaviour: str | None = None) -> None:
        self.idx = idx
        self.kind = kind
        self.dur = dur
        self.log = log
        self.alive = 0
        self.in_grace = 0  # instances that swallowed a cancellation and are finishing their own remaining awaits
        self.slow_cleanup = slow_cleanup
        self.behaviour = behaviour
        self.budget = 0
        self.registry = None
        self.task = None

    def _now(self) -> float:
        try:
            self._last = asyncio.get_running_loop().time()
        except RuntimeError:  # coroutine closed while the loop is being torn down
            pass
        return getattr(self, "_last", 0.0)

    def _enter(self) -> None:
        self.alive += 1
        state = self.registry.xknx.connection_manager.state if self.registry is not None else None
        self.log.append((self._now(), "enter", self.idx, (self.alive - self.in_grace, self.alive, state)))

    def _exit(self, how: str) -> None:
        self.alive -= 1
        self.log.append((self._now(), "exit:" + how, self.idx, self.alive))

    def _act(self) -> bool:
        """What a target does to its own task from inside.  True if it cancelled itself that way."""
        if self.behaviour in SELF_ACTIONS and self.budget > 0 and self.task in self.registry.tasks:
            if self.behaviour == "reconnected_self" and not self.task.restart_after_reconnect:
                return False  # Task.reconnected() does nothing for such a task
            self.budget -= 1
            self.log.append((self._now(), self.behaviour, self.idx, None))
            if self.behaviour == "rearm":
                self.registry.start_task(self.task)
            elif self.behaviour == "selfremove":
                self.registry.remove_task(self.task)
            elif self.behaviour == "restart_self":
                self.task.restart()  # the Task object's own entry point
            elif self.behaviour == "reconnected_self":
                self.task.reconnected()
            else:  # cancel_self
                self.task.cancel()
            return True
        return False

    async def atarget(self) -> None:
        self._enter()
        how = "normal"
        graced = False
        try:
            if self._act():
                # this instance has just cancelled itself; the cancellation reaches it at its next await, one loop turn
                # after its replacement may already have started: bounded grace, as for a swallowed cancellation
                graced = True
                self.in_grace += 1
            if self.dur == "forever":
                await asyncio.Event().wait()
            elif self.dur:
                await asyncio.sleep(self.dur)
            if self.behaviour == "raises":
                how = "raised"
                raise ValueError("target failed")
        except asyncio.CancelledError:
            how = "cancelled"
            if self.behaviour in ("swallow", "swallow_await"):
                how = "swallowed"
                if not graced:
                    graced = True
                    self.in_grace += 1
                if self.behaviour == "swallow_await":
                    await asyncio.sleep(0)
                return  # ends regularly, like the callback in the repo's own test_reconnect_handling
            if self.slow_cleanup:
                try:
                    await asyncio.sleep(0.2)
                except asyncio.CancelledError:
                    pass
            raise
        finally:
            if graced:
                self.in_grace -= 1
            self._exit(how)

    def starget(self) -> None:
        self._enter()
        try:
            self._act()
            if self.behaviour == "raises":
                raise ValueError("target failed")
        finally:
            self._exit("raised" if self.behaviour == "raises" else "normal")


def gen_case(rng: random.Random, index: int) -> dict:
    ntasks = rng.randint(1, 4)
    tasks = []
    for j in range(ntasks):
        restart, waitc, w, rep = OPTION_SETS[(index + 5 * j) % 16] if j == 0 else rng.choice(OPTION_SETS)
        behaviour = rng.choices((None, "swallow", "swallow_await", "rearm", "selfremove", "raises", "restart_self",
                                 "reconnected_self", "cancel_self"), (42, 11, 8, 9, 6, 6, 9, 4, 5))[0]
        target = rng.choice(("sync", "async0", "async", "async", "forever"))
        if behaviour in ("swallow", "swallow_await") and rep:
            behaviour = None  # a repeating task whose target swallows cancel() can never be stopped: the target's doing
        if behaviour in ("swallow", "swallow_await"):
            target = rng.choice(("async", "async", "forever"))  # the cancellation must land inside the target
        elif behaviour == "raises" and target == "forever":
            target = "async"
        tasks.append({
            "restart": restart, "wait_conn": waitc,
            "wbs": rng.choice((0.5, 2.0)) if w else 0,
            "repeat": rng.choice((1.0, 3.0)) if rep else None,
            "target": target,
            # durations on the grid of the operation times: targets also finish exactly in the instant of a state change
            "dur": rng.choice((0.3, 0.5, 1.0, 2.5, 4.0)),
            "slow_cleanup": behaviour is None and rng.random() < 0.08,
            "behaviour": behaviour,
        })
    ops = []
    dts = ((0.0, False), (0.0, True), (0.0, True), (0.1, True), (0.499, True), (0.501, True), (0.5, True), (1.0, True),
           (1.999, True), (2.001, True), (2.5, True), (7.0, True))
    for _ in range(rng.randint(8, 30)):
        dt, settle = rng.choice(dts)
        k = rng.choices(("start", "remove", "state", "api"), (33, 15, 46, 6))[0]
        op = {"dt": dt, "settle": settle, "op": k}
        if k in ("start", "remove", "api"):
            op["task"] = rng.randrange(ntasks)
            if k == "api":
                # a holder of the Task object (as ExposeSensor is) calls its API directly; done only while it is not registered
                op["call"] = rng.choice(("restart", "restart", "reconnected", "cancel", "connection_lost"))
        else:
            op["state"] = rng.choice(("CONNECTED", "CONNECTED", "DISCONNECTED", "CONNECTING"))
        ops.append(op)
    ops.append({"dt": rng.choice((0.0, 0.3, 5.0)), "settle": True, "op": "stop", "via": rng.choice(("registry", "xknx"))})
    for _ in range(rng.randint(0, 3)):
        if rng.random() < 0.25:
            ops.append({"dt": rng.choice((0.0, 1.0)), "settle": True, "op": "api", "task": rng.randrange(ntasks),
                        "call": rng.choice(("restart", "reconnected", "cancel"))})
        else:
            ops.append({"dt": rng.choice((0.0, 1.0)), "settle": True, "op": "state",
                        "state": rng.choice(("CONNECTED", "DISCONNECTED", "CONNECTING"))})
    return {"tasks": tasks, "ops": ops, "initial_connected": rng.random() < 0.6}


def run_one(ctx, case_seed: str, index: int) -> None:
    rng = random.Random(case_seed)
    case = gen_case(rng, index)
    log: list = []  # (vtime, kind, task idx | None, extra) in logical order
    marks: list = []  # per op: dict(pos=index into log, t, op, state_after, pending={idx:n}, alive={idx:n}, transition=bool)

    async def main(loop):
        xknx = make_xknx(connect_on_start=case["initial_connected"], disconnect_on_stop=False)
        probes = []
        tasks = []
        for j, spec in enumerate(case["tasks"]):
            dur = 0 if spec["target"] in ("sync", "async0") else "forever" if spec["target"] == "forever" else spec["dur"]
            p = Probe(j, spec["target"], dur, log, spec["slow_cleanup"], spec["behaviour"])
            p.registry = xknx.task_registry
            probes.append(p)
            tasks.append(Task(
                name=f"c36-task-{j}", target=p.starget if spec["target"] == "sync" else p.atarget,
                restart_after_reconnect=spec["restart"], wait_before_start=spec["wbs"],
                wait_for_connection=spec["wait_conn"], repeat_after=spec["repeat"],
            ))
        for p, tk in zip(probes, tasks):
            p.task = tk
        await xknx.start()  # registers the registry's connection callback like XKNX.start() does

        def pending(j: int) -> int:
            return sum(1 for t in asyncio.all_tasks() if t.get_name() == f"c36-task-{j}" and not t.done())

        for op in case["ops"]:
            if op["dt"]:
                await asyncio.sleep(op["dt"])
            elif op["settle"]:
                for _ in range(4):
                    await asyncio.sleep(0)
            transition = False
            performed = False
            refused = None
            t = loop.time()
            pos = len(log)
            if op["op"] == "start":
                probes[op["task"]].budget = 1  # the target may act on its own task once per user start
                xknx.task_registry.start_task(tasks[op["task"]])
            elif op["op"] == "remove":
                xknx.task_registry.remove_task(tasks[op["task"]])
            elif op["op"] == "api":
                performed = tasks[op["task"]] not in xknx.task_registry.tasks
                refused = None
                if performed:
                    try:
                        getattr(tasks[op["task"]], op["call"])()
                    except Exception as exc:  # noqa: BLE001  refusing is fine
                        refused = type(exc).__name__
            elif op["op"] == "state":
                new = XknxConnectionState[op["state"]]
                transition = new != xknx.connection_manager.state
                set_state(xknx, new)
            elif op["op"] == "stop":
                if op["via"] == "xknx":
                    await xknx.stop()
                else:
                    xknx.task_registry.stop()
            marks.append({"pos": pos, "t": t, "op": op, "transition": transition, "performed": performed, "refused": refused,
                          "state": xknx.connection_manager.state, "settled": None})
            # settle point (zero virtual time) used for the liveness judgements of this op
            if op["settle"] or op is case["ops"][-1]:
                for _ in range(4):
                    await asyncio.sleep(0)
                marks[-1]["settled"] = {"pending": [pending(j) for j in range(len(tasks))],
                                        "alive": [p.alive for p in probes], "pos": len(log)}
        await asyncio.sleep(20.0)
        for _ in range(4):
            await asyncio.sleep(0)
        marks.append({"pos": len(log), "t": loop.time(), "op": {"op": "end"}, "transition": False,
                      "state": xknx.connection_manager.state,
                      "settled": {"pending": [pending(j) for j in range(len(tasks))], "alive": [p.alive for p in probes], "pos": len(log)}})
        xknx.started.clear()
        return None

    res = run_case(main, max_vtime=5000.0)
    wit = {"case_seed": case_seed, "index": index, "tasks": case["tasks"],
           "ops": [(m["t"] - 1000.0, m["op"].get("op"), m["op"].get("task", m["op"].get("state")), m["op"].get("settle")) for m in marks]}
    ctx.ev()
    if res.error or res.deadlock or res.budget:
        ctx.violation("history-aborted", dict(wit, error=res.error, deadlock=res.deadlock, budget=res.budget),
                      f"history aborted: {res.error} deadlock={res.deadlock} budget={res.budget}")
        return
    judge(ctx, case, log, marks, wit)
    ctx.distinct((tuple((s["restart"], s["wait_conn"], bool(s["wbs"]), bool(s["repeat"]), s["target"], s["behaviour"]) for s in case["tasks"]),
                  "".join((m["op"].get("op") or "?")[0] + str(m["op"].get("task", (m["op"].get("state") or "")[:4])) for m in marks)[:60]))
    ctx.sample({"tasks": case["tasks"][:2], "ops": wit["ops"][:8], "target_events": len(log)}, cap=4)


def judge(ctx, case, log, marks, wit) -> None:
    for j, spec in enumerate(case["tasks"]):
        opt = f"restart={int(spec['restart'])},waitc={int(spec['wait_conn'])},wbs={int(bool(spec['wbs']))},rep={int(bool(spec['repeat']))}"
        ctx.count("optionset_" + opt)
        beh = spec["behaviour"]
        ctx.count("behaviour_" + str(beh))
        # a target that swallows its cancellation inside a repeating task can never be stopped by one cancel(): that is the
        # target's doing, not the registry's -> recorded only (like targets that await during clean-up)
        recorded_only = spec["slow_cleanup"] or (beh in ("swallow", "swallow_await") and spec["repeat"] is not None)
        transition_times = [m["t"] for m in marks if m["transition"]]
        connected_instants = [m["t"] for m in marks if m["transition"] and m["state"] == CONNECTED]
        # ---- O1: never two instances (target nesting); an instance that swallowed its cancellation and is finishing its own
        # remaining awaits (bounded grace) does not count, anything created after the cancel does
        for (t, kind, idx, extra) in log:
            if idx != j:
                continue
            if kind == "enter":
                ctx.count("target_enters")
                live, total, state_at_enter = extra
                # a task registered with wait_for_connection promises not to run its target without a connection, whoever
                # started it and whichever non-connected state it is (never connected / DISCONNECTED / CONNECTING)
                if spec["wait_conn"]:
                    if state_at_enter == CONNECTED:
                        ctx.count("wait_for_connection_target_entered_while_connected")
                    elif any(abs(t - tt) < 1e-9 for tt in connected_instants):
                        # woken by connected.wait() and the connection lost again before its next loop turn: recorded
                        ctx.count("wait_for_connection_entry_in_the_instant_of_connect_and_loss_recorded")
                    else:
                        ctx.violation(f"target-entered-while-{getattr(state_at_enter, 'name', state_at_enter)}-despite-wait_for_connection",
                                      dict(wit, task=j, t=t - 1000.0, state=str(state_at_enter)),
                                      f"task {j} ({opt}): wait_for_connection=True but the target ran at t={t - 1000.0:.3f} while {state_at_enter}")
                if live > 1:
                    if recorded_only:
                        ctx.count("overlap_with_slow_cleanup_recorded")
                    else:
                        ctx.violation("two-instances-of-one-task-running", dict(wit, task=j, t=t - 1000.0),
                                      f"task {j} ({opt}): target entered while a previous call is still running")
                elif total > 1:
                    ctx.count("overlap_with_instance_in_cancellation_grace_recorded")
            elif kind == "exit:swallowed":
                ctx.count("cancellation_swallowed_then_ended_normally")
            elif kind == "exit:raised":
                ctx.count("target_raised")
            elif kind in SELF_ACTIONS:
                ctx.count(kind + "_from_inside_target")
            if kind == "exit:normal" and any(abs(t - tt) < 1e-9 for tt in transition_times):
                ctx.count("target_finished_in_the_instant_of_a_state_change")
        # ---- walk the operations relevant to this task
        registered = False
        stopped = False
        connected = case["initial_connected"]
        mode = "idle"  # idle | judged-start | unjudged | expect-none
        win_start = None  # (pos, t, settle) of the op that opened the current window
        user_disc = False

        def close_window(end_pos, end_t, end_desc, end_index, by_target=False):
            """Judge the enters of task j between the window's opening op and `end_pos`."""
            if win_start is None:
                return
            pos0, t0, i0, wmode, cause = win_start
            from_target = cause is not None and cause.endswith("-from-target")
            # did the loop get a turn between the opening operation and the closing one?
            settle0 = by_target or (not from_target and bool(marks[i0]["op"].get("settle"))) or any(
                marks[k]["op"].get("op") == "end" or marks[k]["op"].get("dt") or marks[k]["op"].get("settle")
                for k in range(i0 + 1, end_index + 1))
            enters = [t for (t, kind, idx, _a) in log[pos0:end_pos] if idx == j and kind == "enter"]
            if recorded_only:
                return
            if wmode == "expect-none":
                ctx.count("windows_expect_no_target_call")
                if enters:
                    ctx.violation(f"target-called-after-{cause}", dict(wit, task=j, window=(t0 - 1000.0, end_t - 1000.0), enters=[e - 1000.0 for e in enters]),
                                  f"task {j} ({opt}): target called {len(enters)}x after {cause} at t={t0 - 1000.0:.3f}")
            elif wmode == "judged-start":
                first = t0 + spec["wbs"]
                if by_target:
                    must = True  # closed by an action of the target itself: it evidently ran
                elif (spec["wbs"] and abs(first - end_t) < 1e-4) or (from_target and spec["wbs"] == 0 and end_t - t0 < 1e-4):
                    # two timers in one instant / a start from inside the target and the next operation in one instant
                    ctx.count("windows_ambiguous_timer_tie_skipped")
                    return
                elif spec["wbs"] == 0:
                    must = settle0  # settle0: the loop got a turn before the window was closed
                else:
                    must = first < end_t - 1e-4
                ctx.count("windows_expect_start")
                if must:
                    ctx.count("windows_expect_target_call")
                    if not enters:
                        ctx.violation(f"task-not-started-after-{cause}", dict(wit, task=j, window=(t0 - 1000.0, end_t - 1000.0), ended_by=end_desc),
                                      f"task {j} ({opt}): no target call after {cause} at t={t0 - 1000.0:.3f} (expected at {first - 1000.0:.3f})")
                    elif spec["repeat"] is None and len(enters) != 1:
                        ctx.violation(f"task-started-more-than-once-after-{cause}", dict(wit, task=j, enters=[e - 1000.0 for e in enters]),
                                      f"task {j} ({opt}): target called {len(enters)}x after one {cause}")
                    else:
                        ctx.count("started_once_as_expected")
                        if abs(enters[0] - first) > 1e-4:
                            ctx.count("first_call_time_differs_from_wait_before_start_recorded")
                elif enters:
                    ctx.violation(f"target-called-before-wait-before-start-after-{cause}", dict(wit, task=j, enters=[e - 1000.0 for e in enters], window=(t0 - 1000.0, end_t - 1000.0)),
                                  f"task {j} ({opt}): target called before wait_before_start elapsed after {cause}")

        prev_pos = 0
        for mi, m in enumerate(marks):
            op = m["op"]
            kind = op.get("op")
            # what the target did to its own task since the previous operation (start_task / remove_task from inside)
            for lp in range(prev_pos, m["pos"]):
                lt, lkind, lidx, _x = log[lp]
                if lidx != j or lkind not in SELF_ACTIONS:
                    continue
                state_then = marks[mi - 1]["state"] if mi else None
                if lkind in ("selfremove", "cancel_self"):
                    if mode == "judged-start":
                        close_window(lp, lt, "remove_task-from-target", mi - 1, by_target=True)
                    if lkind == "selfremove":
                        registered = False
                    # a task cancelled from inside stays registered: the next reconnection / start_task starts it again
                    mode = "expect-none"
                    win_start = (lp + 1, lt, max(mi - 1, 0), "expect-none",
                                 "remove_task-from-target" if lkind == "selfremove" else "cancel-from-target")
                elif mode == "judged-start":
                    close_window(lp, lt, "start_task-from-target", mi - 1, by_target=True)
                    if state_then == CONNECTED:
                        win_start = (lp + 1, lt, max(mi - 1, 0), "judged-start", "start_task-from-target")
                    else:
                        mode = "unjudged"
                        win_start = (lp + 1, lt, max(mi - 1, 0), "unjudged", None)
            prev_pos = m["pos"]
            relevant = False
            new_mode = None
            cause = None
            if kind == "start" and op["task"] == j:
                relevant = True
                registered = True
                stopped_now = False
                if m["state"] == CONNECTED:
                    new_mode, cause = "judged-start", "start_task"
                    if stopped:
                        new_mode = "unjudged"
                else:
                    new_mode = "unjudged"
                    ctx.count("user_start_while_disconnected_not_judged")
            elif kind == "remove" and op["task"] == j:
                relevant = True
                if registered:
                    registered = False
                    new_mode, cause = "expect-none", "remove_task"
                else:
                    relevant = False
            elif kind == "state" and m["transition"]:
                if stopped and mode == "unjudged":
                    pass  # the user restarted the Task object after registry.stop(): nothing of it is judged any more
                elif stopped:
                    relevant = True
                    new_mode, cause = "expect-none", "registry-stop"
                elif registered and spec["restart"]:
                    relevant = True
                    if m["state"] == CONNECTED:
                        new_mode, cause = "judged-start", "reconnection"
                        ctx.count("reconnections_of_restart_tasks")
                    elif mode == "unjudged":
                        new_mode = "unjudged"  # user start while disconnected: until the next CONNECTED
                    else:
                        new_mode, cause = "expect-none", "connection-loss"
                        ctx.count("losses_with_restart_task_registered")
                elif registered and spec["wait_conn"] and mode == "judged-start":
                    # a non-restart task that waits for the connection: from here its timing depends on the state;
                    # the window is judged up to this transition, the rest only for "never two instances"
                    relevant = True
                    new_mode = "unjudged"
            elif kind == "api" and op["task"] == j and m["performed"]:
                # Task.restart()/reconnected()/cancel()/connection_lost() on a Task object that is not registered: either
                # refused or a no-op - nothing may run that remove_task / a loss / stop cannot reach any more
                relevant = True
                ctx.count("direct_api_calls_on_unregistered_task")
                if m["refused"]:
                    ctx.count("direct_api_call_refused_" + m["refused"])
                if stopped:
                    # after registry.stop() the code keeps the Task bound to xknx and restart() starts it again: a new user
                    # action after the stop, recorded only
                    new_mode = "unjudged"
                    ctx.count("direct_api_call_after_registry_stop_recorded")
                else:
                    new_mode, cause = "expect-none", "direct-api-call-on-unregistered-task"
            elif kind == "stop":
                relevant = True
                stopped = True
                registered = False
                new_mode, cause = "expect-none", "registry-stop"
            elif kind == "end":
                close_window(m["pos"], m["t"], "end", mi)
            # liveness at the settle point of this op
            if m["settled"] is not None and not recorded_only:
                pend = m["settled"]["pending"][j]
                alive = m["settled"]["alive"][j]
                ctx.count("settle_points_checked")
                if pend > 1:
                    ctx.violation("two-instances-of-one-task-pending", dict(wit, task=j, t=m["t"] - 1000.0, after=kind, pending=pend),
                                  f"task {j} ({opt}): {pend} asyncio tasks of it pending after {kind}")
                eff_mode = new_mode if relevant else mode
                eff_cause = cause if relevant else win_start[4] if win_start else None
                if eff_mode == "expect-none" and (pend or alive):
                    ctx.violation(f"instance-alive-after-{eff_cause}", dict(wit, task=j, t=m["t"] - 1000.0, pending=pend, alive=alive),
                                  f"task {j} ({opt}): still running (pending={pend}, inside target={alive}) after {eff_cause}")
                elif eff_mode == "expect-none":
                    ctx.count("no_instance_after_" + str(eff_cause))
            if relevant:
                close_window(m["pos"], m["t"], kind, mi)
                mode = new_mode
                win_start = (m["pos"], m["t"], mi, new_mode, cause)
    ctx.count("histories")


def same_name_case(ctx, seed: str, index: int) -> None:
    """Two to three distinct Task objects carrying the SAME name (the registry is a set of objects; nothing in the statement
    ties a task to its name): every object's target is judged by its own running flag, independent of any name."""
    rng = random.Random(seed)
    k = rng.choice((2, 2, 3))
    restart = [rng.random() < 0.7 for _ in range(k)]
    plan = [rng.choice(("loss", "remove-first", "remove-last", "restart-first", "none")) for _ in range(rng.randint(1, 3))]
    gaps = [rng.choice((0.0, 0.5, 2.0)) for _ in range(k + len(plan) + 1)]
    running = [0] * k
    entered = [0] * k
    obs: list = []

    async def main(loop):
        xknx = make_xknx(connect_on_start=True, disconnect_on_stop=False)
        await xknx.start()

        def target(j):
            async def run():
                running[j] += 1
                entered[j] += 1
                try:
                    await asyncio.sleep(10_000)
                finally:
                    running[j] -= 1
            return run

        tasks = [Task(name="c36-same-name", target=target(j), restart_after_reconnect=restart[j]) for j in range(k)]
        registered = [False] * k

        async def settle(what):
            for _ in range(4):
                await asyncio.sleep(0)
            obs.append((what, xknx.connection_manager.state.name, list(running), list(registered)))

        for j in range(k):
            xknx.task_registry.start_task(tasks[j])
            registered[j] = True
            if gaps[j]:
                await asyncio.sleep(gaps[j])
            await settle(f"start-{j}")
        for n, step in enumerate(plan):
            if step == "loss":
                set_state(xknx, DISCONNECTED)
                await settle("loss")
                if gaps[k + n]:
                    await asyncio.sleep(gaps[k + n])
                set_state(xknx, CONNECTED)
                await settle("reconnect")
            elif step.startswith("remove"):
                j = 0 if step == "remove-first" else k - 1
                xknx.task_registry.remove_task(tasks[j])
                registered[j] = False
                await settle(step)
            elif step == "restart-first":
                xknx.task_registry.start_task(tasks[0])
                registered[0] = True
                await settle(step)
        if rng.random() < 0.5:
            await xknx.stop()
        else:
            xknx.task_registry.stop()
        registered[:] = [False] * k
        await settle("stop")
        xknx.started.clear()

    res = run_case(main, max_vtime=5000.0)
    wit = {"same_name": True, "case_seed": seed, "index": index, "objects": k, "restart_after_reconnect": restart, "plan": plan,
           "observed": [(w, s, r) for w, s, r, _g in obs]}
    ctx.ev()
    ctx.count("same_name_histories")
    if res.error or res.deadlock or res.budget:
        ctx.violation("history-aborted", dict(wit, error=res.error, deadlock=res.deadlock, budget=res.budget),
                      f"same-name history aborted: {res.error} deadlock={res.deadlock} budget={res.budget}")
        return
    for what, state, run_now, reg in obs:
        for j in range(k):
            ctx.count("same_name_settle_points_checked")
            if run_now[j] > 1:
                ctx.violation("same-name-task-object-runs-twice", dict(wit, at=what, object=j),
                              f"object {j} of {k} same-named Tasks has {run_now[j]} running targets after {what}")
            elif what == "stop" and run_now[j]:
                ctx.violation("same-name-task-still-running-after-registry-stop", dict(wit, at=what, object=j),
                              f"object {j} of {k} same-named Tasks is still running after the registry was stopped")
            elif not reg[j] and run_now[j]:
                ctx.violation("same-name-task-still-running-after-remove_task", dict(wit, at=what, object=j),
                              f"object {j} of {k} same-named Tasks is still running after {what}")
            elif what == "loss" and restart[j] and run_now[j]:
                ctx.violation("same-name-restart-task-running-while-disconnected", dict(wit, at=what, object=j),
                              f"object {j} (restart_after_reconnect) of {k} same-named Tasks is running while disconnected")
            elif reg[j] and state == "CONNECTED" and what != "stop" and not run_now[j]:
                ctx.violation("same-name-registered-task-not-running-while-connected", dict(wit, at=what, object=j),
                              f"object {j} of {k} same-named Tasks is registered but not running after {what}")
    ctx.distinct(("same-name", k, tuple(restart), tuple(plan)))


def run(ctx):
    ctx.rule = ("history = 1-4 Tasks (first one cycles through all 16 option sets) x 8-30 timed operations {start_task, remove_task, state change} "
                "+ registry stop + state changes after stop; plus histories of 2-3 distinct Task objects sharing one name (judged by per-object running flags); distinct = (task option/target tuple, operation string)")
    ctx.require("target_enters", "windows_expect_no_target_call", "windows_expect_target_call", "started_once_as_expected",
                "reconnections_of_restart_tasks", "losses_with_restart_task_registered", "no_instance_after_connection-loss",
                "no_instance_after_remove_task", "no_instance_after_registry-stop", "settle_points_checked",
                "user_start_while_disconnected_not_judged", "cancellation_swallowed_then_ended_normally",
                "rearm_from_inside_target", "selfremove_from_inside_target", "target_raised",
                "target_finished_in_the_instant_of_a_state_change", "no_instance_after_remove_task-from-target",
                "behaviour_swallow", "behaviour_swallow_await", "behaviour_rearm", "behaviour_selfremove", "behaviour_raises",
                "wait_for_connection_target_entered_while_connected", "direct_api_calls_on_unregistered_task",
                "direct_api_call_refused_RuntimeError", "no_instance_after_direct-api-call-on-unregistered-task", "restart_self_from_inside_target", "reconnected_self_from_inside_target", "cancel_self_from_inside_target",
                "no_instance_after_cancel-from-target")
    n = ctx.scale(3000, 240000)
    for i in range(n):
        if ctx.mine(i):
            run_one(ctx, f"C36/{ctx.seed}/{i}", i)
    for i in range(ctx.scale(120, 6000)):
        if ctx.mine(i):
            same_name_case(ctx, f"C36/same-name/{ctx.seed}/{i}", i)
    ctx.require("same_name_histories", "same_name_settle_points_checked")
    for o in OPTION_SETS:
        key = f"optionset_restart={int(o[0])},waitc={int(o[1])},wbs={o[2]},rep={o[3]}"
        ctx.require(key)


def replay(ctx, witness):
    ctx.rule = "replay of one recorded case"
    if witness.get("same_name"):
        same_name_case(ctx, witness["case_seed"], witness["index"])
    else:
        run_one(ctx, witness["case_seed"], witness["index"])
    ctx.distinct("replay-a")
    ctx.distinct("replay-b")
