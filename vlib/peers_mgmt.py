"""Scripted management peers for the virtual loop.

Part 1 (C32): `DevMgmtServer` - a KNXnet/IP server answering one device
management connection over the fake UDP / TCP transports of `vloop`.  Every
*received transmission* of a DeviceConfigurationRequest consumes one symbol of a
fault script (see `UDP_SYMBOLS` / `TCP_SYMBOLS`).  The server keeps the ground
truth the oracle needs: which client counters it accepted, which cEMI frames it
delivered (each carries a unique 2-octet id as data) and when.

Part 2 (C43, C44): `CemiLink` - a fake `xknx.knxip_interface` below the *real*
`CEMIHandler`/`Management`/`P2PConnection`: it records every telegram handed to
the link layer, confirms it (L_Data.con, scripted) and lets peers inject
L_Data.ind frames through `CEMIHandler.handle_cemi_frame`, i.e. through the real
receive path.  `SimBus`/`SimDevice` is a small KNX installation (individual
address, programming mode, serial number, connection-oriented behaviour) for
the network-management procedures.

cEMI property frames are built by hand here (not with xknx's serialisers) so
the server does not depend on the code under observation; KNXnet/IP framing uses
xknx's `KNXIPFrame` (trusted, covered by C20/C21).
"""

from __future__ import annotations

from collections.abc import Callable
from typing import Any

from xknx.cemi import CEMIFrame, CEMILData, CEMIMessageCode
from xknx.exceptions import CommunicationError, ConfirmationError
from xknx.knxip import (
    HPAI,
    ConnectionStateRequest,
    ConnectionStateResponse,
    ConnectRequest,
    ConnectResponse,
    ConnectResponseData,
    DeviceConfigurationAck,
    DeviceConfigurationRequest,
    DisconnectRequest,
    DisconnectResponse,
    ErrorCode,
    HostProtocol,
    KNXIPFrame,
)
from xknx.knxip.knxip_enum import ConnectRequestType
from xknx.telegram import GroupAddress, IndividualAddress, Telegram, apci, tpci

# --------------------------------------------------------------------------
# Part 1: device management server
# --------------------------------------------------------------------------

M_PROP_READ_REQ = 0xFC
M_PROP_READ_CON = 0xFB
M_PROP_WRITE_REQ = 0xF6
M_PROP_WRITE_CON = 0xF5
M_PROP_INFO_IND = 0xF7

#: script symbols; one is consumed per request transmission the network carries
UDP_SYMBOLS = "KLadDEnt2roijywIeX"
TCP_SYMBOLS = "Knt2oijywIeXC"

SYMBOL_TEXT = {
    "K": "accepted, acknowledged, answered",
    "L": "request datagram lost",
    "a": "accepted, acknowledgement dropped, answered",
    "d": "accepted, acknowledgement duplicated in the same instant, answered",
    "D": "accepted, acknowledged, answered, acknowledgement duplicated 0.5 s later",
    "E": "not accepted: acknowledgement with error status",
    "n": "accepted, acknowledged, answer lost",
    "t": "accepted, acknowledged, answer 10.5 s late (stale for later requests)",
    "2": "accepted, acknowledged, answered twice (two frames)",
    "r": "accepted, acknowledged, answer frame retransmitted with the same server counter",
    "o": "answer for another property id first, then the right one",
    "i": "answer for another object instance first, then the right one",
    "j": "answer for another object type first, then the right one",
    "y": "answer of the other service type first, then the right one",
    "w": "only an answer for another property id",
    "I": "M_PropInfo.ind for the very same property first, then the answer",
    "e": "error answer (number of elements 0)",
    "X": "server sends DisconnectRequest instead of answering",
    "C": "TCP connection reset instead of answering",
}

ACK_DELAY = 0.01
ANSWER_DELAY = 0.02
LATE_DELAY = 10.5
LATE_ACK_DELAY = 0.5


def prop_frame(code: int, key: tuple[int, int, int], noe: int, start: int, data: bytes) -> bytes:
    """Hand-built cEMI property frame."""
    obj, inst, pid = key
    return (
        bytes((code,))
        + obj.to_bytes(2, "big")
        + bytes((inst, pid))
        + ((noe << 12) | start).to_bytes(2, "big")
        + data
    )


def parse_prop_request(raw: bytes) -> dict[str, Any] | None:
    """Independent parse of M_PropRead.req / M_PropWrite.req."""
    if len(raw) < 7 or raw[0] not in (M_PROP_READ_REQ, M_PROP_WRITE_REQ):
        return None
    return {
        "code": raw[0],
        "key": (int.from_bytes(raw[1:3], "big"), raw[3], raw[4]),
        "noe": raw[5] >> 4,
        "start": int.from_bytes(raw[5:7], "big") & 0x0FFF,
        "data": raw[7:],
    }


class DevMgmtServer:
    """Scripted KNXnet/IP device management server on the virtual loop."""

    def __init__(self, loop: Any, tcp: bool, script: str, channel: int = 5, first_counter: int = 0) -> None:
        self.loop = loop
        self.tcp = tcp
        self.script = script
        self.pos = 0
        self.channel = channel
        self.expected = first_counter  # next client counter this server accepts
        self.tx_counter = 0  # counter of the server's own requests
        self.open = False
        self.closed_at: float | None = None
        self.transport: Any = None
        self.uid = 0
        # ground truth for the oracle
        self.requests: list[dict[str, Any]] = []  # every client request transmission seen on the wire
        self.accepted: list[dict[str, Any]] = []  # those the server accepted (new counter)
        self.delivered: list[dict[str, Any]] = []  # every cEMI frame delivered to the client
        self.acks_delivered: list[dict[str, Any]] = []
        self.client_acks: list[tuple[float, int]] = []
        self.symbols_used: list[str] = []
        loop.on_send = self._on_send

    # -- plumbing ---------------------------------------------------------
    def now(self) -> float:
        return round(self.loop.time() - 1000.0, 6)

    def _to_client(self, body: Any, delay: float) -> None:
        data = KNXIPFrame.init_from_body(body).to_knx()

        def fire() -> None:
            if self.transport is not None and not self.transport.closed:
                self.transport.deliver(data)

        if delay <= 0:
            fire()
        else:
            self.loop.call_later(delay, fire)

    def _on_send(self, transport: Any, data: bytes, addr: Any) -> None:
        self.transport = transport
        try:
            frame, _ = KNXIPFrame.from_knx(data)
        except Exception:  # noqa: BLE001 - not this server's business
            return
        body = frame.body
        if isinstance(body, ConnectRequest):
            self.open = True
            hpai = HPAI(protocol=HostProtocol.IPV4_TCP) if self.tcp else HPAI("10.0.0.2", 3671)
            self._to_client(
                ConnectResponse(
                    communication_channel=self.channel,
                    status_code=ErrorCode.E_NO_ERROR,
                    data_endpoint=hpai,
                    crd=ConnectResponseData(request_type=ConnectRequestType.DEVICE_MGMT_CONNECTION),
                ),
                ACK_DELAY,
            )
        elif isinstance(body, ConnectionStateRequest):
            if self.open:
                self._to_client(ConnectionStateResponse(communication_channel_id=self.channel), ACK_DELAY)
        elif isinstance(body, DisconnectRequest):
            if self.open:
                self.open = False
                self.closed_at = self.now()
            self._to_client(DisconnectResponse(communication_channel_id=body.communication_channel_id), ACK_DELAY)
        elif isinstance(body, DeviceConfigurationAck):
            self.client_acks.append((self.now(), body.sequence_counter))
        elif isinstance(body, DeviceConfigurationRequest):
            self._client_request(body)

    # -- server initiated traffic -------------------------------------------
    def send_cemi(self, raw: bytes, delay: float, meta: dict[str, Any], repeat: bool = False) -> None:
        """Deliver a cEMI frame; the server counter is taken at delivery time."""

        def fire() -> None:
            if not self.open or self.transport is None or self.transport.closed:
                return
            counter = self.tx_counter
            self.tx_counter = (self.tx_counter + 1) & 0xFF
            body = DeviceConfigurationRequest(
                communication_channel_id=self.channel, sequence_counter=counter, raw_cemi=raw
            )
            rec = dict(meta, time=self.now(), counter=counter, raw=raw)
            self.delivered.append(rec)
            self.transport.deliver(KNXIPFrame.init_from_body(body).to_knx())
            if repeat and self.open and not self.transport.closed:
                # the same frame again (our "acknowledgement went missing")
                self.delivered.append(dict(rec, repetition=True))
                self.transport.deliver(KNXIPFrame.init_from_body(body).to_knx())

        self.loop.call_later(delay, fire)

    def send_disconnect(self) -> None:
        """Server closes the connection now."""
        if self.open:
            self.open = False
            self.closed_at = self.now()
            self._to_client(
                DisconnectRequest(communication_channel_id=self.channel, control_endpoint=HPAI("10.0.0.2", 3671)), 0
            )

    def reset_tcp(self) -> None:
        if self.open:
            self.open = False
            self.closed_at = self.now()
            self.transport.lose(ConnectionResetError("reset by peer"))

    def send_indication(self, key: tuple[int, int, int], delay: float) -> None:
        self.uid += 1
        data = self.uid.to_bytes(2, "big")
        self.send_cemi(
            prop_frame(M_PROP_INFO_IND, key, 1, 1, data),
            delay,
            {"kind": "ind", "code": M_PROP_INFO_IND, "key": key, "data": data, "uid": self.uid},
        )

    # -- client requests ------------------------------------------------------
    def _ack(self, counter: int, delay: float, status: ErrorCode = ErrorCode.E_NO_ERROR) -> None:
        if self.tcp:
            return

        def fire() -> None:
            if self.open and self.transport is not None and not self.transport.closed:
                self.acks_delivered.append({"time": self.now(), "counter": counter, "status": status.name})
                self.transport.deliver(
                    KNXIPFrame.init_from_body(
                        DeviceConfigurationAck(
                            communication_channel_id=self.channel, sequence_counter=counter, status_code=status
                        )
                    ).to_knx()
                )

        self.loop.call_later(delay, fire)

    def _answer(self, req: dict[str, Any], variant: str, delay: float, repeat: bool = False) -> None:
        self.uid += 1
        data = self.uid.to_bytes(2, "big")
        read = req["code"] == M_PROP_READ_REQ
        code = M_PROP_READ_CON if read else M_PROP_WRITE_CON
        obj, inst, pid = req["key"]
        key = req["key"]
        noe = req["noe"]
        payload = data if read else b""
        if variant == "other_pid":
            key = (obj, inst, (pid + 1) & 0xFF)
        elif variant == "other_inst":
            key = (obj, (inst % 200) + 1, pid)
        elif variant == "other_obj":
            key = (0x000B if obj != 0x000B else 0x0000, inst, pid)
        elif variant == "other_type":
            code = M_PROP_WRITE_CON if read else M_PROP_READ_CON
            payload = b"" if read else data
        elif variant == "error":
            noe = 0
            payload = b"\x07"  # "data void"
        elif variant == "ind":
            code = M_PROP_INFO_IND
            payload = data
            noe = max(noe, 1)
        kind = {"right": "answer", "error": "error_answer", "ind": "ind"}.get(variant, "wrong_answer")
        self.send_cemi(
            prop_frame(code, key, noe, req["start"], payload),
            delay,
            {"kind": kind, "variant": variant, "code": code, "key": key, "data": payload, "uid": self.uid,
             "for_counter": req["counter"], "error": variant == "error"},
            repeat=repeat,
        )

    def _client_request(self, body: DeviceConfigurationRequest) -> None:
        rec: dict[str, Any] = {
            "time": self.now(),
            "counter": body.sequence_counter,
            "channel": body.communication_channel_id,
            "raw": bytes(body.raw_cemi),
            "open": self.open,
        }
        self.requests.append(rec)
        if not self.open:
            rec["fate"] = "server_closed"
            return
        sym = self.script[self.pos] if self.pos < len(self.script) else "K"
        self.pos += 1
        self.symbols_used.append(sym)
        rec["symbol"] = sym
        if sym == "L":
            rec["fate"] = "lost"
            return
        if body.communication_channel_id != self.channel:
            rec["fate"] = "wrong_channel"
            return
        counter = body.sequence_counter
        if self.tcp:
            new = True  # counters are not evaluated over TCP
        elif counter == self.expected:
            new = True
        elif counter == (self.expected - 1) & 0xFF:
            new = False
        else:
            rec["fate"] = "out_of_sequence"
            return
        if sym == "E":
            rec["fate"] = "refused_with_error_ack"
            self._ack(counter, ACK_DELAY, ErrorCode.E_DATA_CONNECTION)
            return
        # acknowledgement
        if sym == "a":
            pass
        elif sym == "d":
            self._ack(counter, ACK_DELAY)
            self._ack(counter, ACK_DELAY)
        elif sym == "D":
            self._ack(counter, ACK_DELAY)
            self._ack(counter, LATE_ACK_DELAY)
        else:
            self._ack(counter, ACK_DELAY)
        if not new:
            rec["fate"] = "repetition_reacknowledged"
            return
        rec["fate"] = "accepted"
        self.expected = (self.expected + 1) & 0xFF
        req = parse_prop_request(rec["raw"])
        rec["parsed"] = req is not None
        self.accepted.append(rec)
        if req is None:
            return
        req["counter"] = counter
        if sym in "KadD":
            self._answer(req, "right", ANSWER_DELAY)
        elif sym == "n":
            pass
        elif sym == "t":
            self._answer(req, "right", LATE_DELAY)
        elif sym == "2":
            self._answer(req, "right", ANSWER_DELAY)
            self._answer(req, "right", ANSWER_DELAY + 0.01)
        elif sym == "r":
            self._answer(req, "right", ANSWER_DELAY, repeat=not self.tcp)
        elif sym in "oijy":
            variant = {"o": "other_pid", "i": "other_inst", "j": "other_obj", "y": "other_type"}[sym]
            self._answer(req, variant, ANSWER_DELAY)
            self._answer(req, "right", ANSWER_DELAY + 0.01)
        elif sym == "w":
            self._answer(req, "other_pid", ANSWER_DELAY)
        elif sym == "I":
            self._answer(req, "ind", ANSWER_DELAY)
            self._answer(req, "right", ANSWER_DELAY + 0.01)
        elif sym == "e":
            self._answer(req, "error", ANSWER_DELAY)
        elif sym == "X":
            self.loop.call_later(ANSWER_DELAY, self.send_disconnect)
        elif sym == "C":
            self.loop.call_later(ANSWER_DELAY, self.reset_tcp)


# --------------------------------------------------------------------------
# Part 2: fake cEMI link below the real CEMIHandler / Management
# --------------------------------------------------------------------------


class _ClockShim:
    """Stands in for the `time` module inside xknx.management.management."""

    def __init__(self, loop: Any) -> None:
        self._loop = loop

    def time(self) -> float:
        return float(self._loop.time())


def describe(telegram: Telegram) -> dict[str, Any]:
    """Plain description of a telegram (what a bus monitor would show)."""
    t = telegram.tpci
    return {
        "src": str(telegram.source_address),
        "dst": str(telegram.destination_address),
        "group": isinstance(telegram.destination_address, GroupAddress),
        "tpci": type(t).__name__,
        "seq": t.sequence_number if t.numbered else None,
        "apci": type(telegram.payload).__name__ if telegram.payload is not None else None,
    }


class CemiLink:
    """Fake `xknx.knxip_interface`: records L_Data.req, confirms them, injects L_Data.ind.

    Everything above it is real: `CEMIHandler.send_telegram` (waits for the
    confirmation), `CEMIHandler.handle_raw_cemi` -> `telegram_received` ->
    `Management.process` -> `P2PConnection.process`.
    """

    def __init__(self, xknx: Any, loop: Any, own_address: str = "1.1.1") -> None:
        self.xknx = xknx
        self.loop = loop
        xknx.current_address = IndividualAddress(own_address)
        xknx.knxip_interface = self
        self.own = IndividualAddress(own_address)
        self.sent: list[dict[str, Any]] = []
        self.log: list[tuple[Any, ...]] = []  # merged event log for the oracle
        self.on_tx: Callable[[dict[str, Any]], None] | None = None
        self.con_mode: Callable[[dict[str, Any]], Any] | None = None  # -> "ok" | "none" | "raise" | float delay
        self.rx_exceptions: list[dict[str, Any]] = []
        import xknx.management.management as mm

        self._mm = mm
        self._saved_time = mm.time
        mm.time = _ClockShim(loop)  # type: ignore[assignment]

    def restore(self) -> None:
        self._mm.time = self._saved_time

    def now(self) -> float:
        return round(self.loop.time() - 1000.0, 6)

    # -- outgoing ---------------------------------------------------------
    async def send_cemi(self, cemi: CEMIFrame) -> None:
        assert isinstance(cemi.data, CEMILData)
        telegram = cemi.data.telegram()
        rec = describe(telegram)
        rec["time"] = self.now()
        rec["payload"] = telegram.payload
        rec["n"] = len(self.sent)
        self.sent.append(rec)
        self.log.append(("tx", rec))
        mode = self.con_mode(rec) if self.con_mode is not None else "ok"
        rec["con"] = mode
        if self.on_tx is not None:
            self.on_tx(rec)  # peers only schedule reactions; rec["con"] == "raise" means it never reached the bus
        if mode == "raise":
            raise CommunicationError("link down (scripted)")
        con = CEMIFrame(code=CEMIMessageCode.L_DATA_CON, data=cemi.data)
        if mode == "ok":
            self.xknx.cemi_handler.handle_cemi_frame(con)
        elif mode == "soon":  # one loop turn later
            self.loop.call_soon(self.xknx.cemi_handler.handle_cemi_frame, con)
        elif mode != "none":
            self.loop.call_later(float(mode), self.xknx.cemi_handler.handle_cemi_frame, con)

    # -- incoming ---------------------------------------------------------
    def inject(self, telegram: Telegram, meta: dict[str, Any] | None = None) -> BaseException | None:
        """Deliver an L_Data.ind through the real receive path, now."""
        if isinstance(telegram.destination_address, IndividualAddress) and telegram.destination_address.raw == 0:
            telegram.destination_address = self.own
        cemi = CEMIFrame(code=CEMIMessageCode.L_DATA_IND, data=CEMILData.init_from_telegram(telegram))
        rec = describe(telegram)
        rec["time"] = self.now()
        rec.update(meta or {})
        self.log.append(("rx", rec))
        try:
            self.xknx.cemi_handler.handle_raw_cemi(cemi.to_knx())
        except BaseException as exc:  # noqa: BLE001 - this is the monitor
            import traceback

            tb = traceback.extract_tb(exc.__traceback__)
            rec["raised"] = type(exc).__name__
            rec["where"] = f"{tb[-1].name}" if tb else "?"
            self.rx_exceptions.append({"time": rec["time"], "frame": {k: v for k, v in rec.items() if k != "payload"},
                                       "exception": repr(exc)[:200], "where": [f"{f.name}:{f.lineno}" for f in tb[-4:]]})
            return exc
        return None

    def inject_later(self, delay: float, telegram: Telegram, meta: dict[str, Any] | None = None) -> None:
        if delay <= 0:
            self.loop.call_soon(self.inject, telegram, meta)
        else:
            self.loop.call_later(delay, self.inject, telegram, meta)


# --------------------------------------------------------------------------
# Part 3: a small KNX installation for the network management procedures
# --------------------------------------------------------------------------


class SimDevice:
    """One bus device: address, programming mode, serial, connection-oriented behaviour."""

    def __init__(self, index: int, address: str, prog: bool, co: str, serial: bytes, chatty: bool = False,
                 levels: tuple[int, int] = (15, 15), client_key: int = 0x11223344) -> None:
        self.index = index
        self.address = IndividualAddress(address)
        self.prog = prog
        self.co = co  # "answer" | "refuse" | "silent" | faulty variants of "answer", see SimBus._p2p
        self.serial = serial
        self.chatty = chatty  # answers every serial-number read with its own serial (as if another client had asked)
        self.levels = levels  # (free access level, level for client_key)
        self.client_key = client_key
        self.connected_to: IndividualAddress | None = None
        self.tx_seq = 0
        self.restarts = 0
        self.address_writes: list[str] = []

    def snapshot(self) -> dict[str, Any]:
        return {"address": str(self.address), "prog": self.prog, "co": self.co, "serial": self.serial.hex(),
                "chatty": self.chatty, "restarts": self.restarts}


class SimBus:
    """Devices on a line, attached to a `CemiLink`.  `latency` in seconds; 0 = same loop instant."""

    def __init__(self, link: CemiLink, devices: list[SimDevice], latency: float = 0.02, stagger: float = 0.003,
                 early: Callable[[SimDevice], bool] | None = None, con: Any = "ok") -> None:
        self.link = link
        self.devices = devices
        self.latency = latency
        self.stagger = stagger
        #: devices whose answers reach xknx *before* the L_Data.con of the request (same chunk of a TCP tunnel):
        #: they are injected synchronously from the link's transmit hook, which runs before the confirmation
        self.early = early
        if con != "ok":
            link.con_mode = lambda rec: con  # "soon" (one loop turn) or a delay in seconds
        self.broadcasts: list[dict[str, Any]] = []  # ground-truth log of what the client put on the bus
        self.p2p: list[dict[str, Any]] = []
        link.on_tx = self._on_tx

    def _reply(self, dev: SimDevice, telegram: Telegram, extra: float = 0.0) -> None:
        if self.early is not None and self.early(dev) and extra < 1.0:
            self.link.inject(telegram, {"device": dev.index, "early": True})
            return
        delay = self.latency + (dev.index * self.stagger if self.latency > 0 else 0.0) + extra
        self.link.inject_later(delay, telegram, {"device": dev.index})

    def _on_tx(self, rec: dict[str, Any]) -> None:
        if rec.get("con") == "raise":
            return
        payload = rec["payload"]
        state = [d.snapshot() for d in self.devices]
        if rec["group"]:
            if rec["tpci"] != "TDataBroadcast":
                return
            self.broadcasts.append({"time": rec["time"], "apci": rec["apci"], "payload": payload, "state": state})
            for dev in self.devices:
                self._broadcast(dev, payload)
            return
        self.p2p.append({"time": rec["time"], "dst": rec["dst"], "tpci": rec["tpci"], "seq": rec["seq"], "apci": rec["apci"], "state": state})
        dst = IndividualAddress(rec["dst"])
        for dev in self.devices:
            if dev.address == dst:
                self._p2p(dev, rec)

    def _broadcast(self, dev: SimDevice, payload: Any) -> None:
        if isinstance(payload, apci.IndividualAddressRead):
            if dev.prog:
                self._reply(dev, Telegram(GroupAddress(0), source_address=dev.address, tpci=tpci.TDataBroadcast(),
                                          payload=apci.IndividualAddressResponse()))
        elif isinstance(payload, apci.IndividualAddressWrite):
            if dev.prog:
                dev.address_writes.append(str(payload.address))
                dev.address = IndividualAddress(payload.address.raw)
                dev.connected_to = None
        elif isinstance(payload, apci.IndividualAddressSerialRead):
            if payload.serial == dev.serial or dev.chatty:
                self._reply(dev, Telegram(GroupAddress(0), source_address=dev.address, tpci=tpci.TDataBroadcast(),
                                          payload=apci.IndividualAddressSerialResponse(serial=dev.serial, address=dev.address)))
        elif isinstance(payload, apci.IndividualAddressSerialWrite):
            if payload.serial == dev.serial:
                dev.address_writes.append(str(payload.address))
                dev.address = IndividualAddress(payload.address.raw)
                dev.connected_to = None

    def _p2p(self, dev: SimDevice, rec: dict[str, Any]) -> None:
        client = IndividualAddress(rec["src"]) if rec["src"] != "0.0.0" else self.link.own
        kind = rec["tpci"]
        if dev.co == "silent":
            return
        if dev.co == "refuse":
            if kind in ("TConnect", "TDataConnected"):
                self._reply(dev, Telegram(client, source_address=dev.address, tpci=tpci.TDisconnect()))
            return
        # connection-oriented devices: "answer" and its faulty variants
        #   nak                 - T_NAK instead of T_ACK, no answer
        #   ack_wrong_number    - T_ACK carries the next number, answers normally
        #   other_service       - acknowledges, answers a DeviceDescriptorRead with another APCI service
        #   ack_only            - acknowledges, never answers
        #   late                - acknowledges, answers after 7 s (the client waits 6 s)
        #   wrong_number_answer - acknowledges, answer carries a sequence number 3 ahead
        if kind == "TConnect":
            dev.connected_to = client
            dev.tx_seq = 0
        elif kind == "TDisconnect":
            dev.connected_to = None
        elif kind == "TDataConnected":
            if dev.connected_to != client:
                return
            payload = rec["payload"]
            if isinstance(payload, apci.Restart):
                dev.restarts += 1
                dev.prog = False
                dev.connected_to = None
                self._reply(dev, Telegram(client, source_address=dev.address, tpci=tpci.TAck(sequence_number=rec["seq"])))
                return
            if dev.co == "nak":
                self._reply(dev, Telegram(client, source_address=dev.address, tpci=tpci.TNak(sequence_number=rec["seq"])))
                return
            ack_no = (rec["seq"] + 1) & 0xF if dev.co == "ack_wrong_number" else rec["seq"]
            self._reply(dev, Telegram(client, source_address=dev.address, tpci=tpci.TAck(sequence_number=ack_no)))
            answer: Any = None
            if isinstance(payload, apci.DeviceDescriptorRead):
                answer = apci.DeviceDescriptorResponse(descriptor=payload.descriptor, value=0x07B0)
                if dev.co == "other_service":
                    answer = apci.MemoryResponse(address=0x0060, data=b"\x07\xb0")
            elif isinstance(payload, apci.AuthorizeRequest):
                if payload.key == 0xFFFFFFFF:
                    level = dev.levels[0]
                elif payload.key == dev.client_key:
                    level = dev.levels[1]
                else:
                    level = 15
                answer = apci.AuthorizeResponse(level=level)
            if answer is None or dev.co == "ack_only":
                return
            seq = dev.tx_seq
            dev.tx_seq = (dev.tx_seq + 1) & 0xF
            if dev.co == "wrong_number_answer":
                seq = (seq + 3) & 0xF
            self._reply(dev, Telegram(client, source_address=dev.address, tpci=tpci.TDataConnected(sequence_number=seq),
                                      payload=answer), extra=7.0 if dev.co == "late" else 0.001)
