"""C43 point-to-point management connections follow the transport layer protocol."""

from __future__ import annotations

import asyncio
import contextlib

from vlib.peers_mgmt import CemiLink
from vlib.vloop import Deadlock, LoopBudget, new_loop
from xknx import XKNX
from xknx.exceptions import ManagementConnectionError
from xknx.management.management import P2PConnection
from xknx.telegram import IndividualAddress, Telegram, apci, tpci

LEVEL = "exploration"
TECHNIQUE = (
    "runtime monitor: real Management/P2PConnection/CEMIHandler over a fake link layer on a virtual-time loop, hostile peer histories; "
    "oracle = reference transport-layer automaton (open, expected number, one-slot mailbox) + exception monitor on every injected frame"
)
LEVEL_TEXT = (
    "Generated peer histories (T_ACK/T_NAK with any number, duplicates in the same instant, responses early/late/duplicated/out of order/wrong "
    "type, T_Disconnect at any point, frames of a stranger, silence; delays on and around the 3 s / 6 s timeouts; the application cancelling the task that runs request() while it waits for the L_Data.con, the T_ACK, the response or during the repetition, with further requests on the same open connection; slow confirmations of our own T_Connect / T_Disconnect with peer data frames crossing in that window; connection-less (unnumbered) T_Data_Individual frames with request / response / restart services from the connected peer, a former peer and a stranger at every stage) plus a fixed list of corner "
    "histories are replayed against the real connection. The space of histories is unbounded, so this is exploration."
)
LEVEL_NOTE = (
    "Trusted: cEMI/TPCI/APCI codecs (C03-C06, C12), the virtual loop. Judged: request() returns only a frame the reference automaton accepted "
    "(open connection, expected number, free slot), of the response type, each injected frame at most once, or raises a ManagementConnectionError "
    "subclass within 0.05+3+3+6 s (+0.5 s slack); no injected frame makes the receive path raise; outgoing data numbers 0,1,..15,0 with the "
    "repetition reusing number and payload; every T_ACK sent is justified by a received data frame on an open connection with the expected or "
    "preceding number - never by an unnumbered frame (`TAck-sent-for-connectionless-data`), and an unnumbered frame is never returned as a response. Not judged (recorded): histories where the local link layer fails (missing L_Data.con / send error) are only judged for "
    "receive-path exceptions and the acknowledgement rule; never-retrieved future exceptions reported by the loop handler; whether an acknowledged "
    "frame that finds the one-slot mailbox full is lost. P2PConnection._receive is wrapped at class level (restored) to see when the mailbox is emptied."
)
SHARDS = {"quick": 1, "thorough": 16}
TIMEOUT = {"quick": 300, "thorough": 3000}

PEER = "1.1.5"
STRANGER = "1.1.9"
BOUND = 0.05 + 3 + 3 + 6 + 0.5

DELAYS = (0.0, 0.0, 0.001, 0.01, 0.02, 0.5, 2.999, 3.0, 3.001, 3.5, 5.0, 5.999, 6.0, 6.001, 8.9, 9.0, 9.1)
SHORT = (0.0, 0.0, 0.001, 0.01, 0.02, 0.02, 0.5)


# ---------------------------------------------------------------------------
# history generation
# ---------------------------------------------------------------------------

GOOD = [(0.01, "ack", 0, 1), (0.02, "resp", ("ok", 0), 1)]


def _rand_item(rng):
    d = rng.choice(DELAYS if rng.random() < 0.4 else SHORT)
    k = rng.random()
    dup = 2 if rng.random() < 0.15 else 1
    if k < 0.25:
        return (d, "ack", rng.choice((0, 0, 0, 0, 1, -1, 7)), dup)
    if k < 0.30:
        return (d, "nak", rng.choice((0, 0, 1)), dup)
    if k < 0.60:
        return (d, "resp", (rng.choice(("ok", "ok", "ok", "wrong")), rng.choice((0, 0, 0, 0, 1, -1, -1, 2, 9))), dup)
    if k < 0.68:
        return (d, "rep", None, dup)
    if k < 0.80:
        return (d, "disc", None, dup)
    if k < 0.84:
        return (d, "cl", (rng.choice(("peer", "peer", "stranger")), rng.choice(("ddread", "ddresp", "memresp", "propread", "restart"))), dup)
    if k < 0.88:
        return (d, "sdata", rng.randrange(16), dup)
    if k < 0.92:
        return (d, "sack", rng.randrange(16), dup)
    if k < 0.96:
        return (d, "sconn", None, dup)
    return (d, "sdisc", None, dup)


def _reaction(rng):
    r = rng.random()
    if r < 0.40:
        return list(GOOD)
    if r < 0.70:  # a good reaction with one or two mutations
        items = list(GOOD)
        for _ in range(rng.choice((1, 1, 2))):
            m = rng.random()
            if m < 0.2 and items:
                items.pop(rng.randrange(len(items)))
            elif m < 0.5 and items:
                i = rng.randrange(len(items))
                d, k, a, _dup = items[i]
                items[i] = (d, k, a, 2)
            elif m < 0.7 and items:
                i = rng.randrange(len(items))
                _d, k, a, dup = items[i]
                items[i] = (rng.choice(DELAYS), k, a, dup)
            else:
                items.insert(rng.randrange(len(items) + 1), _rand_item(rng))
        return items
    return [_rand_item(rng) for _ in range(rng.randint(0, 4))]


def gen_history(rng, long_run=False):
    nreq = rng.choice((1, 2, 2, 3, 3, 4)) if not long_run else rng.choice((18, 21, 35))
    hist = {"requests": [rng.choice(("dd", "mem")) for _ in range(nreq)], "reactions": [], "idle": [], "gaps": [], "con": None}
    for _ in range(nreq * 2 + 1):
        hist["reactions"].append(list(GOOD) if long_run and rng.random() < 0.93 else _reaction(rng))
    for _ in range(nreq + 1):  # idle[0] fires right after connect
        hist["idle"].append([_rand_item(rng) for _ in range(rng.choice((0, 0, 0, 1, 2)))] if not long_run else [])
        hist["gaps"].append(rng.choice((0.0, 0.0, 0.1, 1.0, 7.0)) if not long_run else 0.0)
    if rng.random() < 0.12 and not long_run:
        # slow L_Data.con for our own T_Connect / T_Disconnect with peer frames crossing in that window
        win = lambda: [(rng.choice((0.0, 0.001, 0.1, 0.3)), "resp", ("ok", rng.choice((0, 0, -1, 5))), rng.choice((1, 1, 2)))  # noqa: E731
                       for _ in range(rng.randint(1, 3))] + ([(0.35, "rep", None, 1)] if rng.random() < 0.5 else [])
        hist["edges"] = {}
        if rng.random() < 0.4:
            hist["edges"]["connect"] = {"con_delay": rng.choice(("soon", 0.01, 0.5)), "items": win()}
        if rng.random() < 0.8 or not hist["edges"]:
            hist["edges"]["disconnect"] = {"con_delay": rng.choice(("soon", 0.01, 0.5)), "items": win()}
    if nreq >= 2 and rng.random() < 0.2 and not long_run:
        # the application cancels the task running request() number `req`, `delay` after its first / second transmission;
        # the connection stays open and the later requests go on
        hist["cancel"] = {"req": rng.randrange(nreq - 1), "tx": rng.choice((0, 0, 0, 1)),
                          "delay": rng.choice((0.0, 0.005, 0.01, 0.015, 0.02, 0.021, 0.1, 0.5, 2.999, 3.0, 5.9)),
                          "con_delay": rng.choice((None, None, 0.2))}
    elif rng.random() < 0.08 and not long_run:
        # local link-layer trouble: index of the transmission that is not confirmed / fails
        hist["con"] = {"n": rng.randrange(0, 2 * nreq + 2), "mode": rng.choice(("none", "raise", 0.5))}
    return hist


def corner_histories():
    """Seed-independent corner cases (one request unless stated)."""
    A, R = (0.01, "ack", 0, 1), (0.02, "resp", ("ok", 0), 1)
    out = []

    def h(name, reactions, idle=None, nreq=1, gaps=None, cancel=None, edges=None):
        out.append({"name": name, "requests": ["dd", "mem", "dd", "mem"][:nreq], "reactions": reactions,
                    "idle": idle or [[] for _ in range(nreq + 1)], "gaps": gaps or [0.0] * (nreq + 1), "con": None, "cancel": cancel,
                    "edges": edges})

    h("clean", [[A, R]])
    h("clean-3", [[A, R]] * 3, nreq=3)
    h("ack-twice-same-instant", [[(0.01, "ack", 0, 2), R]])
    h("ack-twice-apart", [[A, (0.015, "ack", 0, 1), R]])
    h("ack-at-timeout-instant", [[(3.0, "ack", 0, 1), R], [A]])
    h("ack-after-resend", [[], [A, R]])
    h("ack-never", [[], []])
    h("nak", [[(0.01, "nak", 0, 1)]])
    h("nak-twice", [[(0.01, "nak", 0, 2)]])
    h("ack-wrong-number", [[(0.01, "ack", 1, 1), R]])
    h("response-before-ack", [[(0.01, "resp", ("ok", 0), 1), (0.02, "ack", 0, 1)]])
    h("response-then-disconnect-before-ack", [[(0.01, "resp", ("ok", 0), 1), (0.015, "disc", None, 1), (0.02, "ack", 0, 1)]])
    h("disconnect-while-waiting-for-ack", [[(0.01, "disc", None, 1)]])
    h("disconnect-twice-while-waiting-for-ack", [[(0.01, "disc", None, 2)]])
    h("disconnect-twice-apart-while-waiting-for-ack", [[(0.01, "disc", None, 1), (0.5, "disc", None, 1)]])
    h("disconnect-while-waiting-for-response", [[A, (0.5, "disc", None, 1)]])
    h("disconnect-twice-while-waiting-for-response", [[A, (0.5, "disc", None, 2)]])
    h("disconnect-after-response-same-instant", [[A, (0.02, "resp", ("ok", 0), 1), (0.02, "disc", None, 1)]])
    h("disconnect-when-idle-then-request", [[A, R], [A, R]], idle=[[], [(0.0, "disc", None, 1)], []], nreq=2, gaps=[0, 0.1, 0])
    h("response-twice-same-instant", [[A, (0.02, "resp", ("ok", 0), 1), (0.02, "rep", None, 1)], [A, R]], nreq=2)
    h("response-repeated-later", [[A, R], [A, (0.015, "rep", None, 1), R]], nreq=2)
    h("two-responses-before-consumption", [[A, (0.02, "resp", ("ok", 0), 1), (0.02, "resp", ("ok", 0), 1)], [A, R], [A, R]], nreq=3)
    h("response-wrong-number-then-right", [[A, (0.02, "resp", ("ok", 3), 1), (0.03, "resp", ("ok", 0), 1)]])
    h("response-wrong-number-only", [[A, (0.02, "resp", ("ok", 1), 1)], [A, R]], nreq=2)
    h("response-number-preceding-at-start", [[A, (0.02, "resp", ("ok", -1), 1)]])
    h("response-wrong-type", [[A, (0.02, "resp", ("wrong", 0), 1)], [A, R]], nreq=2)
    h("response-at-timeout-instant", [[A, (6.01, "resp", ("ok", 0), 1)], [A, R]], nreq=2)
    h("response-late-into-next-request", [[A, (7.0, "resp", ("ok", 0), 1)], [A, R]], nreq=2)
    h("unsolicited-data-when-idle", [[A, R], [A, R]], idle=[[(0.0, "resp", ("ok", 0), 1)], [], []], nreq=2, gaps=[0.1, 0, 0])
    h("stranger-data", [[A, (0.015, "sdata", 0, 1), R]])
    h("stranger-data-any-number", [[A, (0.015, "sdata", 11, 2), R]])
    h("stranger-ack-connect-disconnect", [[A, (0.012, "sack", 0, 1), (0.013, "sconn", None, 1), (0.014, "sdisc", None, 1), R]])
    h("data-after-peer-disconnect", [[A, R], []], idle=[[], [(0.0, "disc", None, 1), (0.01, "resp", ("ok", 0), 1)], []], nreq=2, gaps=[0, 0.1, 0])
    h("silence", [[A], [A]], nreq=2)
    # connection-less (unnumbered) T_Data_Individual frames at every stage, from the connected peer, a former peer and a stranger
    for what in ("ddread", "ddresp", "memresp", "propread", "restart"):
        CLP, CLS = (0.0, "cl", ("peer", what), 1), (0.0, "cl", ("stranger", what), 1)
        h(f"connectionless-{what}-everywhere",
          [[(0.005, "cl", ("peer", what), 1), (0.005, "cl", ("stranger", what), 1), A, (0.015, "cl", ("peer", what), 1), (0.015, "cl", ("stranger", what), 2), R],
           [A, (0.012, "cl", ("peer", what), 1), R]],
          idle=[[CLP, CLS], [CLP, CLS], [CLP, CLS]], nreq=2, gaps=[0.1, 0.1, 0.1],
          edges={"connect": {"con_delay": 0.5, "items": [(0.1, "cl", ("peer", what), 1), (0.1, "cl", ("stranger", what), 1)]},
                 "disconnect": {"con_delay": 0.5, "items": [(0.1, "cl", ("peer", what), 1)]}})
        h(f"connectionless-{what}-after-disconnect", [[A, R], []], idle=[[], [(0.0, "disc", None, 1), (0.01, "cl", ("peer", what), 1)], [(11.0, "cl", ("peer", what), 1)]],
          nreq=2, gaps=[0, 0.1, 0])
    # our own T_Disconnect / T_Connect is confirmed slowly and peer data crosses it
    W = [(0.1, "resp", ("ok", 0), 1), (0.2, "rep", None, 1), (0.3, "resp", ("ok", 5), 1)]
    for d in ("soon", 0.01, 0.5):
        h(f"data-while-our-disconnect-awaits-confirmation-{d}", [[A, R]], edges={"disconnect": {"con_delay": d, "items": [(0.0, "resp", ("ok", 0), 1), (0.0, "rep", None, 1)] if d != 0.5 else W}})
        h(f"data-while-our-connect-awaits-confirmation-{d}", [[A, R], [A, R]], nreq=2, edges={"connect": {"con_delay": d, "items": [(0.0, "resp", ("ok", 0), 1)] if d != 0.5 else W}})
    h("data-in-both-windows", [[A, R]], edges={"connect": {"con_delay": 0.5, "items": W}, "disconnect": {"con_delay": 0.5, "items": W}})
    # the task running request() is cancelled at each await stage; two more requests follow on the same open connection
    for req in (0, 1):
        pre = [[A, R]] * req
        n = req + 3
        h(f"cancel-{req}-waiting-for-confirmation", pre + [[A, R]] * 3, nreq=n, cancel={"req": req, "tx": 0, "delay": 0.1, "con_delay": 0.2})
        h(f"cancel-{req}-waiting-for-ack", pre + [[A, R]] * 3, nreq=n, cancel={"req": req, "tx": 0, "delay": 0.005, "con_delay": None})
        h(f"cancel-{req}-waiting-for-ack-peer-silent", pre + [[]] + [[A, R]] * 2, nreq=n, cancel={"req": req, "tx": 0, "delay": 1.0, "con_delay": None})
        h(f"cancel-{req}-waiting-for-response", pre + [[A, R]] * 3, nreq=n, cancel={"req": req, "tx": 0, "delay": 0.015, "con_delay": None})
        h(f"cancel-{req}-waiting-for-response-peer-silent", pre + [[A]] + [[A, R]] * 2, nreq=n, cancel={"req": req, "tx": 0, "delay": 2.0, "con_delay": None})
        h(f"cancel-{req}-in-the-instant-of-the-response", pre + [[A, R]] * 3, nreq=n, cancel={"req": req, "tx": 0, "delay": 0.02, "con_delay": None})
        h(f"cancel-{req}-during-repetition", pre + [[], [A, R], [A, R], [A, R]], nreq=n, cancel={"req": req, "tx": 1, "delay": 0.005, "con_delay": None})
        h(f"cancel-{req}-during-repetition-waiting-for-response", pre + [[], [A, R], [A, R], [A, R]], nreq=n, cancel={"req": req, "tx": 1, "delay": 0.015, "con_delay": None})
    return out


# ---------------------------------------------------------------------------
# one history against the real code
# ---------------------------------------------------------------------------


@contextlib.contextmanager
def _watch_receive(log, clock, state=None):
    orig = P2PConnection._receive

    async def _receive(self, expected_payload):
        log.append(("receive_start", clock()))
        if state is not None:
            state["receiving"] = True
        try:
            return await orig(self, expected_payload)
        finally:
            if state is not None:
                state["receiving"] = False
            log.append(("receive_done", clock()))

    P2PConnection._receive = _receive
    try:
        yield
    finally:
        P2PConnection._receive = orig


def run_history(ctx, hist, judge=True):
    loop = new_loop()
    xknx = XKNX()
    link = CemiLink(xknx, loop)
    peer = IndividualAddress(PEER)
    stranger = IndividualAddress(STRANGER)
    st = {"next": 0, "uid": 0x100, "last": None, "data_tx": 0}
    frames = {}  # uid -> meta of injected data frames
    results = []

    def now():
        return round(loop.time() - 1000.0, 6)

    def make_data(src, number, kind, uid):
        if kind == "dd":
            payload = apci.DeviceDescriptorResponse(descriptor=0, value=uid)
        else:
            payload = apci.MemoryResponse(address=uid, data=b"\x01\x02")
        return Telegram(link.own, source_address=src, tpci=tpci.TDataConnected(sequence_number=number & 0xF), payload=payload)

    def fire(item, want_kind):
        _d, kind, arg, dup = item
        for _ in range(dup):
            if kind in ("ack", "nak"):
                base = st.get("last_tx_seq", 0)
                cls = tpci.TAck if kind == "ack" else tpci.TNak
                link.inject(Telegram(link.own, source_address=peer, tpci=cls(sequence_number=(base + arg) & 0xF)), {"what": kind})
            elif kind == "resp":
                typ, off = arg
                st["uid"] += 1
                uid = st["uid"]
                number = (st["next"] + off) & 0xF
                pk = want_kind if typ == "ok" else ("mem" if want_kind == "dd" else "dd")
                meta = {"what": "data", "uid": uid, "number": number, "ptype": pk}
                frames[uid] = meta
                st["last"] = (number, pk, uid)
                link.inject(make_data(peer, number, pk, uid), meta)
            elif kind == "rep":
                if st["last"] is None:
                    continue
                number, pk, uid = st["last"]
                link.inject(make_data(peer, number, pk, uid), {"what": "data", "uid": uid, "number": number, "ptype": pk, "repeat": True})
            elif kind == "disc":
                link.inject(Telegram(link.own, source_address=peer, tpci=tpci.TDisconnect()), {"what": "disc"})
            elif kind == "sdata":
                st["uid"] += 1
                link.inject(make_data(stranger, arg, "dd", st["uid"]), {"what": "sdata", "uid": st["uid"], "number": arg & 0xF})
            elif kind == "cl":
                who, what = arg
                st["uid"] += 1
                payload = {"ddread": apci.DeviceDescriptorRead(descriptor=0), "ddresp": apci.DeviceDescriptorResponse(descriptor=0, value=st["uid"]),
                           "memresp": apci.MemoryResponse(address=st["uid"], data=b"\x01\x02"),
                           "propread": apci.PropertyValueRead(object_index=0, property_id=11), "restart": apci.Restart()}[what]
                link.inject(Telegram(link.own, source_address=peer if who == "peer" else stranger, tpci=tpci.TDataIndividual(), payload=payload),
                            {"what": "cl", "uid": st["uid"], "who": who})
            elif kind == "sack":
                link.inject(Telegram(link.own, source_address=stranger, tpci=tpci.TAck(sequence_number=arg)), {"what": "sack"})
            elif kind == "sconn":
                link.inject(Telegram(link.own, source_address=stranger, tpci=tpci.TConnect()), {"what": "sconn"})
            elif kind == "sdisc":
                link.inject(Telegram(link.own, source_address=stranger, tpci=tpci.TDisconnect()), {"what": "sdisc"})

    def schedule(items, want_kind):
        for item in items:
            if item[0] <= 0:
                loop.call_soon(fire, item, want_kind)
            else:
                loop.call_later(item[0], fire, item, want_kind)

    def on_tx(rec):
        if rec["dst"] == PEER and rec["tpci"] == "TDataConnected":
            j = st["data_tx"]
            st["data_tx"] += 1
            st["last_tx_seq"] = rec["seq"]
            rec["request_index"] = st.get("req_index")
            k = st.get("req_tx", 0)
            st["req_tx"] = k + 1
            if cancel and cancel["req"] == st.get("req_index") and cancel["tx"] == k:
                loop.call_later(cancel["delay"], fire_cancel, st.get("req_index")) if cancel["delay"] > 0 else loop.call_soon(fire_cancel, st.get("req_index"))
            if rec.get("con") == "raise":
                return
            if j < len(hist["reactions"]):
                lag = float(rec["con"]) if isinstance(rec.get("con"), float) else 0.0  # the peer sees the frame when it is confirmed
                schedule([(d + lag if lag else d, a, b, c) for (d, a, b, c) in hist["reactions"][j]], st.get("want", "dd"))
        elif rec["dst"] == PEER and rec["tpci"] in ("TConnect", "TDisconnect") and rec.get("con") != "raise":
            edge = edges.get("connect" if rec["tpci"] == "TConnect" else "disconnect")
            if edge:
                schedule([tuple(i) for i in edge["items"]], "dd")
        elif rec["dst"] == PEER and rec["tpci"] == "TAck":
            if rec["seq"] == st["next"]:
                st["next"] = (st["next"] + 1) & 0xF  # a real peer advances once its frame is acknowledged

    cancel = hist.get("cancel")
    edges = hist.get("edges") or {}

    def fire_cancel(i):
        task = st.get("task")
        if task is not None and not task.done() and st.get("req_index") == i:
            st["cancelled"] = i
            stage = "waiting-for-ack"
            if st.get("con_pending"):
                stage = "waiting-for-confirmation"
            elif st.get("receiving"):
                stage = "waiting-for-response"
            elif st.get("req_tx", 0) >= 2:
                stage = "repetition-waiting-for-ack"
            link.log.append(("cancel", i, now(), stage))
            task.cancel()

    link.on_tx = on_tx
    con = hist.get("con")

    def con_mode(rec):
        if con:
            return con["mode"] if rec["n"] == con["n"] else "ok"
        if rec["dst"] == PEER and rec["tpci"] in ("TConnect", "TDisconnect"):
            edge = edges.get("connect" if rec["tpci"] == "TConnect" else "disconnect")
            if edge:
                return edge["con_delay"] if edge["con_delay"] == "soon" else float(edge["con_delay"])
        if cancel and cancel.get("con_delay") and rec["dst"] == PEER and rec["tpci"] == "TDataConnected" and st.get("req_index") == cancel["req"]:
            st["con_pending"] = True
            loop.call_later(cancel["con_delay"], st.__setitem__, "con_pending", False)
            return float(cancel["con_delay"])
        return "ok"

    link.con_mode = con_mode

    async def main():
        try:
            conn = await xknx.management.connect(peer)
        except ManagementConnectionError as exc:
            link.log.append(("connect_failed", now(), type(exc).__name__))
            return
        except BaseException as exc:  # noqa: BLE001
            link.log.append(("connect_failed", now(), type(exc).__name__))
            return
        link.log.append(("connected", now()))
        schedule(hist["idle"][0], "dd")
        if hist["gaps"][0]:
            await asyncio.sleep(hist["gaps"][0])
        for i, kind in enumerate(hist["requests"]):
            st["want"] = kind
            st["req_index"] = i
            payload = apci.DeviceDescriptorRead(descriptor=0) if kind == "dd" else apci.MemoryRead(address=0x0100, count=2)
            rec = {"i": i, "kind": kind, "start": now()}
            link.log.append(("request_start", i, now()))
            st["req_tx"] = 0
            task = asyncio.ensure_future(conn.request(payload))
            st["task"] = task
            await asyncio.wait([task])
            if task.cancelled():
                if st.get("cancelled") == i:
                    rec["outcome"] = "cancelled-by-the-application"
                else:
                    rec["outcome"] = "other:CancelledError"
                    rec["exception"] = "CancelledError although nobody cancelled this request"
            else:
                exc = task.exception()
                if exc is None:
                    rec["outcome"] = "returned"
                    rec["telegram"] = task.result()
                elif isinstance(exc, ManagementConnectionError):
                    rec["outcome"] = type(exc).__name__
                    rec["exception"] = str(exc)[:100]
                else:
                    rec["outcome"] = "other:" + type(exc).__name__
                    rec["exception"] = repr(exc)[:160]
            if st.get("cancelled") is not None and st["cancelled"] < i:
                rec["after_cancel"] = True
            rec["end"] = now()
            results.append(rec)
            link.log.append(("request_end", i, now()))
            schedule(hist["idle"][i + 1], kind)
            if hist["gaps"][i + 1]:
                await asyncio.sleep(hist["gaps"][i + 1])
        await asyncio.sleep(0.2)
        link.log.append(("disconnect_start", now()))
        try:
            await xknx.management.disconnect(peer)
        except ManagementConnectionError:
            pass
        except BaseException as exc:  # noqa: BLE001
            link.log.append(("disconnect_raised", now(), type(exc).__name__))
        link.log.append(("disconnect_done", now()))
        await asyncio.sleep(10)

    obs = {"hist": hist, "harness": None}
    with _watch_receive(link.log, now, st):
        try:
            loop.run(main(), max_vtime=5000)
        except Deadlock:
            obs["harness"] = "deadlock"
        except LoopBudget:
            obs["harness"] = "budget"
        finally:
            link.restore()
    obs["loop_exceptions"] = list(loop.exceptions)
    loop.finish()
    asyncio.set_event_loop(None)
    obs.update(log=link.log, results=results, rx_exceptions=link.rx_exceptions, frames=frames, sent=link.sent)
    if judge:
        _judge(ctx, obs)
    return obs


# ---------------------------------------------------------------------------
# oracle
# ---------------------------------------------------------------------------


def _brief_log(log, cap=80):
    out = []
    for e in log:
        if e[0] in ("tx", "rx"):
            r = e[1]
            out.append((r["time"], e[0], r["src"] if e[0] == "rx" else r["dst"], r["tpci"], r["seq"], r.get("apci"), r.get("uid"), r.get("raised")))
        else:
            out.append(e)
        if len(out) >= cap:
            break
    return out


def _witness(obs, **more):
    w = {"history": obs["hist"], "events": _brief_log(obs["log"]),
         "requests": [{k: (repr(v)[:160] if k == "telegram" else v) for k, v in r.items()} for r in obs["results"]]}
    w.update(more)
    return w


def _judge(ctx, obs):
    hist = obs["hist"]
    link_fault = hist.get("con") is not None
    for e in obs["log"]:
        if e[0] == "cancel":
            ctx.count("requests_cancelled_by_the_application")
            ctx.count("cancelled_while_" + e[3])
    ctx.ev()
    if obs["harness"]:
        ctx.violation(f"history-does-not-terminate-{obs['harness']}", _witness(obs),
                      f"the history did not finish on the virtual clock: {obs['harness']}")
        return
    # ---- R4: the receive path never raises -------------------------------------
    for exc in obs["rx_exceptions"]:
        f = exc["frame"]
        who = "" if f["src"] == PEER else "-from-stranger"
        ctx.violation(f"receive-path-raises-{f['raised']}-on-{f['tpci']}{who}", _witness(obs, exception=exc),
                      f"injecting {f['tpci']}(seq={f['seq']}) from {f['src']} at {f['time']} raised {exc['exception']} in {exc['where'][-1]}")
    ctx.count("frames_injected", sum(1 for e in obs["log"] if e[0] == "rx"))
    # ---- reference automaton over the merged log ------------------------------------
    is_open = False
    connected_once = False
    eset = {0}
    slot_full = {False}
    receive_started = None
    cancel_edge = False
    connecting = False
    closing = False
    accepted = {}  # uid -> True (certain) | "maybe"
    cl_frames = []  # received connection-less (unnumbered) data frames not yet blamed for an acknowledgement
    unacked = []  # received data frames not yet matched with a T_ACK: dict(src, n, admissible, reason)
    data_numbers = []  # (request_index, seq, payload repr) of outgoing data to the peer
    for e in obs["log"]:
        kind = e[0]
        if kind == "connected":
            is_open = True
            connected_once = True
            connecting = False
        elif kind == "connect_failed":
            connecting = False
        elif kind == "disconnect_start":
            is_open = False
            closing = True
        elif kind == "disconnect_done":
            closing = False
        elif kind == "receive_start":
            receive_started = e[1]
        elif kind == "receive_done":
            receive_started = None
            cancel_edge = False
            slot_full = {False}
        elif kind == "cancel":
            # the cancelled waiter stays in place until the task gets to run its `finally`: a frame arriving in between
            # (same instant) may or may not be taken
            cancel_edge = receive_started is not None
        elif kind == "rx":
            r = e[1]
            ctx.count(f"rx_{r.get('what')}")
            if r["tpci"] == "TDisconnect" and r["src"] == PEER and connected_once:
                if is_open:
                    ctx.count("peer_disconnects_on_open_connection")
                is_open = False
                slot_full = {True} if slot_full == {False} else slot_full  # the refusal occupies a free slot
            elif r["tpci"] == "TDataIndividual":
                cl_frames.append({"src": r["src"], "time": r["time"], "apci": r.get("apci"), "uid": r.get("uid")})
                ctx.count("connectionless_frames_from_" + ("peer" if r["src"] == PEER else "stranger"))
            elif r["tpci"] == "TDataConnected":
                n = r["seq"]
                if r["src"] != PEER:
                    unacked.append({"src": r["src"], "n": n, "ok": False, "why": "without-open-connection", "time": r["time"]})
                    continue
                if connecting:
                    # our T_Connect is handed over but not confirmed: the expected / preceding number may be acknowledged already
                    ctx.count("data_frames_while_our_connect_awaits_confirmation")
                    unacked.append({"src": r["src"], "n": n, "ok": n in (0, 15), "why": "without-open-connection", "time": r["time"]})
                    continue
                if closing:
                    # our T_Disconnect is handed over: the connection is closed from our side whatever the confirmation does
                    ctx.count("data_frames_while_our_disconnect_awaits_confirmation")
                    unacked.append({"src": r["src"], "n": n, "ok": False, "why": "after-our-own-T_Disconnect-awaiting-its-confirmation",
                                    "time": r["time"], "expected": sorted(eset)})
                    continue
                if not is_open:
                    unacked.append({"src": r["src"], "n": n, "ok": False, "why": "without-open-connection", "time": r["time"]})
                    continue
                in_seq = n in eset
                prev = any(n == (x - 1) & 0xF for x in eset)
                unacked.append({"src": r["src"], "n": n, "ok": in_seq or prev, "why": "for-out-of-sequence-number",
                                "time": r["time"], "expected": sorted(eset)})
                if in_seq:
                    # exactly at the 6 s receive timeout the cancelled waiter may or may not still be in place
                    edge = (receive_started is not None and abs(r["time"] - (receive_started + 6.0)) < 1e-6) or cancel_edge
                    free_possible = False in slot_full
                    certain = slot_full == {False} and eset == {n} and not edge
                    if free_possible:
                        if not r.get("repeat") or r.get("uid") not in accepted:
                            accepted[r.get("uid")] = True if certain else "maybe"
                        if certain:
                            eset = {(n + 1) & 0xF}
                            slot_full = {True}
                        else:
                            eset = eset | {(n + 1) & 0xF}
                            slot_full = {True, False}
                            ctx.count("uncertain_acceptances")
                    else:
                        ctx.count("in_sequence_frame_found_slot_full")
        elif kind == "tx":
            r = e[1]
            if r["tpci"] == "TConnect" and r["dst"] == PEER:
                connecting = True
            if r["tpci"] == "TNak":
                cl = next((c for c in cl_frames if c["src"] == r["dst"]), None)
                mech = "TNak-sent-for-connectionless-data" if cl else "TNak-sent"
                ctx.violation(mech, _witness(obs, nak=(r["time"], r["dst"], r["seq"])), f"T_NAK({r['seq']}) was sent to {r['dst']} at {r['time']}")
            if r["tpci"] == "TAck":
                ctx.count("tack_sent")
                # the T_ACK leaves in the instant its data frame arrived; when the link delays it, give the benefit of the doubt
                cands = [u for u in unacked if u["src"] == r["dst"] and u["n"] == r["seq"]]
                same = [u for u in cands if abs(u["time"] - r["time"]) < 1e-9]
                pool = same or cands
                m = next((u for u in pool if u["ok"]), pool[-1] if pool else None)
                cl_now = [c for c in cl_frames if c["src"] == r["dst"] and abs(c["time"] - r["time"]) < 1e-9]
                cl = cl_now[0] if (cl_now and not same) else (next((c for c in cl_frames if c["src"] == r["dst"]), None) if m is None else None)
                if cl is not None:
                    # nothing numbered from that sender explains this acknowledgement: it answers an unnumbered, connection-less frame
                    cl_frames.remove(cl)
                    ctx.violation("TAck-sent-for-connectionless-data", _witness(obs, ack=(r["time"], r["dst"], r["seq"]), frame=cl),
                                  f"T_ACK({r['seq']}) was sent to {r['dst']} at {r['time']} in answer to the unnumbered T_Data_Individual {cl['apci']} received at {cl['time']}")
                    continue
                if m is None:
                    ctx.violation("TAck-sent-without-a-received-data-frame", _witness(obs, ack=(r["time"], r["dst"], r["seq"])),
                                  f"T_ACK({r['seq']}) to {r['dst']} at {r['time']} matches no received data frame")
                    continue
                unacked.remove(m)
                if not m["ok"]:
                    ctx.violation(f"TAck-sent-{m['why']}", _witness(obs, ack=(r["time"], r["dst"], r["seq"]), data_frame=m),
                                  f"data frame number {m['n']} from {m['src']} at {m['time']} was acknowledged {m['why'].replace('-', ' ')}"
                                  + (f" (expected {m.get('expected')})" if "expected" in m else ""))
                else:
                    ctx.count("tack_justified")
            elif r["tpci"] == "TDataConnected" and r["dst"] == PEER:
                data_numbers.append((r.get("request_index"), r["seq"], repr(r["payload"])))
    # ---- R5: outgoing numbers --------------------------------------------------------
    per_req = {}
    for idx, seq, pl in data_numbers:
        per_req.setdefault(idx, []).append((seq, pl))
    k = 0
    for idx in sorted(per_req, key=lambda x: (x is None, x)):
        txs = per_req[idx]
        want = k & 0xF
        if len({t for t in txs}) > 1:
            ctx.violation("repetition-changes-number-or-payload", _witness(obs, request=idx, transmissions=txs),
                          f"request {idx} was transmitted as {txs}")
        elif txs[0][0] != want:
            ctx.violation("outgoing-data-number-not-consecutive-mod-16", _witness(obs, request=idx, number=txs[0][0], expected=want),
                          f"request {idx} (the {k + 1}th data frame of the connection) carried number {txs[0][0]}, expected {want}")
        if len(txs) > 2:
            ctx.violation("data-frame-transmitted-more-than-twice", _witness(obs, request=idx), f"request {idx} transmitted {len(txs)} times")
        if len(txs) == 2:
            ctx.count("repetitions_seen")
        if k >= 16:
            ctx.count("outgoing_number_wrapped")
        ctx.count("outgoing_numbers_checked")
        k += 1
    # ---- R1-R3: request outcomes ----------------------------------------------------------
    used = set()
    for res in obs["results"]:
        ctx.count(f"request_{res['outcome'].split(':')[0]}")
        dur = res["end"] - res["start"]
        if link_fault:
            ctx.count("requests_in_link_fault_histories_not_judged")
            if res["outcome"].startswith("other:"):
                ctx.count("link_fault_request_raises_" + res["outcome"][6:])  # recorded: outside the statement's quantifier
            continue
        if res["outcome"] == "cancelled-by-the-application":
            continue  # the harness cancelled it; what counts is what the later requests on this connection do
        if res.get("after_cancel"):
            ctx.count("requests_after_a_cancellation")
            if res["outcome"] == "returned":
                ctx.count("requests_after_a_cancellation_returned")
        if dur > BOUND + (1.0 if (hist.get("cancel") or {}).get("con_delay") else 0.0):
            ctx.violation("request-exceeds-the-declared-timeouts", _witness(obs, request=res["i"], duration=dur),
                          f"request {res['i']} took {dur:.3f} virtual seconds (> {BOUND})")
        if res["outcome"] == "returned":
            t = res["telegram"]
            payload = t.payload
            uid = getattr(payload, "value", None) if isinstance(payload, apci.DeviceDescriptorResponse) else getattr(payload, "address", None)
            want_cls = apci.DeviceDescriptorResponse if res["kind"] == "dd" else apci.MemoryResponse
            meta = obs["frames"].get(uid)
            if not isinstance(payload, want_cls):
                ctx.violation("request-returned-response-of-unexpected-type", _witness(obs, request=res["i"]),
                              f"request {res['i']} ({res['kind']}) returned {type(payload).__name__}")
            elif not isinstance(t.tpci, tpci.TDataConnected):
                ctx.violation("request-returned-connectionless-frame-as-response", _witness(obs, request=res["i"]),
                              f"request {res['i']} returned an unnumbered {type(t.tpci).__name__} frame ({type(payload).__name__}) as its response")
            elif meta is None or str(t.source_address) != PEER:
                ctx.violation("request-returned-frame-not-sent-by-the-peer", _witness(obs, request=res["i"]),
                              f"request {res['i']} returned {t!r}")
            elif uid in used:
                ctx.violation("response-used-twice", _witness(obs, request=res["i"], uid=uid),
                              f"the response frame {uid:#x} was returned by two requests")
            elif uid not in accepted:
                ctx.violation("request-returned-response-without-the-expected-sequence-number-or-open-connection",
                              _witness(obs, request=res["i"], uid=uid, number=meta["number"]),
                              f"request {res['i']} returned frame {uid:#x} (number {meta['number']}) which the transport layer automaton never accepted")
            else:
                ctx.count("returned_response_accepted_by_model" if accepted[uid] is True else "returned_response_maybe_accepted")
            used.add(uid)
        elif res["outcome"] == "other:CancelledError":
            ctx.violation("request-raises-CancelledError-without-being-cancelled", _witness(obs, request=res["i"]),
                          f"request {res['i']} ended with asyncio.CancelledError although "
                          + (f"only request {hist['cancel']['req']} was cancelled" if hist.get("cancel") else "no request was cancelled"))
        elif res["outcome"].startswith("other:"):
            ctx.violation(f"request-raises-{res['outcome'][6:]}", _witness(obs, request=res["i"]),
                          f"request {res['i']} raised {res.get('exception')} which is not a ManagementConnectionError")
        else:
            ctx.count("request_failed_with_management_error")
    for e in obs["log"]:
        if e[0] == "disconnect_raised":
            ctx.count("disconnect_raised_other_" + e[2])
    if obs["loop_exceptions"]:
        ctx.count("loop_exception_handler_calls", len(obs["loop_exceptions"]))
    sig = []
    for e in obs["log"]:
        if e[0] == "rx":
            sig.append(e[1].get("what", "?")[0:2] + ("!" if e[1].get("raised") else ""))
        elif e[0] == "tx":
            sig.append({"TAck": "A", "TDataConnected": "D", "TConnect": "C", "TDisconnect": "X"}.get(e[1]["tpci"], "?"))
    ctx.distinct(("".join(sig)[:120], tuple(r["outcome"] for r in obs["results"])))


def run(ctx):
    ctx.rule = (
        "history = per data transmission a list of (delay, peer action, argument, multiplicity) + idle-time actions + gaps + optional local link fault; "
        "fixed corner list + rng-generated histories (40% clean reactions, 30% mutated, 30% random) + long clean runs past number 15; "
        "distinct = (event-kind string of the merged rx/tx log, outcome of each request)"
    )
    ctx.require("tack_sent", "tack_justified", "returned_response_accepted_by_model", "request_failed_with_management_error",
                "repetitions_seen", "outgoing_number_wrapped", "rx_disc", "rx_data", "rx_ack", "rx_nak", "rx_sdata",
                "peer_disconnects_on_open_connection", "requests_cancelled_by_the_application", "requests_after_a_cancellation_returned",
                "cancelled_while_waiting-for-confirmation", "cancelled_while_waiting-for-ack", "cancelled_while_waiting-for-response",
                "cancelled_while_repetition-waiting-for-ack", "data_frames_while_our_connect_awaits_confirmation",
                "data_frames_while_our_disconnect_awaits_confirmation", "connectionless_frames_from_peer", "connectionless_frames_from_stranger")
    n = 0
    for hist in corner_histories():
        n += 1
        if ctx.mine(n):
            obs = run_history(ctx, hist)
            ctx.count("corner_histories")
            if n <= 3:
                ctx.sample({"history": hist, "outcomes": [r["outcome"] for r in obs["results"]]})
    total = ctx.scale(3000, 800000) // ctx.nshards
    for i in range(total):
        long_run = i % 100 == 7
        hist = gen_history(ctx.rng, long_run)  # ctx.rng is seeded per shard
        run_history(ctx, hist)
        ctx.count("generated_histories")


def replay(ctx, witness):
    ctx.rule = "replay of one recorded history"
    hist = witness["history"]

    def tup(x):
        return tuple(tup(i) for i in x) if isinstance(x, list) else x

    hist["reactions"] = [[tup(i) for i in r] for r in hist["reactions"]]
    hist["idle"] = [[tup(i) for i in r] for r in hist["idle"]]
    run_history(ctx, hist)
    ctx.distinct("replay-a")
    ctx.distinct("replay-b")
