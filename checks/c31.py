"""C31 keyrings: load exactly what they contain, reject every tampering of the signed content."""

from __future__ import annotations

import asyncio
import base64
from contextlib import contextmanager
import glob
import os
import random
import shutil
import tempfile
import unicodedata

from vlib import keyring_writer as W
from xknx.exceptions.exception import InvalidSecureConfiguration
from xknx.secure import keyring as K
from xknx.telegram import GroupAddress, IndividualAddress

LEVEL = "exploration"
TECHNIQUE = ("runtime monitor: content oracle from an independent keyring writer/reader + rejection oracle over every single "
             "mutation of the signed content (independent canonicalisation decides what is signed)")
LEVEL_TEXT = (
    "A fixed, seed-independent set of structural corner keyrings (every subset of {backbone, interfaces, groups, devices} with 0/1/2 "
    "entries and empty containers, every order of the top-level sections, every subset of the optional attributes of backbone, "
    "interface and device alone / before / after a complete sibling, groups without senders or keys, sender lists separated / surrounded by spaces, TAB, LF, CR written raw and as character references, "
    "secrets ending in their own pad octet for every length 0..40 in both padding layouts), then random ETS-like projects (0..N interfaces/devices/groups, non-ASCII passwords, ETS-5 and PKCS#7 padding, random "
    "serialisation: BOM, line ends, indentation, quotes, attribute order, character references) are written by an independent "
    "writer and loaded by the real sync_load_keyring; the six real ETS exports shipped with the tests are decrypted by the "
    "independent reader. For every file, every element name, attribute name, attribute value, sibling order, nesting, "
    "insertion, deletion and attribute move is mutated one at a time and loaded again, plus wrong passwords. Exploration: "
    "projects and the mutated character positions are sampled (thorough: the first 32 positions of every string + a sample of the rest)."
)
LEVEL_NOTE = (
    "Trusted: hashlib PBKDF2/SHA-256, the AES primitive of `cryptography`, pyexpat, and the independent writer, which is "
    "self-tested on every run against the 6 ETS exports (its signature equals the Signature attribute; its reader recovers the "
    "plaintexts asserted in keyring_test.py). xknx's pure function hash_keyring_password is memoised per password by the harness "
    "(the real function computes every first value). A mutation is judged iff the signed content changes as a structure (element names, signed attributes "
    "sorted by name, nesting, order; independent of any length-octet convention); it is violated only if the tampered file verifies (loads, or fails only after verification). Wrong passwords "
    "are ones whose PBKDF2-HMAC key differs (a trailing NUL, or a >64-octet password and its SHA-256, are the same HMAC key by "
    "construction of the format and are not used). The exception "
    "type of a rejection is recorded, not judged. Signed values longer than 255 octets: the "
    "writer signs under 5 conventions for the one-octet length (mod 256, saturate, truncate, skip, mod-256-truncate); only if the "
    "loader accepts the original under one of them are tampered copies (inside / beyond octet 255, original signature) judged and "
    "must be refused; otherwise the rule is vacuous and counted. Record folding: 7 crafted valid keyrings (short strings only) whose following "
    "attribute records are folded into one 256*k-octet-longer value / attribute name / element name (a collision for a "
    "length-mod-256 walk) must be refused with the old Signature; the reverse (split) is judged like the long values. Text nodes, comments, PIs, xmlns, formatting of Signature "
    "and metadata (Project/CreatedBy) are exercised and recorded, not judged."
)
SHARDS = {"quick": 1, "thorough": 16}
TIMEOUT = {"quick": 120, "thorough": 3000}

ETS_DIRS = ("test/secure_tests/resources", "test/io_tests/resources")
# passwords as used by the xknx tests
ETS_PASSWORDS = {"keyring.knxkeys": "pwd", "testcase.knxkeys": "password"}
ETS_DEFAULT_PASSWORD = "test"
# plaintexts asserted by test/secure_tests/keyring_test.py: ground truth for the independent reader
ETS_KNOWN = {
    "keyring.knxkeys": {"pw": {"1.1.4": "user4", "1.1.6": "@zvI1G&_", "1.1.7": "ZvDY-:g#", "1.1.2": "user2"},
                        "backbone": "96f034fccf510760cbd63da0f70d4a9d"},
    "testcase.knxkeys": {"pw": {"1.0.1": "user1", "1.0.11": "user2", "1.0.12": "user3", "1.0.13": "user4"},
                         "backbone": "cf89fd0f18f4889783c7ef44ee1f5e14", "mgmt": "commissioning", "auth": "authenticationcode"},
    "special_chars_secure_tunnel.knxkeys": {"pw": {"1.0.2": "tunnel_2", "1.0.6": "tunnel_6"}},
}


# --------------------------------------------------------------------------
# running the real loader
# --------------------------------------------------------------------------
@contextmanager
def memo_hash():
    """Memoise xknx's (pure) PBKDF2 per password; every first value comes from the real function."""
    real = K.hash_keyring_password
    memo: dict[bytes, bytes] = {}

    def cached(password: bytes) -> bytes:
        key = bytes(password)
        if key not in memo:
            if len(memo) > 512:
                memo.clear()
            memo[key] = real(password)
        return memo[key]

    K.hash_keyring_password = cached
    try:
        yield
    finally:
        K.hash_keyring_password = real


class Env:
    def __init__(self, ctx):
        self.ctx = ctx
        shm = "/dev/shm"
        self.dir = tempfile.mkdtemp(prefix="c31-", dir=shm if os.path.isdir(shm) and os.access(shm, os.W_OK) else None)
        self.path = os.path.join(self.dir, "case.knxkeys")

    def close(self):
        shutil.rmtree(self.dir, ignore_errors=True)

    def load(self, data: bytes, password: str):
        """-> (outcome, keyring | exception). outcome: loaded / sigfail / postfail / other:<Type>"""
        with open(self.path, "wb") as fh:
            fh.write(data)
        self.ctx.ev()
        try:
            keyring = K.sync_load_keyring(self.path, password)
        except InvalidSecureConfiguration as exc:
            if exc.__cause__ is None:
                return "sigfail", exc
            return "postfail", exc
        except Exception as exc:  # noqa: BLE001
            return "other:" + type(exc).__name__, exc
        return "loaded", keyring

    def verify(self, data: bytes, password: str):
        with open(self.path, "wb") as fh:
            fh.write(data)
        try:
            return bool(K.verify_keyring_signature(self.path, password))
        except Exception as exc:  # noqa: BLE001
            return "raised:" + type(exc).__name__


# --------------------------------------------------------------------------
# content oracle
# --------------------------------------------------------------------------
def _raw(addr):
    return None if addr is None else addr.raw


def compare_content(project: W.Project, kr) -> list[tuple[str, object, object]]:
    """List of (field, expected, got) differences between what was written and what xknx loaded."""
    diffs: list[tuple[str, object, object]] = []

    def need(field, expected, got):
        if expected != got or type(expected) is not type(got):
            diffs.append((field, expected, got))

    # backbone
    if project.backbone is None:
        need("backbone-presence", None, None if kr.backbone is None else "present")
    elif kr.backbone is None:
        need("backbone-presence", "present", None)
    else:
        need("backbone-key", project.backbone.key, kr.backbone.decrypted_key)
        need("backbone-latency", project.backbone.latency, kr.backbone.latency)
        need("backbone-multicast-address", project.backbone.multicast_address, kr.backbone.multicast_address)

    # interfaces
    need("interface-count", len(project.interfaces), len(kr.interfaces))
    for exp, got in zip(project.interfaces, kr.interfaces):
        need("interface-individual-address", exp.ia, _raw(got.individual_address))
        need("interface-type", exp.type, got.type.value)
        need("interface-host", exp.host, _raw(got.host))
        need("interface-user-id", exp.user_id, got.user_id)
        need("interface-password", exp.password, got.decrypted_password)
        need("interface-authentication", exp.authentication, got.decrypted_authentication)
        need("interface-senders", {ga: list(s or []) for ga, s in exp.groups},
             {ga.raw: [s.raw for s in senders] for ga, senders in got.group_addresses.items()})

    # group keys
    need("group-keys", list(project.group_keys or []), [(g.address.raw, g.decrypted_key) for g in kr.group_addresses])

    # devices
    exp_devs = project.devices or []
    need("device-count", len(exp_devs), len(kr.devices))
    for exp, got in zip(exp_devs, kr.devices):
        need("device-individual-address", exp.ia, _raw(got.individual_address))
        need("device-tool-key", exp.tool_key, got.decrypted_tool_key)
        need("device-management-password", exp.management_password, got.decrypted_management_password)
        need("device-authentication", exp.authentication, got.decrypted_authentication)
        need("device-sequence-number", exp.sequence_number or 0, got.sequence_number)
    if diffs:
        return diffs

    # public accessors (semantics from their docstrings)
    key_table = {ga: key for ga, key in (project.group_keys or []) if key is not None}
    need("accessor-get_data_secure_group_keys", key_table,
         {ga.raw: key for ga, key in kr.get_data_secure_group_keys().items()})
    seen_ia: set[int] = set()
    for idx, itf in enumerate(project.interfaces):
        ia = IndividualAddress(itf.ia)
        if itf.ia not in seen_ia:
            groups = {ga for ga, _ in itf.groups}
            need("accessor-get_data_secure_group_keys-receiver", {ga: k for ga, k in key_table.items() if ga in groups},
                 {ga.raw: key for ga, key in kr.get_data_secure_group_keys(receiver=ia).items()})
            got = kr.get_interface_by_individual_address(ia)
            need("accessor-get_interface_by_individual_address", idx, _index(kr.interfaces, got))
            got = kr.get_tunnel_interface_by_individual_address(ia)
            need("accessor-get_tunnel_interface_by_individual_address", idx if itf.type == "Tunneling" else None,
                 _index(kr.interfaces, got))
            need("accessor-get_tunnel_host_by_interface", itf.host if itf.type == "Tunneling" else None,
                 _raw(kr.get_tunnel_host_by_interface(ia)))
        seen_ia.add(itf.ia)
        dev_idx = next((i for i, d in enumerate(exp_devs) if d.ia == itf.host), None) if itf.host is not None else None
        need("accessor-get_device_by_interface", dev_idx, _index(kr.devices, kr.get_device_by_interface(kr.interfaces[idx])))
    for host in sorted({i.host for i in project.interfaces if i.host is not None}):
        tunnels = [n for n, i in enumerate(project.interfaces) if i.type == "Tunneling" and i.host == host]
        got_list = kr.get_tunnel_interfaces_by_host(IndividualAddress(host))
        need("accessor-get_tunnel_interfaces_by_host", tunnels, [_index(kr.interfaces, g) for g in got_list])
        uids = [project.interfaces[n].user_id for n in tunnels]
        for n in tunnels:
            uid = project.interfaces[n].user_id
            if uid is not None and uids.count(uid) == 1:
                got = kr.get_tunnel_interface_by_host_and_user_id(IndividualAddress(host), uid)
                need("accessor-get_tunnel_interface_by_host_and_user_id", n, _index(kr.interfaces, got))
    unknown = next(a for a in range(1, 70) if a not in {i.ia for i in project.interfaces})
    need("accessor-get_data_secure_group_keys-unknown-receiver", {},
         dict(kr.get_data_secure_group_keys(receiver=IndividualAddress(unknown))))
    senders = {s: 0 for itf in project.interfaces for _, ss in itf.groups for s in ss or []}
    for dev in exp_devs:
        senders[dev.ia] = dev.sequence_number or 0
    need("accessor-get_data_secure_senders", senders, {ia.raw: seq for ia, seq in kr.get_data_secure_senders().items()})
    return diffs


def _index(seq, obj):
    if obj is None:
        return None
    return next((i for i, o in enumerate(seq) if o is obj), -1)


# --------------------------------------------------------------------------
# mutations
# --------------------------------------------------------------------------
_LOW = "abcdefghijklmnopqrstuvwxyz"
_UP = "ABCDEFGHIJKLMNOPQRSTUVWXYZ"
_DIG = "0123456789"


def _other_char(ch: str, rng, name: bool) -> str:
    if ch in _DIG and not name:
        pool = _DIG
    elif ch in _UP:
        pool = _UP
    elif ch in _LOW or name:
        pool = _LOW
    else:
        pool = _LOW + _DIG
    return rng.choice([c for c in pool if c != ch])


def string_variants(text: str, rng, name: bool, all_positions: bool) -> list[tuple[str, str]]:
    """(how, new string) single-character changes of `text`; never whitespace-only, always a valid XML name if name."""
    out: list[tuple[str, str]] = []
    n = len(text)
    if n:
        positions = list(range(min(n, 32))) if all_positions else [rng.randrange(n)]
        if n > 32 and all_positions:
            positions += rng.sample(range(32, n), min(6, n - 32))
        for pos in positions:
            out.append(("replace-char", text[:pos] + _other_char(text[pos], rng, name) + text[pos + 1:]))
        pos = rng.randrange(n)
        if text[pos].swapcase() != text[pos] and len(text[pos].swapcase()) == 1:
            out.append(("flip-case", text[:pos] + text[pos].swapcase() + text[pos + 1:]))
        if n > 1 or not name:
            out.append(("drop-last-char", text[:-1]))
        if n > 2:
            pos = rng.randrange(1, n - 1)
            out.append(("drop-inner-char", text[:pos] + text[pos + 1:]))
    out.append(("append-char", text + rng.choice(_LOW)))
    if not name:
        out.append(("append-space", text + " "))
        if n > 1 and all_positions:
            out.append(("empty", ""))
            out.append(("prepend-space", " " + text))
            out.append(("duplicate", text + text))
    seen = {text}
    uniq = []
    for how, new in out:
        if new not in seen:
            seen.add(new)
            uniq.append((how, new))
    if not all_positions and len(uniq) > 2:
        # quick tier: one replaced character + one other kind of change per string
        first = next((u for u in uniq if u[0] == "replace-char"), uniq[0])
        uniq = [first, rng.choice([u for u in uniq if u is not first])]
    return uniq


def _is_name_char(ch: str) -> bool:
    return ch.isascii() and (ch.isalnum() or ch in "._-")


def tree_mutations(root: W.Node, rng, thorough: bool):
    """Yield (kind, detail, mutated tree, force_unjudged)."""
    nodes = list(root.walk())

    def attr_names(node):
        return {a[0] for a in node.attrs}

    # element names
    for path, node in nodes:
        for how, new in string_variants(node.name, rng, True, thorough):
            m = root.copy()
            m.at(path).name = new
            yield "element-name", {"path": path, "element": node.name, "how": how, "new": new}, m, False
    # attribute names / values / deletion / shifting characters between name and value
    for path, node in nodes:
        for ai, (key, value) in enumerate(node.attrs):
            if key in W.UNSIGNED_ATTRS and not path:
                continue  # Signature / xmlns of the root: handled with the unjudged mutations
            for how, new in string_variants(key, rng, True, thorough):
                if new in attr_names(node):
                    continue
                m = root.copy()
                m.at(path).attrs[ai][0] = new
                yield "attr-name", {"path": path, "element": node.name, "attr": key, "how": how, "new": new}, m, False
            for how, new in string_variants(value, rng, False, thorough):
                m = root.copy()
                m.at(path).attrs[ai][1] = new
                yield "attr-value", {"path": path, "element": node.name, "attr": key, "how": how, "old": value, "new": new}, m, False
            m = root.copy()
            del m.at(path).attrs[ai]
            yield "delete-attr", {"path": path, "element": node.name, "attr": key}, m, False
            if value and _is_name_char(value[0]) and key + value[0] not in attr_names(node):
                m = root.copy()
                m.at(path).attrs[ai][0] = key + value[0]
                m.at(path).attrs[ai][1] = value[1:]
                yield "shift-char-value-to-name", {"path": path, "element": node.name, "attr": key}, m, False
            if len(key) > 1 and key[:-1] not in attr_names(node):
                m = root.copy()
                m.at(path).attrs[ai][0] = key[:-1]
                m.at(path).attrs[ai][1] = key[-1] + value
                yield "shift-char-name-to-value", {"path": path, "element": node.name, "attr": key}, m, False
            # move the attribute to another element
            others = [(p, n) for p, n in nodes if p != path and key not in attr_names(n)]
            if others:
                picks = others if (thorough and len(others) <= 6) else rng.sample(others, min(len(others), 3 if thorough else 1))
                for p2, n2 in picks:
                    m = root.copy()
                    moved = m.at(path).attrs.pop(ai)
                    m.at(p2).attrs.insert(rng.randint(0, len(n2.attrs)), moved)
                    yield "move-attr", {"path": path, "element": node.name, "attr": key, "to_path": p2, "to_element": n2.name}, m, False
        # swap the values of two attributes of one element
        signed = [i for i, a in enumerate(node.attrs) if not (a[0] in W.UNSIGNED_ATTRS and not path)]
        if len(signed) >= 2:
            pairs = [(i, j) for i in signed for j in signed if i < j]
            for i, j in (pairs if thorough else rng.sample(pairs, min(2, len(pairs)))):
                m = root.copy()
                at = m.at(path).attrs
                at[i][1], at[j][1] = at[j][1], at[i][1]
                yield "swap-attr-values", {"path": path, "element": node.name, "attrs": [node.attrs[i][0], node.attrs[j][0]]}, m, False
        # add an attribute
        # ... with an arbitrary name, with an empty value, and with a name close to the two unsigned ones
        near = ("Sign", "nature", "xml", "ns", "signature", "SIGNATURE", "Signature2", "xmlns2", "Xmlns", "S", "x", "Signatur", "mlns")
        for key, value in (("Extra", "1"), ("Z", ""), (rng.choice(near), "1")) + (tuple((k, "v") for k in rng.sample(near, 5)) if thorough else ()):
            if key not in attr_names(node):
                m = root.copy()
                m.at(path).attrs.insert(rng.randint(0, len(node.attrs)), [key, value])
                yield "add-attr", {"path": path, "element": node.name, "attr": key, "value": value}, m, False
    # structure
    for path, node in nodes:
        kids = node.children
        # swap siblings
        pairs = [(i, i + 1) for i in range(len(kids) - 1)]
        if len(kids) > 2:
            extra = [(i, j) for i in range(len(kids)) for j in range(i + 2, len(kids))]
            pairs += extra if thorough and len(extra) <= 30 else rng.sample(extra, min(len(extra), 2))
        for i, j in pairs:
            m = root.copy()
            mk = m.at(path).children
            mk[i], mk[j] = mk[j], mk[i]
            yield "swap-siblings", {"path": path, "element": node.name, "children": [i, j], "names": [kids[i].name, kids[j].name]}, m, False
            # exchange one same-named attribute value between the two siblings (e.g. two tunnels trade passwords)
            common = [k for k, _ in kids[i].attrs if kids[j].get(k) is not None and kids[j].get(k) != kids[i].get(k)]
            for key in (common if thorough else common[:1] + common[-1:]):
                m = root.copy()
                a, b = m.at(path).children[i], m.at(path).children[j]
                va, vb = a.get(key), b.get(key)
                a.set(key, vb)
                b.set(key, va)
                yield "exchange-attr-between-siblings", {"path": path, "children": [i, j], "attr": key, "element": kids[i].name}, m, False
            if j == i + 1:
                # nest the second into the first
                m = root.copy()
                mk = m.at(path).children
                moved = mk.pop(j)
                mk[i].children.append(moved)
                yield "nest-element", {"path": path, "child": j, "into": i, "names": [kids[j].name, kids[i].name]}, m, False
        # insert
        donors = [n for _, n in nodes if n is not root]
        new_nodes = [W.Node("Group", [["Address", "77"], ["Senders", "1.1.1"]]), W.Node("X")]
        if donors:
            new_nodes.append(rng.choice(donors).copy())
            if kids:
                new_nodes.append(rng.choice(kids).copy())
        for new in new_nodes:
            m = root.copy()
            pos = rng.randint(0, len(kids))
            m.at(path).children.insert(pos, new)
            yield "insert-element", {"path": path, "element": node.name, "position": pos, "new": new.name, "new_attrs": len(new.attrs)}, m, False
        if path:
            # delete
            m = root.copy()
            del m.at(path[:-1]).children[path[-1]]
            yield "delete-element", {"path": path, "element": node.name}, m, False
            # replace an element by its children (remove one level) / move it out of its parent
            if node.children:
                m = root.copy()
                m.at(path[:-1]).children[path[-1]:path[-1] + 1] = [c.copy() for c in node.children]
                yield "unwrap-element", {"path": path, "element": node.name}, m, False
            if len(path) >= 2:
                m = root.copy()
                moved = m.at(path[:-1]).children.pop(path[-1])
                m.at(path[:-2]).children.insert(path[-2] + 1, moved)
                yield "unnest-element", {"path": path, "element": node.name}, m, False
            # wrap an element into a new parent
            m = root.copy()
            wrapped = m.at(path[:-1]).children[path[-1]]
            m.at(path[:-1]).children[path[-1]] = W.Node(node.name if rng.random() < 0.5 else "W", [], [wrapped])
            yield "wrap-element", {"path": path, "element": node.name}, m, False

    # ---- outside the signed content: exercised, recorded, not judged --------------------
    m = root.copy()
    m.set("xmlns", "http://example.org/other")
    yield "u-xmlns-value", {}, m, True
    m = root.copy()
    m.attrs = [a for a in m.attrs if a[0] != "xmlns"]
    yield "u-xmlns-removed", {}, m, True
    m = root.copy()
    for _, n in m.walk():
        rng.shuffle(n.attrs)
    yield "u-attribute-order", {}, m, True
    sig = root.get("Signature") or ""
    for how, new in (("newline-inside", sig[:7] + "\n" + sig[7:]), ("no-padding", sig.rstrip("=")), ("spaces-around", " " + sig + " "),
                     ("empty", ""), ("lowercase", sig.lower()), ("truncated", sig[:12]),
                     ("other-bytes", base64.b64encode(bytes(b ^ 0x01 for b in base64.b64decode(sig or "AAAA"))).decode())):
        m = root.copy()
        m.set("Signature", new)
        yield "u-signature-" + how, {"new": new}, m, True
    m = root.copy()
    m.attrs = [a for a in m.attrs if a[0] != "Signature"]
    yield "u-signature-removed", {}, m, True
    for path, node in nodes[1:4]:
        for key, value in (("Signature", "AAAA"), ("xmlns", "urn:x"), ("xmlns:q", "urn:q")):
            if node.get(key) is None:
                m = root.copy()
                m.at(path).attrs.append([key, value])
                yield "u-child-attr-" + key.replace(":", "-"), {"path": path, "element": node.name}, m, True
    # strings that do not fit the one-octet length prefix
    for n in (256, 300, 512):
        m = root.copy()
        m.set("Project", "P" * n)
        yield "value-longer-than-255", {"path": (), "element": root.name, "attr": "Project", "how": f"{n}-octets"}, m, False


def text_mutations(data: bytes, rng):
    """Mutations of the serialised text outside the signed content (never judged)."""
    end = data.rfind(b"</Keyring>")
    if end > 0:
        yield "u-comment", data[:end] + b"<!-- tampered -->" + data[end:]
        yield "u-text-node", data[:end] + b"tampered text" + data[end:]
        yield "u-processing-instruction", data[:end] + b"<?tampered yes?>" + data[end:]
        yield "u-cdata", data[:end] + b"<![CDATA[<Interface/>]]>" + data[end:]
    yield "u-trailing-whitespace", data + b"\n\n  \n"
    yield "u-trailing-comment", data + b"<!-- after -->"
    gt = data.find(b"<Keyring")
    if gt >= 0:
        yield "u-leading-comment", data[:gt] + b"<!-- before -->" + data[gt:]
        yield "u-space-in-start-tag", data[:gt + 8] + b"  \n\t" + data[gt + 8:]


# --------------------------------------------------------------------------
# one case = one keyring file with all its mutations
# --------------------------------------------------------------------------
def wrong_passwords(password: str, rng) -> list[tuple[str, str]]:
    cands = [("append-char", password + "x"), ("drop-last", password[:-1]), ("swapcase", password.swapcase()),
             ("trailing-space", password + " "), ("leading-space", " " + password),
             ("nfc", unicodedata.normalize("NFC", password)), ("nfd", unicodedata.normalize("NFD", password)),
             ("random", W.random_text(rng, 1, 12)), ("empty", ""), ("doubled", password + password)]
    out, seen = [], {password}
    for how, pw in cands:
        if pw not in seen:
            seen.add(pw)
            out.append((how, pw))
    return out


def run_case(ctx, env: Env, source: str, label, root: W.Node, style: W.Style, project: W.Project, rng, sweep: bool = True) -> None:
    password = project.password
    thorough = not ctx.quick
    data = W.serialize(root, style)
    base_canon = W.canon(root)
    wit = {"source": source, "case": label, "password": password, "style": style.describe()}

    # ---- A. the untouched file: must load, content must be exact ---------------------
    outcome, res = env.load(data, password)
    ctx.count("valid_files_loaded_attempts")
    if outcome != "loaded":
        kind = "signature-verification-failed" if outcome == "sigfail" else outcome.replace(":", "-")
        ctx.violation(f"valid-keyring-rejected-{kind}", {**wit, "file_b64": base64.b64encode(data).decode(), "exception": repr(res)[:200],
                                                        "cause": repr(getattr(res, "__cause__", None))[:200]},
                      f"{source} keyring {label} with the correct password was not loaded: {outcome} {res!r}"[:300])
        return
    ctx.count("valid_files_loaded")
    diffs = compare_content(project, res)
    ctx.count("content_fields_compared", 8 + 7 * len(project.interfaces) + 5 * len(project.devices or []) + len(project.group_keys or []))
    ctx.count("secrets_decrypted", sum((i.password is not None) + (i.authentication is not None) for i in project.interfaces)
              + sum((d.management_password is not None) + (d.authentication is not None) for d in project.devices or []))
    ctx.count("keys_decrypted", len(project.group_keys or []) + sum(d.tool_key is not None for d in project.devices or [])
              + (project.backbone is not None and project.backbone.key is not None))
    ctx.count("sender_lists_compared", sum(len(i.groups) for i in project.interfaces))
    ctx.distinct(("content", source, project.shape(), style.describe()))
    for fld, expected, got in diffs[:4]:
        ctx.violation(f"content-mismatch-{fld}", {**wit, "field": fld, "expected": expected, "got": got,
                                                  "file_b64": base64.b64encode(data).decode()},
                      f"{source} keyring {label}: loaded {fld} = {got!r}, file contains {expected!r}"[:400])
    if (res.project_name, res.created_by, res.created) != (project.name, project.created_by, project.created):
        ctx.count("metadata_mismatch_recorded")
    ctx.sample({"source": source, "case": label, "shape(if,ga,dev,backbone,if-groups)": project.shape(), "bytes": len(data),
                "style": style.describe()})
    if env.verify(data, password) is not True:
        ctx.violation("verify_keyring_signature-false-for-valid-keyring", {**wit, "file_b64": base64.b64encode(data).decode()},
                      f"verify_keyring_signature is not True for valid {source} keyring {label}")
    if isinstance(label, int) and label < 3 or source == "ets":
        # the asyncio entry point gives the same object content
        with open(env.path, "wb") as fh:
            fh.write(data)
        try:
            kr2 = asyncio.run(K.load_keyring(env.path, password))
            d2 = compare_content(project, kr2)
        except Exception as exc:  # noqa: BLE001
            d2 = [("load_keyring-raised", None, repr(exc))]
        ctx.count("async_load_keyring_compared")
        for fld, expected, got in d2[:2]:
            ctx.violation(f"async-load-content-mismatch-{fld}", {**wit, "field": fld, "expected": expected, "got": got},
                          f"load_keyring() of {source} keyring {label}: {fld} = {got!r}, expected {expected!r}"[:400])

    # ---- B. wrong passwords ------------------------------------------------------------
    for how, pw in wrong_passwords(password, rng)[: None if sweep else 2]:
        outcome, res = env.load(data, pw)
        ctx.count("wrong_password_loads")
        ctx.distinct(("wrongpw", source, how, outcome))
        if outcome in ("loaded", "postfail"):
            ctx.violation(f"wrong-password-{how}-passes-signature-verification",
                          {**wit, "wrong_password": pw, "how": how, "outcome": outcome, "file_b64": base64.b64encode(data).decode()},
                          f"{source} keyring {label}: password {pw!r} instead of {password!r} verified ({outcome})")
        elif outcome == "sigfail":
            ctx.count("wrong_password_rejected")
        else:
            ctx.count("wrong_password_rejected_other_exception")
            ctx.count("rejected_with_" + outcome.split(":")[1])

    for how, new in (("emptied", ""), ("removed", None), ("cut-to-4-chars", (root.get("Signature") or "")[:4])):
        m2 = root.copy()
        if new is None:
            m2.attrs = [a for a in m2.attrs if a[0] != "Signature"]
        else:
            m2.set("Signature", new)
        pw = password + "x"
        outcome, res = env.load(W.serialize(m2, style), pw)
        ctx.count("wrong_password_loads")
        ctx.distinct(("wrongpw+sig", source, how, outcome))
        if outcome in ("loaded", "postfail"):
            ctx.violation(f"wrong-password-with-signature-{how.split('-')[0]}-passes-signature-verification",
                          {**wit, "wrong_password": pw, "signature": how, "outcome": outcome},
                          f"{source} keyring {label}: wrong password {pw!r} verifies once the Signature attribute is {how} ({outcome})")
        elif outcome == "sigfail":
            ctx.count("wrong_password_rejected")
        else:
            ctx.count("wrong_password_rejected_other_exception")
            ctx.count("rejected_with_" + outcome.split(":")[1])

    if not sweep:
        return

    # ---- C. single mutations -------------------------------------------------------------
    n_mut = 0
    for kind, detail, mroot, force_unjudged in tree_mutations(root, rng, thorough):
        # judged iff the signed content differs as a structure (names, signed attributes, nesting, order); this does not
        # depend on how a string longer than 255 octets would be length-prefixed
        judged = not force_unjudged and W.canon(mroot) != base_canon
        mdata = W.serialize(mroot, style)
        outcome, res = env.load(mdata, password)
        n_mut += 1
        _judge_mutation(ctx, env, wit, source, label, kind, detail, judged, outcome, res, mdata, password, n_mut)
        if judged and n_mut % (2 if thorough else 7) == 0:
            # the same change of the signed content, and the attacker also rewrites the Signature attribute without
            # knowing the password (empty, removed, cut short, arbitrary bytes): still a change of the signed content
            sig = root.get("Signature") or ""
            how, new = rng.choice((("emptied", ""), ("removed", None), ("cut-to-%d-chars" % (k := rng.choice((1, 2, 4, 8, 12, 20))), sig[:k]),
                                   ("arbitrary", base64.b64encode(rng.randbytes(16)).decode()), ("whitespace", "  ")))
            m2 = mroot.copy()
            if new is None:
                m2.attrs = [a for a in m2.attrs if a[0] != "Signature"]
            else:
                m2.set("Signature", new)
            mdata2 = W.serialize(m2, style)
            outcome2, res2 = env.load(mdata2, password)
            _judge_mutation(ctx, env, wit, source, label, kind + "+signature-rewritten", {**detail, "signature": how}, True,
                            outcome2, res2, mdata2, password, 0)
    for kind, mdata in text_mutations(data, rng):
        outcome, res = env.load(mdata, password)
        _judge_mutation(ctx, env, wit, source, label, kind, {}, False, outcome, res, mdata, password, 0)
    # another serialisation of the same signed content: valid by construction, must still load with the same content
    for _ in range(2):
        style2 = W.random_style(rng)
        mdata = W.serialize(root, style2)
        outcome, res = env.load(mdata, password)
        ctx.count("reserialised_loads")
        if outcome != "loaded":
            ctx.violation("valid-keyring-rejected-after-reformatting", {**wit, "style2": style2.describe(), "outcome": outcome,
                                                                       "file_b64": base64.b64encode(mdata).decode()},
                          f"{source} keyring {label} re-serialised ({style2.describe()}) is rejected: {outcome}")
        else:
            for fld, expected, got in compare_content(project, res)[:2]:
                ctx.violation(f"content-mismatch-{fld}", {**wit, "style2": style2.describe(), "field": fld, "expected": expected, "got": got,
                                                          "file_b64": base64.b64encode(mdata).decode()},
                              f"{source} keyring {label} re-serialised: loaded {fld} = {got!r}, file contains {expected!r}"[:400])


def _judge_mutation(ctx, env, wit, source, label, kind, detail, judged, outcome, res, mdata, password, n) -> None:
    oc = outcome.split(":")[0]
    elem = detail.get("element") or (detail.get("names") or [""])[0]
    ctx.distinct(("mut", source, kind, elem, detail.get("attr", ""), detail.get("how", ""), judged, outcome))
    if not judged:
        ctx.count("unjudged_mutations")
        ctx.extra.setdefault("unsigned_content_outcomes", {})
        key = f"{kind if kind.startswith('u-') else 'no-change-of-signed-content'}:{'accepted' if outcome == 'loaded' else 'rejected'}"
        ctx.extra["unsigned_content_outcomes"][key] = ctx.extra["unsigned_content_outcomes"].get(key, 0) + 1
        return
    ctx.count("tamper_mutations")
    ctx.count("tamper_" + kind)
    if outcome == "sigfail":
        ctx.count("tamper_rejected_InvalidSecureConfiguration")
    elif oc == "other":
        ctx.count("tamper_rejected_other_exception")
        ctx.count("rejected_with_" + outcome.split(":")[1])
    else:
        scope = "root" if not detail.get("path") else "child"
        how = "is-loaded" if outcome == "loaded" else "passes-signature-verification-then-fails-to-parse"
        ctx.violation(f"tampered-{kind}-{scope}-{how}",
                      {**wit, "mutation": kind, "detail": detail, "outcome": outcome, "file_b64": base64.b64encode(mdata).decode()},
                      f"{source} keyring {label}: {kind} {detail} changes the signed content but the file still verifies ({outcome})"[:500])
    if n % 23 == 0:
        # verify_keyring_signature itself agrees with the loader
        ver = env.verify(mdata, password)
        ctx.count("verify_function_crosschecks")
        if ver is True:
            ctx.violation(f"tampered-{kind}-verify_keyring_signature-true",
                          {**wit, "mutation": kind, "detail": detail, "file_b64": base64.b64encode(mdata).decode()},
                          f"{source} keyring {label}: verify_keyring_signature is True after {kind} {detail}"[:500])


# --------------------------------------------------------------------------
# corpus
# --------------------------------------------------------------------------
def ets_files() -> list[tuple[str, bytes]]:
    src = os.environ.get("XKNX_SRC", "/repo")
    out: dict[bytes, str] = {}
    for d in ETS_DIRS:
        for path in sorted(glob.glob(os.path.join(src, d, "*.knxkeys"))):
            with open(path, "rb") as fh:
                data = fh.read()
            out.setdefault(data, os.path.basename(path))
    return sorted(((name, data) for data, name in out.items()))


def self_test(ctx, files) -> bool:
    """The independent writer/reader against real ETS output and the plaintexts the xknx tests assert."""
    good = True
    for name, data in files:
        pw = ETS_PASSWORDS.get(name, ETS_DEFAULT_PASSWORD)
        root = W.parse_bytes(data)
        sig = base64.b64encode(W.signature(root, W.password_hash(pw))).decode()
        if sig != root.get("Signature"):
            ctx.inconclusive(f"oracle self-test: independent signature of {name} differs from the ETS Signature attribute")
            good = False
            continue
        ctx.count("selftest_ets_signatures_reproduced")
        known = ETS_KNOWN.get(name)
        if known:
            proj = W.read_tree(root, pw)
            got = {W.ia_str(i.ia): i.password for i in proj.interfaces}
            okk = all(got.get(k) == v for k, v in known["pw"].items())
            if "backbone" in known:
                okk &= proj.backbone is not None and proj.backbone.key == bytes.fromhex(known["backbone"])
            if "mgmt" in known:
                okk &= proj.devices[0].management_password == known["mgmt"] and proj.devices[0].authentication == known["auth"]
            if not okk:
                ctx.inconclusive(f"oracle self-test: independent reader does not recover the known plaintexts of {name}")
                good = False
            else:
                ctx.count("selftest_known_plaintexts_recovered")
    return good


def gen_case(ctx, env, index: int) -> None:
    rng = random.Random(f"C31/{ctx.seed}/{index}")
    project = W.random_project(rng, size=rng.choice((3, 6, 6, 9)))
    if index == 0:
        project = W.Project(project.name, project.created_by, project.created, project.password)  # empty keyring
    root = W.build_tree(project, rng, shuffle_attrs=rng.random() < 0.35)
    style = W.random_style(rng)
    # the writer's own output read back by the writer's reader (guards the oracle, not xknx)
    back = W.read_tree(W.parse_bytes(W.serialize(root, style)), project.password)
    if (back.interfaces, back.backbone, back.group_keys or [], [(d.ia, d.tool_key, d.management_password, d.authentication) for d in back.devices or []]) != (
            project.interfaces, project.backbone, project.group_keys or [],
            [(d.ia, d.tool_key, d.management_password, d.authentication) for d in project.devices or []]):
        ctx.inconclusive(f"oracle self-test: writer/reader round trip differs for generated keyring {index}")
        return
    ctx.count("generated_keyrings")
    run_case(ctx, env, "generated", index, root, style, project, rng)


def corner_case(ctx, env, number: int, label: str, project: W.Project, order: str) -> None:
    """Deterministic structural corner keyring: same file content model on every seed and tier."""
    rng = random.Random(f"C31/corner/{label}")
    root = W.build_tree(project, rng, order=order)
    style = W.Style(bom=number % 2 == 0, newline=("\r\n", "\n")[number % 3 == 0])
    ctx.count("corner_keyrings")
    if project.backbone is not None and project.backbone.key is not None and not project.interfaces \
            and not project.group_keys and not project.devices:
        ctx.count("corner_backbone_key_without_any_other_entry")
    if label.startswith("pad-"):
        ctx.count("corner_secrets_ending_in_their_pad_octet", 8)
    if label.startswith("senders-ws"):
        ctx.count("corner_sender_whitespace_variants")
    sweep = not label.startswith("pad-") and ((not ctx.quick) or (number % 16 == ctx.seed % 16 and not label.startswith("senders-ws")))
    run_case(ctx, env, "corner", label, root, style, project, rng, sweep=sweep)


def ets_case(ctx, env, name: str, data: bytes) -> None:
    rng = random.Random(f"C31/{ctx.seed}/ets/{name}")
    pw = ETS_PASSWORDS.get(name, ETS_DEFAULT_PASSWORD)
    root = W.parse_bytes(data)
    project = W.read_tree(root, pw)
    # the file exactly as shipped
    outcome, res = env.load(data, pw)
    ctx.count("ets_files_as_shipped")
    if outcome != "loaded":
        ctx.violation("ets-export-rejected", {"file": name, "password": pw, "outcome": outcome, "exception": repr(res)[:200]},
                      f"ETS export {name} is not loaded with its password: {outcome}")
        return
    for fld, expected, got in compare_content(project, res)[:3]:
        ctx.violation(f"content-mismatch-{fld}", {"source": "ets", "case": name, "password": pw, "field": fld, "expected": expected, "got": got},
                      f"ETS export {name}: loaded {fld} = {got!r}, file contains {expected!r}"[:400])
    style = W.Style(bom=data.startswith(b"\xef\xbb\xbf"))
    run_case(ctx, env, "ets", name, root, style, project, rng)


def _find_long(root: W.Node, where) -> W.Node:
    elem, idx, _attr = where
    if elem == "Keyring":
        return root
    found = [n for _, n in root.walk() if n.name == elem]
    return found[idx or 0]


def _letters(n: int, salt: str) -> str:
    return ((salt + "abcdefghijklmnopqrstuvwxyzABCDEFGHIJKLMNOPQRSTUVWXYZ") * (n // 20 + 2))[:n]


def fold_cases():
    """(label, kind, original tree builder result) for the record-folding tampers.

    With a one-octet length, a string of 256*k octets more than its original length hashes (under a length-mod-256 walk)
    like the short string followed by further length-prefixed records. Each case is a validly signed keyring with only
    short strings, plus the tampered twin in which the records of the following attributes are folded into one string
    (an attribute value, an attribute name, an element name), the attributes removed and the Signature kept.
    Length octets used inside strings are printable ASCII (and letters where the string is an XML name).
    """
    rng = random.Random("C31/fold")
    cases = []

    def project() -> W.Project:
        p = W.Project("", "ETS 6.1.0", "2024-03-01T10:11:12", W.CORNER_PASSWORD)
        p.backbone = W.PBackbone("224.0.23.12", 1000, rng.randbytes(16))
        p.interfaces = [W.PInterface(0x1001, "Tunneling", 0x1000, 2, "tunnel-pass", "auth-code", [(2305, [0x1001, 0x1007])])]
        p.group_keys = [(2305, rng.randbytes(16))]
        p.devices = [W.PDevice(0x1000, rng.randbytes(16), "mgmt", "dev-auth", 7)]
        return p

    def value_fold(label, path, attr, prefix_of_names, n_extra, project_name=""):
        """extras sorted directly after `attr`, each record 1+32+1+94 = 128 octets; n_extra*128 must be 256*k."""
        p = project()
        p.name = project_name
        root = W.build_tree(p, rng)
        node = root.at(path)
        names = [(prefix_of_names + f"{i}" + "x" * 32)[:32] for i in range(n_extra)]
        for i, nm in enumerate(names):
            node.attrs.append([nm, _letters(94, str(i))])
        W.sign(root, W.password_hash(p.password))
        t = root.copy()
        tn = t.at(path)
        folded = tn.get(attr) + "".join(chr(len(nm)) + nm + chr(94) + tn.get(nm) for nm in names)
        tn.attrs = [a for a in tn.attrs if a[0] not in names]
        tn.set(attr, folded)
        cases.append((label, "attribute-value", p, root, t))

    value_fold("root-Project-empty+2", (), "Project", "ProjectZ", 2)                    # the 256-octet case
    value_fold("root-Project-nonempty+4", (), "Project", "ProjectZ", 4, "Haus am See")  # 512 more octets
    value_fold("device-ToolKey+2", (3, 0), "ToolKey", "ZZ", 2)
    value_fold("interface-group-Senders+2", (1, 0), "Senders", "Zz", 2)
    value_fold("backbone-MulticastAddress+6", (0,), "MulticastAddress", "N", 6)         # 768 more octets

    # attribute name absorbs: chr(65) v1(65) chr(65) X2(65) chr(65) v2(65) chr(57) X3(57) -> 66+66+66+58 = 256 more octets
    p = project()
    root = W.build_tree(p, rng)
    x1, x2, x3 = "Q1", "Q2" + _letters(63, "n"), "Q3" + _letters(55, "m")
    v1, v2, v3 = _letters(65, "v"), _letters(65, "w"), "tail"
    root.attrs += [[x1, v1], [x2, v2], [x3, v3]]
    W.sign(root, W.password_hash(p.password))
    t = root.copy()
    t.attrs = [a for a in t.attrs if a[0] not in (x1, x2, x3)]
    t.attrs.append([x1 + chr(len(v1)) + v1 + chr(len(x2)) + x2 + chr(len(v2)) + v2 + chr(len(x3)) + x3, v3])
    cases.append(("root-attribute-name+256", "attribute-name", p, root, t))

    # element name absorbs all four strings of its two attributes: 66+66+66+58 = 256 more octets
    p = project()
    root = W.build_tree(p, rng)
    n1, n2 = "A" + _letters(64, "p"), "B" + _letters(64, "q")
    e1, e2 = _letters(65, "r"), _letters(57, "s")
    root.children.append(W.Node("Extra", [[n1, e1], [n2, e2]]))
    W.sign(root, W.password_hash(p.password))
    t = root.copy()
    t.children[-1] = W.Node("Extra" + chr(len(n1)) + n1 + chr(len(e1)) + e1 + chr(len(n2)) + n2 + chr(len(e2)) + e2)
    cases.append(("extra-element-name+256", "element-name", p, root, t))
    return cases


def fold_rule(ctx, env) -> None:
    """Merge following attribute records into one 256*k-octet longer string / split such a string into records."""
    style = W.Style()
    for label, kind, project, root, tampered in fold_cases():
        # the construction itself: byte-identical under a length-mod-256 walk, different signed content
        if W.signed_stream(tampered, "mod256")[0] != W.signed_stream(root, "mod256")[0] or W.canon(tampered) == W.canon(root):
            ctx.inconclusive(f"fold case {label}: construction is not a mod-256 collision")
            continue
        wit = {"source": "fold", "case": label, "password": project.password, "folded_into": kind}
        # 1. merge: original has only short strings, is valid whatever the convention, and must load
        data = W.serialize(root, style)
        outcome, res = env.load(data, project.password)
        ctx.count("fold_originals_loaded_attempts")
        if outcome != "loaded":
            ctx.violation(f"valid-keyring-with-extra-attributes-rejected-{outcome.replace(':', '-')}", {**wit, "file_b64": base64.b64encode(data).decode()},
                          f"fold case {label}: the validly signed original (short strings only) is not loaded: {outcome}")
            continue
        for fld, expected, got in compare_content(project, res)[:2]:
            ctx.violation(f"content-mismatch-{fld}", {**wit, "field": fld, "expected": expected, "got": got},
                          f"fold case {label}: loaded {fld} = {got!r}, file contains {expected!r}"[:400])
        mdata = W.serialize(tampered, style)
        o2, r2 = env.load(mdata, project.password)
        ctx.count("fold_merge_tampers_judged")
        ctx.distinct(("fold-merge", label, o2))
        if o2 in ("loaded", "postfail"):
            ctx.violation(f"tampered-merge-attribute-records-into-256k-longer-{kind}-verifies",
                          {**wit, "outcome": o2, "file_b64": base64.b64encode(mdata).decode(), "original_b64": base64.b64encode(data).decode()},
                          f"fold case {label}: following attributes removed and their length-prefixed records folded into one {kind} "
                          f"(256*k octets longer), Signature kept: the file verifies ({o2})")
        else:
            ctx.count("fold_merge_tampers_refused")
            ctx.count("rejected_with_" + (o2.split(":")[1] if ":" in o2 else "InvalidSecureConfiguration"))
        # 2. split: the folded document as the ORIGINAL, signed under every length convention; if the loader accepts it,
        #    the unfolded twin with the same signature must be refused
        pwhash = W.password_hash(project.password)
        for conv in W.LENGTH_CONVENTIONS:
            orig = tampered.copy()
            W.sign(orig, pwhash, conv)
            o3, _ = env.load(W.serialize(orig, style), project.password)
            ctx.count("fold_split_originals_attempts")
            ctx.distinct(("fold-split-orig", label, conv, o3))
            if o3 != "loaded":
                ctx.count("fold_split_original_refused")
                continue
            ctx.count("fold_split_original_accepted")
            twin = root.copy()
            twin.set("Signature", orig.get("Signature"))
            tdata = W.serialize(twin, style)
            o4, _ = env.load(tdata, project.password)
            ctx.count("fold_split_tampers_judged")
            if o4 in ("loaded", "postfail"):
                ctx.violation(f"tampered-split-256k-longer-{kind}-into-attribute-records-verifies-{conv}-signature",
                              {**wit, "convention": conv, "outcome": o4, "file_b64": base64.b64encode(tdata).decode()},
                              f"fold case {label}: a keyring with a 256*k-octet-longer {kind} is accepted under the '{conv}' length convention, and after "
                              f"splitting that string into separate attribute records the same signature still verifies ({o4})")
    if not ctx.counters.get("fold_split_original_accepted"):
        ctx.count("fold_split_rule_vacuous_nothing_accepted")


def long_value_rule(ctx, env) -> None:
    """Signed values longer than 255 octets (one length octet: what ETS signs is unknown).

    Needs no knowledge of ETS: the file is signed under every plausible convention for the length octet; if the loader
    accepts the original under a convention, that value is signed content, and every copy with the value changed (inside
    or entirely beyond octet 255) that keeps the original signature must be refused.
    """
    ctx.extra.setdefault("long_value_outcomes", {})
    rec = ctx.extra["long_value_outcomes"]
    for label, project, where in W.long_value_projects():
        rng = random.Random(f"C31/long/{label}")
        root = W.build_tree(project, rng)
        pwhash = W.password_hash(project.password)
        attr = where[2]
        value = _find_long(root, where).get(attr)
        assert len(value.encode("utf-8")) > 255
        # index of the first character that starts beyond octet 255
        beyond = next(i for i in range(len(value)) if len(value[:i].encode("utf-8")) > 255)
        tampers = [("inside", "replace-first-char", "Z" + value[1:]),
                   ("inside", "replace-char-100", value[:100] + ("Z" if value[100] != "Z" else "Y") + value[101:]),
                   ("beyond", "replace-last-char", value[:-1] + ("7" if value[-1] != "7" else "8")),
                   ("beyond", "replace-char-just-beyond", value[:beyond + 2] + ("Z" if value[beyond + 2] != "Z" else "Y") + value[beyond + 3:]),
                   ("beyond", "append-char", value + "9"),
                   ("beyond", "append-256-chars", value + "9" * 256),
                   ("beyond", "drop-last-char", value[:-1]),
                   ("beyond", "cut-after-octet-255", value[:beyond]),
                   ("beyond", "cut-to-just-above-255", value[:beyond + 1]),
                   ("beyond", "swap-two-tail-chars", value[:-3] + value[-1] + value[-2] + value[-3])]
        if attr == "Senders":
            parts = value.split(" ")
            tampers += [("beyond", "last-sender-replaced", " ".join(parts[:-1] + ["1.1.66"])),
                        ("beyond", "sender-appended", value + " 1.1.66"),
                        ("beyond", "last-sender-removed", " ".join(parts[:-1]))]
        for conv in W.LENGTH_CONVENTIONS:
            W.sign(root, pwhash, conv)
            style = W.Style()
            outcome, res = env.load(W.serialize(root, style), project.password)
            ctx.count("long_value_originals_loaded_attempts")
            rec[f"{label}/{conv}:{outcome}"] = rec.get(f"{label}/{conv}:{outcome}", 0) + 1
            ctx.distinct(("long", label, conv, outcome))
            if outcome != "loaded":
                ctx.count("long_value_original_refused")
                continue
            ctx.count("long_value_original_accepted")
            wit = {"source": "long-value", "case": label, "convention": conv, "password": project.password, "attr": attr}
            for fld, expected, got in compare_content(project, res)[:2]:
                ctx.violation(f"long-value-content-mismatch-{fld}", {**wit, "field": fld, "expected": expected, "got": got},
                              f"long-value keyring {label} ({conv}) is accepted but {fld} = {got!r}, file contains {expected!r}"[:400])
            for region, how, new in tampers:
                if new == value:
                    continue
                m = root.copy()
                _find_long(m, where).set(attr, new)
                mdata = W.serialize(m, style)
                o2, _ = env.load(mdata, project.password)
                ctx.count("long_value_tampers_judged")
                ctx.distinct(("long-tamper", label, conv, region, how, o2))
                if o2 in ("loaded", "postfail"):
                    ctx.violation(f"tampered-long-value-{region}-octet-255-verifies-{conv}-signature",
                                  {**wit, "how": how, "region": region, "old_octets": len(value.encode()), "new_tail": new[-40:],
                                   "outcome": o2, "file_b64": base64.b64encode(mdata).decode()},
                                  f"keyring {label}: {attr} ({len(value.encode())} octets) is accepted when signed with the '{conv}' length "
                                  f"convention, and the same signature still verifies after {how} ({region} octet 255): {o2}"[:500])
                else:
                    ctx.count("long_value_tampers_refused")
    if not ctx.counters.get("long_value_original_accepted"):
        ctx.count("long_value_rule_vacuous_nothing_accepted")


def run(ctx):
    ctx.rule = ("one case = one keyring file (generated from a per-index seeded random project, or an ETS export) loaded untouched, with "
                "wrong passwords and with every single mutation; distinct = (source, mutation kind, element, attribute, how, judged, outcome) "
                "and (project shape, serialisation style)")
    ctx.require("fold_merge_tampers_judged", "corner_sender_whitespace_variants", "long_value_originals_loaded_attempts", "corner_secrets_ending_in_their_pad_octet", "corner_keyrings", "corner_backbone_key_without_any_other_entry", "valid_files_loaded", "secrets_decrypted", "keys_decrypted", "sender_lists_compared", "wrong_password_rejected",
                "tamper_mutations", "tamper_element-name", "tamper_attr-name", "tamper_attr-value", "tamper_swap-siblings",
                "tamper_delete-element", "tamper_insert-element", "tamper_move-attr", "tamper_rejected_InvalidSecureConfiguration")
    files = ets_files()
    n_gen = ctx.scale(25, 150)
    env = Env(ctx)
    try:
        with memo_hash():
            if len(files) < 6:
                ctx.inconclusive(f"only {len(files)} ETS exports found under the xknx tests")
            if not self_test(ctx, files):
                return
            corners = W.corner_projects()
            cases = ([("corner", (i, *c)) for i, c in enumerate(corners)] + [("gen", i) for i in range(n_gen)]
                     + [("ets", f) for f in files])
            for n, (kind, what) in enumerate(cases):
                if not ctx.mine(n):
                    continue
                if kind == "corner":
                    corner_case(ctx, env, *what)
                elif kind == "gen":
                    gen_case(ctx, env, what)
                else:
                    ets_case(ctx, env, what[0], what[1])
            if ctx.shard == 0:
                long_value_rule(ctx, env)
                fold_rule(ctx, env)
    finally:
        env.close()
    ctx.assumptions.append("the signed content is what the ETS signature walk covers: element names, attributes other than xmlns/Signature "
                           "(sorted by name), element nesting and order; validated against 6 real ETS exports")


def replay(ctx, witness):
    env = Env(ctx)
    try:
        with memo_hash():
            if witness.get("source") == "generated":
                gen_case(ctx, env, int(witness["case"]))
            elif witness.get("source") == "long-value":
                long_value_rule(ctx, env)
            elif witness.get("source") == "fold":
                fold_rule(ctx, env)
            elif witness.get("source") == "corner":
                for i, (label, project, order) in enumerate(W.corner_projects()):
                    if label == witness.get("case"):
                        corner_case(ctx, env, i, label, project, order)
            else:
                name = witness.get("case") or witness.get("file")
                for fname, data in ets_files():
                    if fname == name:
                        ets_case(ctx, env, fname, data)
    finally:
        env.close()
