"""Independent writer / reader / canonicaliser for ETS keyring files (*.knxkeys).

Written from the format description (and checked against the plaintext layout
of the real ETS exports shipped with the xknx tests); it never imports or calls
xknx's keyring code.  Trusted base: hashlib (PBKDF2, SHA-256), the AES primitive
of `cryptography`, pyexpat.

Format
------
* password hash  = PBKDF2-HMAC-SHA256(utf8(password), salt "1.keyring.ets.knx.org",
                   65536 iterations, 16 octets)           -> AES-128 key
* IV             = SHA-256(utf8(Created attribute))[:16]
* keys (backbone Key, Group Key, Device ToolKey): base64(AES-128-CBC(16 raw octets))
* secrets (Interface Password / Authentication, Device ManagementPassword /
  Authentication): base64(AES-128-CBC(8 random octets + utf8(text) + n octets of
  value n)).  ETS 5 pads to 32 octets (n up to 24); a PKCS#7 pad to the next
  multiple of 16 is read back identically (last octet = pad length).
* Signature      = base64(SHA-256(stream)[:16]) where stream is a document-order
  walk: per element 0x01, LP(name), then for every attribute except "xmlns" and
  "Signature", sorted by name: LP(name) LP(value); children; 0x02 at the end of
  the element; after the document LP(base64(password hash)).  LP(s) = one length
  octet + utf8(s).
"""

from __future__ import annotations

import base64
from dataclasses import dataclass, field
import hashlib
import unicodedata
from xml.parsers import expat

from cryptography.hazmat.primitives.ciphers import Cipher, algorithms, modes

SALT = b"1.keyring.ets.knx.org"
ITERATIONS = 65536
XMLNS = "http://knx.org/xml/keyring/1"
UNSIGNED_ATTRS = ("xmlns", "Signature")

_HASH_CACHE: dict[str, bytes] = {}


# --------------------------------------------------------------------------
# crypto
# --------------------------------------------------------------------------
def password_hash(password: str) -> bytes:
    """PBKDF2 hash of the keyring password (one derivation per password)."""
    hit = _HASH_CACHE.get(password)
    if hit is None:
        hit = hashlib.pbkdf2_hmac("sha256", password.encode("utf-8"), SALT, ITERATIONS, 16)
        if len(_HASH_CACHE) > 4096:
            _HASH_CACHE.clear()
        _HASH_CACHE[password] = hit
    return hit


def created_iv(created: str) -> bytes:
    return hashlib.sha256(created.encode("utf-8")).digest()[:16]


def _cbc_encrypt(key: bytes, iv: bytes, data: bytes) -> bytes:
    assert len(data) % 16 == 0
    enc = Cipher(algorithms.AES(key), modes.CBC(iv)).encryptor()
    return enc.update(data) + enc.finalize()


def _cbc_decrypt(key: bytes, iv: bytes, data: bytes) -> bytes:
    dec = Cipher(algorithms.AES(key), modes.CBC(iv)).decryptor()
    return dec.update(data) + dec.finalize()


def encrypt_key(raw16: bytes, pwhash: bytes, iv: bytes) -> str:
    assert len(raw16) == 16
    return base64.b64encode(_cbc_encrypt(pwhash, iv, raw16)).decode("ascii")


def decrypt_key(b64: str, pwhash: bytes, iv: bytes) -> bytes:
    return _cbc_decrypt(pwhash, iv, base64.b64decode(b64))


def encrypt_secret(text: str, pwhash: bytes, iv: bytes, rnd8: bytes, block: int = 32) -> str:
    """block=32: ETS 5 layout; block=16: PKCS#7 pad."""
    assert len(rnd8) == 8
    body = rnd8 + text.encode("utf-8")
    pad = block - len(body) % block
    body += bytes([pad]) * pad
    return base64.b64encode(_cbc_encrypt(pwhash, iv, body)).decode("ascii")


def decrypt_secret(b64: str, pwhash: bytes, iv: bytes) -> str:
    data = _cbc_decrypt(pwhash, iv, base64.b64decode(b64))
    if not data:
        return ""
    pad = data[-1]
    return data[8 : len(data) - pad].decode("utf-8")


# --------------------------------------------------------------------------
# XML model
# --------------------------------------------------------------------------
class Node:
    """Element: name, ordered attributes, child elements (no text is kept)."""

    __slots__ = ("name", "attrs", "children", "raw")

    def __init__(self, name: str, attrs: list[list[str]] | None = None, children: list[Node] | None = None,
                 raw: dict[str, tuple[str, str]] | None = None) -> None:
        self.name = name
        # attribute name -> (value as a parser reports it, literal text to write between the quotes); the literal text is
        # used only while the attribute still has that value (so a mutated value is never masked by it)
        self.raw: dict[str, tuple[str, str]] = dict(raw or {})
        self.attrs: list[list[str]] = [list(a) for a in (attrs or [])]
        self.children: list[Node] = list(children or [])

    def get(self, key: str, default: str | None = None) -> str | None:
        for k, v in self.attrs:
            if k == key:
                return v
        return default

    def set(self, key: str, value: str) -> None:
        for a in self.attrs:
            if a[0] == key:
                a[1] = value
                return
        self.attrs.append([key, value])

    def copy(self) -> Node:
        return Node(self.name, [list(a) for a in self.attrs], [c.copy() for c in self.children], self.raw)

    def walk(self, path: tuple[int, ...] = ()):  # noqa: ANN201
        """Yield (path, node) in document order; path = child indices from the root."""
        yield path, self
        for i, child in enumerate(self.children):
            yield from child.walk((*path, i))

    def at(self, path: tuple[int, ...] | list[int]) -> Node:
        node = self
        for i in path:
            node = node.children[i]
        return node

    def find_all(self, name: str) -> list[Node]:
        return [c for c in self.children if c.name == name]


LENGTH_CONVENTIONS = ("mod256", "saturate", "truncate", "skip", "mod256-truncate")


def _lp(out: bytearray, text: str | bytes, conv: str = "mod256") -> bool:
    """Length-prefixed string. `conv` only matters for strings longer than 255 octets (what ETS does is unknown):
    mod256 = low octet of the length + all data; saturate = 255 + all data; truncate = 255 + first 255 octets;
    skip = the string is left out; mod256-truncate = low octet n + first n octets."""
    raw = text.encode("utf-8") if isinstance(text, str) else text
    if len(raw) <= 255 or conv == "mod256":
        out.append(len(raw) & 0xFF)
        out += raw
    elif conv == "saturate":
        out.append(255)
        out += raw
    elif conv == "truncate":
        out.append(255)
        out += raw[:255]
    elif conv == "mod256-truncate":
        out.append(len(raw) & 0xFF)
        out += raw[: len(raw) & 0xFF]
    elif conv != "skip":
        raise ValueError(conv)
    return len(raw) <= 255


def signed_stream(root: Node, conv: str = "mod256") -> tuple[bytes, bool]:
    """The signed content of a document (without the trailing password hash).

    Second value False if some string does not fit its length octet.
    """
    out = bytearray()
    ok = True

    def rec(node: Node) -> None:
        nonlocal ok
        out.append(1)
        ok &= _lp(out, node.name, conv)
        for key, value in sorted((a for a in node.attrs if a[0] not in UNSIGNED_ATTRS), key=lambda a: a[0]):
            ok &= _lp(out, key, conv)
            ok &= _lp(out, value, conv)
        for child in node.children:
            rec(child)
        out.append(2)

    rec(root)
    return bytes(out), ok


def canon(root: Node) -> tuple:
    """The signed content as a structure (independent of any length-octet convention): element name, signed attributes
    sorted by name, children in order."""
    return (root.name, tuple(sorted((k, v) for k, v in root.attrs if k not in UNSIGNED_ATTRS)), tuple(canon(c) for c in root.children))


def signature(root: Node, pwhash: bytes, conv: str = "mod256") -> bytes:
    stream, _ = signed_stream(root, conv)
    tail = bytearray()
    _lp(tail, base64.b64encode(pwhash))
    return hashlib.sha256(stream + bytes(tail)).digest()[:16]


def sign(root: Node, pwhash: bytes, conv: str = "mod256") -> None:
    root.set("Signature", base64.b64encode(signature(root, pwhash, conv)).decode("ascii"))


@dataclass
class Style:
    """Serialisation choices outside the signed content."""

    bom: bool = True
    newline: str = "\r\n"
    indent: str = "  "
    quote: str = '"'
    empty: str = " />"  # " />", "/>", "></>"
    declaration: bool = True
    charref_nonascii: bool = False

    def describe(self) -> str:
        return (f"bom={int(self.bom)} nl={self.newline!r} indent={self.indent!r} quote={self.quote} "
                f"empty={self.empty!r} decl={int(self.declaration)} charref={int(self.charref_nonascii)}")


def _escape(value: str, style: Style) -> str:
    out = []
    for ch in value:
        if ch == "&":
            out.append("&amp;")
        elif ch == "<":
            out.append("&lt;")
        elif ch == ">":
            out.append("&gt;")
        elif ch == '"' and style.quote == '"':
            out.append("&quot;")
        elif ch == "'" and style.quote == "'":
            out.append("&apos;")
        elif ch in "\t\n\r":
            out.append(f"&#x{ord(ch):X};")
        elif style.charref_nonascii and ord(ch) > 127:
            out.append(f"&#{ord(ch)};")
        else:
            out.append(ch)
    return "".join(out)


def serialize(root: Node, style: Style) -> bytes:
    lines: list[str] = []
    if style.declaration:
        lines.append('<?xml version="1.0" encoding="utf-8"?>')

    def rec(node: Node, depth: int) -> None:
        pad = style.indent * depth
        q = style.quote
        head = "<" + node.name + "".join(
            f" {k}={q}{node.raw[k][1] if k in node.raw and node.raw[k][0] == v else _escape(v, style)}{q}" for k, v in node.attrs)
        if not node.children:
            if style.empty == "></>":
                lines.append(f"{pad}{head}></{node.name}>")
            else:
                lines.append(f"{pad}{head}{style.empty}")
            return
        lines.append(f"{pad}{head}>")
        for child in node.children:
            rec(child, depth + 1)
        lines.append(f"{pad}</{node.name}>")

    rec(root, 0)
    text = style.newline.join(lines) + (style.newline if style.newline else "")
    data = text.encode("utf-8")
    return (b"\xef\xbb\xbf" + data) if style.bom else data


def parse_bytes(data: bytes) -> Node:
    """Parse a keyring document into the model with pyexpat (no namespace processing)."""
    parser = expat.ParserCreate()
    parser.ordered_attributes = True
    stack: list[Node] = []
    roots: list[Node] = []

    def start(name: str, attrs: list[str]) -> None:
        node = Node(name, [[attrs[i], attrs[i + 1]] for i in range(0, len(attrs), 2)])
        if stack:
            stack[-1].children.append(node)
        else:
            roots.append(node)
        stack.append(node)

    def end(_name: str) -> None:
        stack.pop()

    parser.StartElementHandler = start
    parser.EndElementHandler = end
    parser.Parse(data, True)
    return roots[0]


# --------------------------------------------------------------------------
# plaintext project model
# --------------------------------------------------------------------------
# whitespace inside a whitespace-separated attribute value (Senders). Token -> (what the parser reports, text in the file).
# XML attribute-value normalisation: a literal TAB / LF / CR (CR LF counts once) is reported as ONE space; a character
# reference (&#9; &#10; &#13;) is reported as that character.
WS_TOKENS = {
    " ": (" ", " "), "ref-tab": ("\t", "&#9;"), "ref-lf": ("\n", "&#10;"), "ref-cr": ("\r", "&#xD;"),
    "raw-tab": (" ", "\t"), "raw-lf": (" ", "\n"), "raw-cr": (" ", "\r"), "raw-crlf": (" ", "\r\n"),
}


def ws(tokens: tuple[str, ...] | list[str]) -> tuple[str, str]:
    return "".join(WS_TOKENS[t][0] for t in tokens), "".join(WS_TOKENS[t][1] for t in tokens)


def xml_attr_reported(literal: str) -> str:
    """What an XML parser reports for attribute text made of plain characters, literal TAB/LF/CR and the three
    character references of WS_TOKENS: line ends are normalised first (CR LF and a lone CR become LF - also when the CR
    and the LF come from two adjacent tokens), then every literal TAB/LF becomes a space, then references are replaced."""
    text = literal.replace("\r\n", "\n").replace("\r", "\n").replace("\n", " ").replace("\t", " ")
    return text.replace("&#9;", "\t").replace("&#10;", "\n").replace("&#xD;", "\r")


def ia_str(raw: int) -> str:
    return f"{raw >> 12}.{(raw >> 8) & 0xF}.{raw & 0xFF}"


@dataclass
class PInterface:
    ia: int
    type: str  # Tunneling / Backbone / USB
    host: int | None = None
    user_id: int | None = None
    password: str | None = None
    authentication: str | None = None
    groups: list[tuple[int, list[int] | None]] = field(default_factory=list)  # (ga raw, [sender ia raw] | None = no Senders attribute)
    # ga raw -> (leading, separator, trailing) whitespace token tuples for the Senders value; default: single spaces
    sender_format: dict[int, tuple[tuple[str, ...], tuple[str, ...], tuple[str, ...]]] = field(default_factory=dict, compare=False)


@dataclass
class PDevice:
    ia: int
    tool_key: bytes | None = None
    management_password: str | None = None
    authentication: str | None = None
    sequence_number: int | None = None
    serial_number: str | None = None  # not read by xknx; ETS 6 writes it


@dataclass
class PBackbone:
    multicast_address: str | None
    latency: int | None
    key: bytes | None


@dataclass
class Project:
    name: str
    created_by: str
    created: str
    password: str
    backbone: PBackbone | None = None
    interfaces: list[PInterface] = field(default_factory=list)
    group_keys: list[tuple[int, bytes | None]] | None = None  # None: no <GroupAddresses>
    devices: list[PDevice] | None = None  # None: no <Devices>
    secret_block: int | None = None  # force the padding layout of every secret (16 / 32); None: random per secret

    def shape(self) -> tuple:
        return (len(self.interfaces), len(self.group_keys or ()), len(self.devices or ()),
                self.backbone is not None, sum(len(i.groups) for i in self.interfaces))


def build_tree(project: Project, rng, shuffle_attrs: bool = False, order: str = "BIGD") -> Node:  # noqa: ANN001
    """Encrypt and lay out a project as an (unsigned -> signed) element tree.

    order: top-level layout, B = Backbone, I = the Interface elements, G = GroupAddresses, D = Devices
    (ETS writes BIGD; the signature and the format do not depend on it).
    """
    pwhash = password_hash(project.password)
    iv = created_iv(project.created)

    def secret(text: str) -> str:
        block = project.secret_block or (32 if rng.random() < 0.7 else 16)
        return encrypt_secret(text, pwhash, iv, rng.randbytes(8), block=block)

    root = Node("Keyring", [["Project", project.name], ["CreatedBy", project.created_by],
                            ["Created", project.created], ["Signature", ""], ["xmlns", XMLNS]])
    sections: dict[str, list[Node]] = {"B": [], "I": [], "G": [], "D": []}
    if (bb := project.backbone) is not None:
        node = Node("Backbone")
        if bb.multicast_address is not None:
            node.set("MulticastAddress", bb.multicast_address)
        if bb.latency is not None:
            node.set("Latency", str(bb.latency))
        if bb.key is not None:
            node.set("Key", encrypt_key(bb.key, pwhash, iv))
        sections["B"].append(node)
    for itf in project.interfaces:
        node = Node("Interface", [["IndividualAddress", ia_str(itf.ia)], ["Type", itf.type]])
        if itf.host is not None:
            node.set("Host", ia_str(itf.host))
        if itf.user_id is not None:
            node.set("UserID", str(itf.user_id))
        if itf.password is not None:
            node.set("Password", secret(itf.password))
        if itf.authentication is not None:
            node.set("Authentication", secret(itf.authentication))
        for ga, senders in itf.groups:
            gnode = Node("Group", [["Address", str(ga)]])
            if senders is not None:  # None: no Senders attribute at all
                if ga in itf.sender_format:
                    (lead_m, lead_r), (sep_m, sep_r), (trail_m, trail_r) = (ws(t) for t in itf.sender_format[ga])
                    strs = [ia_str(s) for s in senders]
                    literal = lead_r + sep_r.join(strs) + trail_r
                    # derived from the assembled text, not token by token: a raw CR token followed by a raw LF token
                    # is ONE line end for the parser (false alarm at thorough seed 5 otherwise)
                    model = xml_attr_reported(literal)
                    gnode.set("Senders", model)
                    gnode.raw["Senders"] = (model, literal)
                else:
                    gnode.set("Senders", " ".join(ia_str(s) for s in senders))
            node.children.append(gnode)
        sections["I"].append(node)
    if project.group_keys is not None:
        node = Node("GroupAddresses")
        for ga, key in project.group_keys:
            gnode = Node("Group", [["Address", str(ga)]])
            if key is not None:
                gnode.set("Key", encrypt_key(key, pwhash, iv))
            node.children.append(gnode)
        sections["G"].append(node)
    if project.devices is not None:
        node = Node("Devices")
        for dev in project.devices:
            dnode = Node("Device", [["IndividualAddress", ia_str(dev.ia)]])
            if dev.serial_number is not None:
                dnode.set("SerialNumber", dev.serial_number)
            if dev.tool_key is not None:
                dnode.set("ToolKey", encrypt_key(dev.tool_key, pwhash, iv))
            if dev.management_password is not None:
                dnode.set("ManagementPassword", secret(dev.management_password))
            if dev.authentication is not None:
                dnode.set("Authentication", secret(dev.authentication))
            if dev.sequence_number is not None:
                dnode.set("SequenceNumber", str(dev.sequence_number))
            node.children.append(dnode)
        sections["D"].append(node)
    for letter in order:
        root.children += sections[letter]
    if shuffle_attrs:
        for _, n in root.walk():
            rng.shuffle(n.attrs)
    sign(root, pwhash)
    return root


def read_tree(root: Node, password: str) -> Project:
    """Independent reader: decrypt a parsed keyring back into the plaintext model."""
    pwhash = password_hash(password)
    created = root.get("Created") or ""
    iv = created_iv(created)

    def sec(value: str | None) -> str | None:
        return None if value is None else decrypt_secret(value, pwhash, iv)

    def key(value: str | None) -> bytes | None:
        return None if not value else decrypt_key(value, pwhash, iv)

    def ia(value: str | None) -> int | None:
        if not value:
            return None
        a, b, c = (int(x) for x in value.split("."))
        return (a << 12) | (b << 8) | c

    project = Project(root.get("Project") or "", root.get("CreatedBy") or "", created, password)
    for node in root.children:
        if node.name == "Backbone":
            lat = node.get("Latency")
            project.backbone = PBackbone(node.get("MulticastAddress"), int(lat) if lat else None, key(node.get("Key")))
        elif node.name == "Interface":
            uid = node.get("UserID")
            itf = PInterface(ia(node.get("IndividualAddress")) or 0, node.get("Type") or "", ia(node.get("Host")),
                             int(uid) if uid else None, sec(node.get("Password")), sec(node.get("Authentication")))
            for g in node.find_all("Group"):
                itf.groups.append((int(g.get("Address") or 0), [ia(s) or 0 for s in __import__("re").split("[ \\t\\n\\r]+", g.get("Senders") or "") if s]))
            project.interfaces.append(itf)
        elif node.name == "GroupAddresses":
            project.group_keys = project.group_keys or []
            for g in node.find_all("Group"):
                project.group_keys.append((int(g.get("Address") or 0), key(g.get("Key"))))
        elif node.name == "Devices":
            project.devices = project.devices or []
            for d in node.find_all("Device"):
                seq = d.get("SequenceNumber")
                project.devices.append(PDevice(ia(d.get("IndividualAddress")) or 0, key(d.get("ToolKey")),
                                               sec(d.get("ManagementPassword")), sec(d.get("Authentication")),
                                               int(seq) if seq else None, d.get("SerialNumber")))
    return project


# --------------------------------------------------------------------------
# generation
# --------------------------------------------------------------------------
_PW_ALPHABETS = (
    "abcdefghijklmnopqrstuvwxyzABCDEFGHIJKLMNOPQRSTUVWXYZ0123456789",
    "!\"#$%&'()*+,-./:;<=>?@[\\]^_`{|}~ ",
    "äöüÄÖÜßéèêáàñçøåÆŁžсдфЖяλΩ",
    "日本語한글中文𝔘😀🔑",
)


def random_text(rng, lo: int, hi: int, exotic: float = 0.3) -> str:  # noqa: ANN001
    n = rng.randint(lo, hi)
    out = []
    for _ in range(n):
        r = rng.random()
        alpha = _PW_ALPHABETS[0] if r > exotic else rng.choice(_PW_ALPHABETS[1:])
        out.append(rng.choice(alpha))
    if n and rng.random() < 0.08:  # leading / trailing blank is part of the secret
        out[rng.choice((0, -1))] = " "
    return "".join(out)


def random_project(rng, size: int = 6) -> Project:  # noqa: ANN001
    """Random ETS-like project. All individual addresses distinct, GA 1..65535."""
    password = random_text(rng, 1, 24, exotic=rng.choice((0.0, 0.3, 0.8)))
    if rng.random() < 0.2:  # decomposed form, so that an NFC variant is a *different* password
        password = unicodedata.normalize("NFD", password + "é")
    name = random_text(rng, 0, 40, exotic=0.4)
    if rng.random() < 0.15:
        name += rng.choice(["\t", "\n", "  ", "&amp;", "<>", "\"'", "]]>"])
    while len(name.encode("utf-8")) > 255:
        name = name[:-1]
    created = (f"{rng.randint(2018, 2031):04}-{rng.randint(1, 12):02}-{rng.randint(1, 28):02}T"
               f"{rng.randint(0, 23):02}:{rng.randint(0, 59):02}:{rng.randint(0, 59):02}")
    if rng.random() < 0.2:
        created += f".{rng.randint(0, 9999999):07}"
    created_by = rng.choice(["ETS 5.7.7 (Build 1428)", "ETS 5.7.2 (Build 743)", "ETS 6.2.2 (Build 7430)", "ETS 6.0.5", ""])
    project = Project(name, created_by, created, password)

    pool = rng.sample(range(0x1001, 0xFF00), 64)  # distinct individual addresses
    nxt = iter(pool)
    if rng.random() < 0.6:
        project.backbone = PBackbone(
            rng.choice(["224.0.23.12", "224.0.23.13", f"239.{rng.randint(0, 255)}.{rng.randint(0, 255)}.{rng.randint(1, 254)}"]),
            rng.choice([1000, 2000, rng.randint(0, 8000), None]) if rng.random() < 0.9 else None,
            rng.randbytes(16) if rng.random() < 0.9 else None,
        )
    n_groups = rng.choice((0, 1, 2, rng.randint(1, size + 4), rng.randint(1, size + 4)))
    gas = sorted(rng.sample(range(1, 65536), n_groups)) if n_groups else []
    if n_groups and rng.random() < 0.3:
        gas[-1] = 65535
        gas = sorted(set(gas))
    n_dev = rng.choice((0, 1, rng.randint(1, size), rng.randint(1, size)))
    dev_ias = [next(nxt) for _ in range(n_dev)]
    hosts = dev_ias or [next(nxt)]
    n_if = rng.choice((0, 1, rng.randint(1, size + 2), rng.randint(2, size + 2)))
    uid_by_host: dict[int, int] = {}
    sender_pool = [next(nxt) for _ in range(6)] + dev_ias
    for _ in range(n_if):
        kind = rng.choice(("Tunneling",) * 6 + ("USB", "Backbone"))
        itf = PInterface(next(nxt), kind)
        if kind != "USB":
            itf.host = rng.choice(hosts)
        if kind == "Tunneling" and rng.random() < 0.75:  # secure tunnel
            uid_by_host[itf.host] = uid_by_host.get(itf.host, rng.choice((1, 2))) + 1
            itf.user_id = uid_by_host[itf.host]
            itf.password = random_text(rng, 0, 20) if rng.random() < 0.9 else random_text(rng, 21, 60)
            itf.authentication = random_text(rng, 1, 20)
        elif kind == "Tunneling" and rng.random() < 0.3:
            itf.authentication = random_text(rng, 1, 20)
        if gas and rng.random() < 0.6:
            for ga in sorted(rng.sample(gas, rng.randint(1, min(len(gas), 4))), reverse=rng.random() < 0.5):
                senders = rng.sample(sender_pool, rng.randint(0, min(4, len(sender_pool))))
                itf.groups.append((ga, senders))
                if rng.random() < 0.15:
                    toks = list(WS_TOKENS)
                    itf.sender_format[ga] = (tuple(rng.choices(toks, k=rng.choice((0, 0, 1)))), tuple(rng.choices(toks, k=rng.choice((1, 1, 2)))),
                                             tuple(rng.choices(toks, k=rng.choice((0, 0, 1)))))
        project.interfaces.append(itf)
    if gas or rng.random() < 0.3:
        project.group_keys = [(ga, rng.randbytes(16)) for ga in gas]
    if dev_ias or rng.random() < 0.2:
        project.devices = []
        for dia in dev_ias:
            dev = PDevice(dia)
            if rng.random() < 0.9:
                dev.tool_key = rng.randbytes(16)
            if rng.random() < 0.7:
                dev.management_password = random_text(rng, 1, 20)
                dev.authentication = random_text(rng, 1, 20)
            if rng.random() < 0.7:
                dev.sequence_number = rng.choice((0, 1, rng.randint(0, 2**48 - 1)))
            if rng.random() < 0.2:
                dev.serial_number = rng.randbytes(6).hex().upper()
            project.devices.append(dev)
    return project


def random_style(rng) -> Style:  # noqa: ANN001
    return Style(
        bom=rng.random() < 0.6,
        newline=rng.choice(("\r\n", "\r\n", "\n", "")),
        indent=rng.choice(("  ", "  ", "", "\t", "    ")),
        quote=rng.choice(('"', '"', "'")),
        empty=rng.choice((" />", " />", "/>", "></>")),
        declaration=rng.random() < 0.85,
        charref_nonascii=rng.random() < 0.15,
    )


# --------------------------------------------------------------------------
# deterministic structural corner cases (independent of every seed)
# --------------------------------------------------------------------------
CORNER_PASSWORD = "corner pässword"


def corner_projects() -> list[tuple[str, Project, str]]:
    """(label, project, top-level order). Same list on every run and tier."""
    rng = __import__("random").Random("C31/corner-keyrings")
    out: list[tuple[str, Project, str]] = []

    def key() -> bytes:
        return rng.randbytes(16)

    def base() -> Project:
        return Project("Corner", "ETS 5.7.7 (Build 1428)", "2024-02-29T12:00:00", CORNER_PASSWORD)

    def bb() -> PBackbone:
        return PBackbone("224.0.23.12", 1000, key())

    def itf(n: int, **kw) -> PInterface:  # noqa: ANN003
        d = {"host": 0x1100, "user_id": 2 + n, "password": f"tunnel pw {n}", "authentication": f"auth {n}",
             "groups": [(1 + n, [0x1105, 0x1106])]}
        d.update(kw)
        return PInterface(0x1101 + n, d.pop("type", "Tunneling"), **d)

    def dev(n: int, **kw) -> PDevice:  # noqa: ANN003
        d = {"tool_key": key(), "management_password": f"mgmt {n}", "authentication": f"dev auth {n}", "sequence_number": 1000 + n}
        d.update(kw)
        return PDevice(0x1100 + 0x100 * n, **d)

    # every subset of {backbone, interfaces, groups, devices}, with 1 and 2 elements, and with empty containers
    for mask in range(16):
        for count in (1, 2):
            p = base()
            if mask & 1:
                p.backbone = bb()
            if mask & 2:
                p.interfaces = [itf(n) for n in range(count)]
            if mask & 4:
                p.group_keys = [(1 + n, key()) for n in range(count)]
            if mask & 8:
                p.devices = [dev(n) for n in range(count)]
            if count == 1 or mask & 14:
                out.append((f"subset-{mask:04b}-x{count}", p, "BIGD"))
        if mask & 12:  # <GroupAddresses/> and <Devices/> present but empty
            p = base()
            p.backbone = bb() if mask & 1 else None
            p.interfaces = [itf(0, groups=[])] if mask & 2 else []
            p.group_keys = [] if mask & 4 else None
            p.devices = [] if mask & 8 else None
            out.append((f"subset-{mask:04b}-empty-containers", p, "BIGD"))
    # every order of the four top-level sections
    from itertools import permutations
    for perm in permutations("BIGD"):
        order = "".join(perm)
        if order != "BIGD":
            p = base()
            p.backbone, p.interfaces, p.group_keys, p.devices = bb(), [itf(0), itf(1, groups=[])], [(1, key()), (2, key())], [dev(0), dev(1)]
            out.append((f"order-{order}", p, order))
    # backbone: every subset of its three attributes
    for mask in range(8):
        for with_rest in (False, True):
            p = base()
            p.backbone = PBackbone("224.0.23.12" if mask & 1 else None, (0 if mask == 2 else 2000) if mask & 2 else None, key() if mask & 4 else None)
            if with_rest:
                p.interfaces, p.group_keys, p.devices = [itf(0)], [(1, key())], [dev(0)]
            out.append((f"backbone-attrs-{mask:03b}-{'full' if with_rest else 'alone'}", p, "BIGD"))
    # interfaces: every subset of {password, authentication, user id, group list} alone, after and before a complete one
    for mask in range(16):
        kw = {"password": "pw ä" if mask & 1 else None, "authentication": "au ö" if mask & 2 else None,
              "user_id": 9 if mask & 4 else None, "groups": [(7, [0x1105]), (8, [])] if mask & 8 else []}
        for where in ("alone", "after-full", "before-full"):
            p = base()
            partial = itf(3, **kw)
            p.interfaces = {"alone": [partial], "after-full": [itf(0), partial], "before-full": [partial, itf(0)]}[where]
            p.group_keys = [(1, key()), (7, key()), (8, key())]
            out.append((f"interface-attrs-{mask:04b}-{where}", p, "BIGD"))
    for typ in ("USB", "Backbone", "Tunneling"):
        p = base()
        p.interfaces = [itf(0, type=typ, host=None, user_id=None, password=None, authentication=None, groups=[(5, [0x1105])])]
        p.group_keys = [(5, key())]
        out.append((f"interface-{typ}-without-host", p, "BIGD"))
    # groups of an interface: no senders, no Senders attribute, 1, 2 senders; group key entries without Key
    p = base()
    p.interfaces = [itf(0, groups=[(1, []), (2, None), (3, [0x1105]), (4, [0x1105, 0x1106])]), itf(1, groups=[(2, None)]), itf(2, groups=[(1, [])])]
    p.group_keys = [(1, key()), (2, key()), (3, None), (4, key()), (5, None)]
    out.append(("groups-senders-and-keys-optional", p, "BIGD"))
    p = base()
    p.group_keys = [(9, None)]
    out.append(("groups-single-without-key", p, "BIGD"))
    # devices: every subset of the optional attributes, alone, after and before a complete one
    for mask in range(16):
        kw = {"tool_key": key() if mask & 1 else None, "management_password": "mg ü" if mask & 2 else None,
              "authentication": "da ß" if mask & 4 else None, "sequence_number": (0 if mask == 8 else 2**47 + 5) if mask & 8 else None}
        for where in ("alone", "after-full", "before-full"):
            p = base()
            partial = dev(3, **kw)
            p.devices = {"alone": [partial], "after-full": [dev(0), partial], "before-full": [partial, dev(0)]}[where]
            if mask & 1 == 0 and where == "alone":
                p.interfaces = [itf(0, host=partial.ia)]
            out.append((f"device-attrs-{mask:04b}-{where}", p, "BIGD"))
    # secrets whose last 1..3 characters equal the padding octet of their own encrypted form, every length 0..40,
    # both padding layouts (a reader that strips the pad value instead of cutting data[-1] octets eats them)
    for block in (16, 32):
        for length in range(41):
            pad = block - (8 + length) % block

            def sec(k: int, fill: str) -> str:
                k = min(k, length)  # noqa: B023
                return (fill * 41)[: length - k] + chr(pad) * k  # noqa: B023

            p = base()
            p.secret_block = block
            p.interfaces = [itf(0, password=sec(1, "a"), authentication=sec(2, "b"), groups=[]),
                            itf(1, password=sec(3, "c"), authentication=sec(1, "d"), groups=[])]
            p.devices = [dev(0, management_password=sec(2, "e"), authentication=sec(3, "f")),
                         dev(1, management_password=sec(1, "g"), authentication=sec(length, "h"))]
            out.append((f"pad-octet-tail-block{block}-len{length:02}", p, "BIGD"))
    # whitespace between / around the senders of a group
    seps = [(" ",), (" ", " "), (" ", " ", " "), ("ref-tab",), ("ref-lf",), ("ref-cr",), ("ref-cr", "ref-lf"), ("raw-tab",), ("raw-lf",),
            ("raw-cr",), ("raw-crlf",), (" ", "ref-tab", " "), ("ref-tab", "ref-tab"), ("raw-lf", " ", " "), ("ref-lf", "raw-tab")]
    edges = [((), ()), ((" ",), ()), ((), (" ",)), ((" ",), (" ",)), (("ref-tab",), ()), ((), ("ref-lf",)), (("raw-lf", " "), ("raw-crlf",)),
             (("ref-cr",), ("ref-tab", " "))]
    n = 0
    for sep in seps:
        for lead, trail in (edges if sep in ((" ",), ("ref-tab",), ("raw-lf",)) else edges[:1] + [edges[(n := n + 1) % len(edges)]]):
            p = base()
            p.interfaces = [itf(0, groups=[(1, [0x1105, 0x1106, 0x1107]), (2, [0x1105, 0x1106]), (3, [0x1105])]),
                            itf(1, groups=[(2, [0x1106, 0x1105])])]
            for i in p.interfaces:
                i.sender_format = {ga: (lead, sep, trail) for ga, _ in i.groups}
            p.interfaces[1].sender_format = {2: ((), sep, ())}
            p.group_keys = [(1, key()), (2, key()), (3, key())]
            out.append((f"senders-ws-sep[{'+'.join(sep)}]-lead[{'+'.join(lead)}]-trail[{'+'.join(trail)}]".replace(" ", "sp"), p, "BIGD"))
    for only in ((" ",), (" ", " "), ("ref-tab",), ("raw-lf",), ("ref-cr", "ref-lf", " ")):  # nothing but whitespace: no senders
        p = base()
        p.interfaces = [itf(0, groups=[(1, []), (2, [0x1105])])]
        p.interfaces[0].sender_format = {1: (only, (" ",), ())}
        p.group_keys = [(1, key()), (2, key())]
        out.append((f"senders-ws-only[{'+'.join(only)}]".replace(" ", "sp"), p, "BIGD"))
    # senders that are also devices / devices only / interface senders only (sequence table sources)
    p = base()
    p.interfaces = [itf(0, groups=[(1, [0x1100, 0x1105])])]
    p.group_keys = [(1, key())]
    p.devices = [dev(0)]
    out.append(("sender-is-also-device", p, "BIGD"))
    return out


def long_value_projects() -> list[tuple[str, Project, tuple[str, int | None, str]]]:
    """Keyrings with one signed attribute value longer than 255 UTF-8 octets.

    -> (label, project, (element, index among same-named top-level/child elements, attribute)) naming the long value.
    """
    rng = __import__("random").Random("C31/long-values")
    out = []

    def base() -> Project:
        p = Project("Long", "ETS 6.2.2 (Build 7430)", "2025-01-01T00:00:00", CORNER_PASSWORD)
        p.backbone = PBackbone("224.0.23.12", 1000, rng.randbytes(16))
        p.group_keys = [(1, rng.randbytes(16))]
        return p

    p = base()  # 48 Data Secure senders: 48 * "15.15.2xx " > 255 octets
    p.interfaces = [PInterface(0x1101, "Tunneling", 0x1100, 2, "pw", "auth", [(1, [0xFF00 + n for n in range(200, 248)])])]
    out.append(("senders-48", p, ("Group", 0, "Senders")))
    p = base()  # long project name with multi-octet characters
    p.name = "Gebäude " * 34
    p.interfaces = [PInterface(0x1101, "USB", None, None, None, None, [(1, [0x1105])])]
    out.append(("project-name-300-octets", p, ("Keyring", None, "Project")))
    p = base()  # 200-character tunnel password: its base64 form is > 255 characters
    p.secret_block = 16
    p.interfaces = [PInterface(0x1101, "Tunneling", 0x1100, 2, "p" * 199 + "!", "auth", [])]
    out.append(("tunnel-password-200-chars", p, ("Interface", 0, "Password")))
    return out
