"""Generators for KNXnet/IP bodies and frames (C20, C21, C22; importable by others).

Stable API
    body_classes()            -> list of concrete body classes exported by xknx.knxip
    gen_body(cls, rng)        -> a valid instance of `cls`, fields over enums / wire ranges
    gen_frame_bytes(rng)      -> wire bytes of one valid frame (random body class)
    malformed_frames(rng, n)  -> list of (label, bytes): structure-aware hostile frames

Extras used by the checks
    gen_case(cls, rng)        -> (body, info)  info: {"variant": str, "judge_equal": bool}
    frame_bytes(body)         -> KNXIPFrame.init_from_body(body).to_knx()
    service_label(data)       -> service type name (or unknown-service / no-header) of raw bytes
    Budget / budgeted()       -> run a call under a LINE-event budget, tracemalloc peak and a
                                 wall-clock backstop

"Valid" = what the KNXnet/IP specification allows on the wire *and* what the
body object can represent canonically: structures that are padded to an even
length on the wire (DIB data, tunnelling feature values) are generated with
their wire (even) length; `odd_length_variants()` yields the unpadded ones so
that a check can record, not judge, them.
"""

from __future__ import annotations

import contextlib
import enum
import inspect
import logging
import signal
import sys
import tracemalloc
from types import CodeType
from typing import Any

from xknx import knxip as _k
from xknx.knxip import (
    HPAI,
    SRP,
    ConnectRequest,
    ConnectRequestInformation,
    ConnectRequestType,
    ConnectResponse,
    ConnectResponseData,
    ConnectionStateRequest,
    ConnectionStateResponse,
    DescriptionRequest,
    DescriptionResponse,
    DeviceConfigurationAck,
    DeviceConfigurationRequest,
    DIBDeviceInformation,
    DIBGeneric,
    DIBSecuredServiceFamilies,
    DIBServiceFamily,
    DIBSuppSVCFamilies,
    DIBTunnelingInfo,
    DIBTypeCode,
    DisconnectRequest,
    DisconnectResponse,
    ErrorCode,
    HostProtocol,
    KNXIPBody,
    KNXIPFrame,
    KNXIPServiceType,
    KNXMedium,
    RoutingBusy,
    RoutingIndication,
    RoutingLostMessage,
    SearchRequest,
    SearchRequestExtended,
    SearchRequestParameterType,
    SearchResponse,
    SearchResponseExtended,
    SecureWrapper,
    SessionAuthenticate,
    SessionRequest,
    SessionResponse,
    SessionStatus,
    TimerNotify,
    TunnellingAck,
    TunnellingFeatureGet,
    TunnellingFeatureInfo,
    TunnellingFeatureResponse,
    TunnellingFeatureSet,
    TunnellingFeatureType,
    TunnellingLayer,
    TunnellingRequest,
)
from xknx.knxip.dib import TunnelingSlotStatus
from xknx.knxip.knxip_enum import SecureSessionStatusCode
from xknx.telegram import IndividualAddress
from xknx.telegram.apci import ReturnCode

# --------------------------------------------------------------------------
# discovery


def body_classes() -> list[type]:
    """Concrete KNXIPBody subclasses exported by xknx.knxip, sorted by name."""
    out = []
    for name in sorted(_k.__all__):
        obj = getattr(_k, name)
        if inspect.isclass(obj) and issubclass(obj, KNXIPBody) and not inspect.isabstract(obj):
            out.append(obj)
    return out


# --------------------------------------------------------------------------
# primitive field generators


def _u8(rng: Any) -> int:
    return rng.choice((0, 1, 2, 0x7F, 0x80, 0xFE, 0xFF, rng.randrange(256), rng.randrange(256)))


def _u16(rng: Any) -> int:
    return rng.choice((0, 1, 0xFF, 0x100, 0x7FFF, 0x8000, 0xFFFE, 0xFFFF, rng.randrange(65536), rng.randrange(65536)))


def _blob(rng: Any, n: int) -> bytes:
    r = rng.random()
    if r < 0.08:
        return bytes(n)
    if r < 0.16:
        return b"\xff" * n
    return rng.randbytes(n)


def _ip(rng: Any) -> str:
    if rng.random() < 0.15:
        return rng.choice(("0.0.0.0", "255.255.255.255", "224.0.23.12", "127.0.0.1"))
    return ".".join(str(rng.randrange(256)) for _ in range(4))


def gen_hpai(rng: Any) -> HPAI:
    return HPAI(ip_addr=_ip(rng), port=_u16(rng), protocol=rng.choice(list(HostProtocol)))


def _ia(rng: Any, nonzero: bool = False) -> IndividualAddress:
    raw = _u16(rng)
    if nonzero and raw == 0:
        raw = rng.randrange(1, 65536)
    return IndividualAddress(raw)


def _hexcolon(rng: Any, n: int) -> str:
    return _blob(rng, n).hex(":")


def _name(rng: Any) -> str:
    """Device friendly name: up to 30 ISO 8859-1 characters. A trailing NUL is indistinguishable from the padding of the
    field (both xknx codec directions drop it), so judged names never END in NUL; NULs and other control characters
    elsewhere in the field are octets the encoder puts on the wire unchanged and are generated."""
    n = rng.choice((0, 1, 5, 29, 30, rng.randrange(31)))
    chars = [chr(rng.choice((rng.randrange(0x20, 0x7F), rng.randrange(0xA0, 0x100), rng.randrange(1, 0x100)))) for _ in range(n)]
    r = rng.random()
    if n and r < 0.12:
        chars[rng.randrange(n)] = "\0"  # embedded NUL
    elif n and r < 0.18:
        chars[0] = "\0"  # leading NUL
    elif n and r < 0.24:
        for _ in range(rng.randrange(1, 4)):
            chars[rng.randrange(n)] = chr(rng.choice((0, 1, 7, 9, 10, 13, 0x1B, 0x7F, 0x80, 0x9F)))  # control characters
    elif r < 0.28:
        chars = ["\xff"] * n
    elif n >= 3 and r < 0.32:
        chars[1] = "\0"
        chars[2] = "\0"  # NUL run in the middle
    name = "".join(chars)
    while name.endswith("\0"):
        name = name[:-1] + chr(rng.randrange(1, 0x100))
    return name


def _status(rng: Any) -> ErrorCode:
    return rng.choice(list(ErrorCode))


def _cemi(rng: Any) -> bytes:
    r = rng.random()
    if r < 0.1:
        return b""
    if r < 0.8:
        return _blob(rng, rng.randrange(1, 40))
    if r < 0.97:
        return _blob(rng, rng.randrange(40, 270))
    return _blob(rng, rng.choice((1000, 4000, 65535 - 6 - 4)))


# --------------------------------------------------------------------------
# DIB / SRP / CRI / CRD

_GENERIC_DTCS = [
    d
    for d in DIBTypeCode
    if d
    not in (
        DIBTypeCode.DEVICE_INFO,
        DIBTypeCode.SUPP_SVC_FAMILIES,
        DIBTypeCode.SECURED_SERVICE_FAMILIES,
        DIBTypeCode.TUNNELING_INFO,
    )
]


def gen_dib(rng: Any, kind: str | None = None) -> Any:
    kind = kind or rng.choice(("device", "supp", "secured", "tunnel", "generic"))
    if kind == "device":
        dib = DIBDeviceInformation()
        dib.knx_medium = rng.choice(list(KNXMedium))
        dib.programming_mode = rng.random() < 0.5
        dib.individual_address = _ia(rng)
        dib.installation_number = rng.choice((0, 1, 7, 8, 15, rng.randrange(16)))
        dib.project_number = rng.choice((0, 1, 0x7FF, 0x800, 0xFFF, rng.randrange(4096)))
        dib.serial_number = _hexcolon(rng, 6)
        dib.multicast_address = _ip(rng)
        dib.mac_address = _hexcolon(rng, 6)
        dib.name = _name(rng)
        return dib
    if kind in ("supp", "secured"):
        dib = DIBSuppSVCFamilies() if kind == "supp" else DIBSecuredServiceFamilies()
        n = rng.choice((0, 1, 2, 3, 8, rng.randrange(0, 20), 126))
        for _ in range(n):
            dib.families.append(DIBSuppSVCFamilies.Family(rng.choice(list(DIBServiceFamily)), _u8(rng)))
        return dib
    if kind == "tunnel":
        n = rng.choice((0, 1, 2, 5, rng.randrange(0, 16), 62))
        slots: dict[IndividualAddress, TunnelingSlotStatus] = {}
        while len(slots) < n:
            slots[_ia(rng) if len(slots) < 3 else IndividualAddress(rng.randrange(65536))] = TunnelingSlotStatus(
                usable=rng.random() < 0.5, authorized=rng.random() < 0.5, free=rng.random() < 0.5
            )
        dib = DIBTunnelingInfo(slots)
        dib.max_apdu_length = _u16(rng)
        return dib
    dib = DIBGeneric()
    dib.dtc = rng.choice(_GENERIC_DTCS)
    dib.data = _blob(rng, 2 * rng.choice((0, 1, 2, 4, rng.randrange(0, 30), 126)))
    return dib


def _dibs(rng: Any) -> list[Any]:
    r = rng.random()
    if r < 0.08:
        return []
    if r < 0.5:
        return [gen_dib(rng, "device"), gen_dib(rng, "supp")] + [gen_dib(rng) for _ in range(rng.randrange(0, 3))]
    return [gen_dib(rng) for _ in range(rng.randrange(1, 6))]


def gen_srp(rng: Any) -> SRP:
    kind = rng.choice(("prog", "mac", "service", "dibs"))
    mandatory = rng.random() < 0.5
    if kind == "prog":
        return SRP(SearchRequestParameterType.SELECT_BY_PROGRAMMING_MODE, mandatory)
    if kind == "mac":
        return SRP(SearchRequestParameterType.SELECT_BY_MAC_ADDRESS, mandatory, _blob(rng, 6))
    if kind == "service":
        return SRP(
            SearchRequestParameterType.SELECT_BY_SERVICE,
            mandatory,
            bytes((rng.choice(list(DIBServiceFamily)).value, _u8(rng))),
        )
    n = rng.choice((1, 2, 3, 4, 8, rng.randrange(1, 20)))
    return SRP(
        SearchRequestParameterType.REQUEST_DIBS,
        mandatory,
        bytes(rng.choice(list(DIBTypeCode)).value for _ in range(n)),
    )


def gen_cri(rng: Any) -> ConnectRequestInformation:
    ctype = rng.choice(list(ConnectRequestType) + [ConnectRequestType.TUNNEL_CONNECTION] * 4)
    if ctype == ConnectRequestType.TUNNEL_CONNECTION:
        return ConnectRequestInformation(
            connection_type=ctype,
            knx_layer=rng.choice(list(TunnellingLayer)),
            individual_address=_ia(rng, nonzero=True) if rng.random() < 0.5 else None,
        )
    return ConnectRequestInformation(connection_type=ctype)


def gen_crd(rng: Any) -> ConnectResponseData:
    rtype = rng.choice(list(ConnectRequestType) + [ConnectRequestType.TUNNEL_CONNECTION] * 4)
    if rtype == ConnectRequestType.TUNNEL_CONNECTION:
        return ConnectResponseData(request_type=rtype, individual_address=_ia(rng))
    return ConnectResponseData(request_type=rtype)


def _feature_data(rng: Any, allow_empty: bool = False) -> bytes:
    n = rng.choice((2, 2, 2, 4, 2 * rng.randrange(1, 8)))
    if allow_empty and rng.random() < 0.5:
        n = 0
    return _blob(rng, n)


# --------------------------------------------------------------------------
# bodies


def gen_case(cls: type, rng: Any) -> tuple[Any, dict[str, Any]]:
    """Return (body, info). info["judge_equal"] False => equality of the whole body is not demanded
    (only for ConnectResponse with an error status, whose HPAI/CRD the parser skips on purpose)."""
    info: dict[str, Any] = {"variant": "", "judge_equal": True}
    if cls is ConnectRequest:
        cri = gen_cri(rng)
        info["variant"] = f"cri-{cri.connection_type.name}-{'ext' if cri.individual_address else 'basic'}"
        return ConnectRequest(gen_hpai(rng), gen_hpai(rng), cri), info
    if cls is ConnectResponse:
        crd = gen_crd(rng)
        if rng.random() < 0.7:
            status = ErrorCode.E_NO_ERROR
        else:
            status = rng.choice([e for e in ErrorCode if e is not ErrorCode.E_NO_ERROR])
            info["judge_equal"] = False
        info["variant"] = f"{'ok' if status is ErrorCode.E_NO_ERROR else 'error'}-crd-{crd.request_type.name}"
        return ConnectResponse(_u8(rng), status, gen_hpai(rng), crd), info
    if cls is ConnectionStateRequest:
        return ConnectionStateRequest(_u8(rng), gen_hpai(rng)), info
    if cls is ConnectionStateResponse:
        return ConnectionStateResponse(_u8(rng), _status(rng)), info
    if cls is DescriptionRequest:
        return DescriptionRequest(gen_hpai(rng)), info
    if cls is DescriptionResponse:
        body = DescriptionResponse()
        body.dibs = _dibs(rng)
        info["variant"] = ",".join(type(d).__name__[3:6] for d in body.dibs[:6])
        return body, info
    if cls is DeviceConfigurationAck:
        return DeviceConfigurationAck(_u8(rng), _u8(rng), _status(rng)), info
    if cls is DeviceConfigurationRequest:
        return DeviceConfigurationRequest(_u8(rng), _u8(rng), _cemi(rng)), info
    if cls is DisconnectRequest:
        return DisconnectRequest(_u8(rng), gen_hpai(rng)), info
    if cls is DisconnectResponse:
        return DisconnectResponse(_u8(rng), _status(rng)), info
    if cls is RoutingBusy:
        return RoutingBusy(_u8(rng), _u16(rng), _u16(rng)), info
    if cls is RoutingIndication:
        return RoutingIndication(_cemi(rng)), info
    if cls is RoutingLostMessage:
        return RoutingLostMessage(_u8(rng), _u16(rng)), info
    if cls is SearchRequest:
        return SearchRequest(gen_hpai(rng)), info
    if cls is SearchRequestExtended:
        srps = [gen_srp(rng) for _ in range(rng.choice((0, 1, 2, 3, rng.randrange(0, 8))))]
        info["variant"] = ",".join(s.type.name[-4:] for s in srps[:6])
        return SearchRequestExtended(gen_hpai(rng), srps), info
    if cls in (SearchResponse, SearchResponseExtended):
        body = cls(gen_hpai(rng))
        body.dibs = _dibs(rng)
        info["variant"] = ",".join(type(d).__name__[3:6] for d in body.dibs[:6])
        return body, info
    if cls is SecureWrapper:
        n = rng.choice((8, 10, 21, rng.randrange(8, 80), rng.randrange(8, 300)))
        return (
            SecureWrapper(_u16(rng), _blob(rng, 6), _blob(rng, 6), _blob(rng, 2), _blob(rng, n), _blob(rng, 16)),
            info,
        )
    if cls is SessionAuthenticate:
        return SessionAuthenticate(rng.choice((1, 2, 0x7F, rng.randrange(1, 0x80))), _blob(rng, 16)), info
    if cls is SessionRequest:
        return SessionRequest(gen_hpai(rng), _blob(rng, 32)), info
    if cls is SessionResponse:
        return SessionResponse(_u16(rng), _blob(rng, 32), _blob(rng, 16)), info
    if cls is SessionStatus:
        return SessionStatus(rng.choice(list(SecureSessionStatusCode))), info
    if cls is TimerNotify:
        timer = rng.choice((0, 1, 2**48 - 1, 2**47, rng.randrange(2**48)))
        return TimerNotify(timer, _blob(rng, 6), _blob(rng, 2), _blob(rng, 16)), info
    if cls is TunnellingAck:
        return TunnellingAck(_u8(rng), _u8(rng), _status(rng)), info
    if cls is TunnellingRequest:
        return TunnellingRequest(_u8(rng), _u8(rng), _cemi(rng)), info
    ftype = rng.choice(list(TunnellingFeatureType))
    if cls is TunnellingFeatureGet:
        return TunnellingFeatureGet(_u8(rng), _u8(rng), ftype), info
    if cls is TunnellingFeatureSet:
        return TunnellingFeatureSet(_u8(rng), _u8(rng), ftype, _feature_data(rng)), info
    if cls is TunnellingFeatureInfo:
        return TunnellingFeatureInfo(_u8(rng), _u8(rng), ftype, _feature_data(rng)), info
    if cls is TunnellingFeatureResponse:
        code = rng.choice([ReturnCode.E_SUCCESS] * 3 + list(ReturnCode))
        info["variant"] = "success" if code is ReturnCode.E_SUCCESS else "error"
        return (
            TunnellingFeatureResponse(_u8(rng), _u8(rng), ftype, code, _feature_data(rng, allow_empty=code is not ReturnCode.E_SUCCESS)),
            info,
        )
    raise KeyError(f"no generator for {cls.__name__}")


def gen_body(cls: type, rng: Any) -> Any:
    """A valid instance of the body class `cls`."""
    return gen_case(cls, rng)[0]


def odd_length_variants(rng: Any) -> list[tuple[str, Any]]:
    """Bodies whose variable part has an odd length: xknx pads them on the wire, so the parsed
    body carries the padding octet. Recorded, not judged (the wire value is the padded one)."""
    out: list[tuple[str, Any]] = []
    ftype = rng.choice(list(TunnellingFeatureType))
    data = _blob(rng, rng.choice((1, 3, 5)))
    out.append(("TunnellingFeatureSet-odd-data", TunnellingFeatureSet(_u8(rng), _u8(rng), ftype, data)))
    out.append(("TunnellingFeatureInfo-odd-data", TunnellingFeatureInfo(_u8(rng), _u8(rng), ftype, data)))
    out.append(("TunnellingFeatureResponse-odd-data", TunnellingFeatureResponse(_u8(rng), _u8(rng), ftype, ReturnCode.E_SUCCESS, data)))
    dib = DIBGeneric()
    dib.dtc = rng.choice(_GENERIC_DTCS)
    dib.data = _blob(rng, rng.choice((1, 3, 7)))
    body = DescriptionResponse()
    body.dibs = [dib]
    out.append(("DIBGeneric-odd-data", body))
    # a name ending in NUL (incl. NUL at position 29 of a full field) cannot be told from padding: recorded, not judged
    dev = gen_dib(rng, "device")
    dev.name = rng.choice(("ab\0", "\0", "x" * 29 + "\0", "ab\0\0"))
    body2 = DescriptionResponse()
    body2.dibs = [dev]
    out.append(("DIBDeviceInformation-name-trailing-NUL", body2))
    return out


def frame_bytes(body: Any) -> bytes:
    return KNXIPFrame.init_from_body(body).to_knx()


_CLASSES: list[type] = []


def gen_frame_bytes(rng: Any, small: bool = False) -> bytes:
    """Wire bytes of one valid frame of a random body class."""
    if not _CLASSES:
        _CLASSES.extend(body_classes())
    while True:
        cls = rng.choice(_CLASSES)
        body, info = gen_case(cls, rng)
        if not info["judge_equal"]:
            continue
        data = frame_bytes(body)
        if small and len(data) > 64:
            continue
        return data


def body_equal(a: Any, b: Any, depth: int = 0) -> bool:
    """Structural equality for KNX/IP bodies (DIB classes define no __eq__): same type, enums by identity,
    containers element-wise, objects by their __dict__ / slots. Fast equivalent of eqv.same for this domain."""
    if type(a) is not type(b) or depth > 12:
        return False
    if isinstance(a, enum.Enum):
        return a is b
    if a is None or isinstance(a, (bool, int, float, str, bytes, bytearray)):
        return bool(a == b)
    if isinstance(a, (list, tuple)):
        return len(a) == len(b) and all(body_equal(x, y, depth + 1) for x, y in zip(a, b))
    if isinstance(a, dict):
        return a.keys() == b.keys() and all(body_equal(v, b[k], depth + 1) for k, v in a.items())
    d = getattr(a, "__dict__", None)
    if d is not None:
        return body_equal(d, b.__dict__, depth + 1)
    slots = [n for k in type(a).__mro__ for n in getattr(k, "__slots__", ())]
    if slots:
        return all(hasattr(a, n) == hasattr(b, n) and (not hasattr(a, n) or body_equal(getattr(a, n), getattr(b, n), depth + 1)) for n in slots)
    return bool(a == b)


# --------------------------------------------------------------------------
# hostile frames

ALL_SERVICE_CODES = sorted(s.value for s in KNXIPServiceType)
_SERVICE_BY_CODE = {s.value: s.name for s in KNXIPServiceType}


def header(service: int, total: int, hlen: int = 6, version: int = 0x10) -> bytes:
    return bytes((hlen & 0xFF, version & 0xFF, (service >> 8) & 0xFF, service & 0xFF, (total >> 8) & 0xFF, total & 0xFF))


def service_label(data: bytes) -> str:
    if len(data) < 4:
        return "no-header"
    return _SERVICE_BY_CODE.get(data[2] * 256 + data[3], "unknown-service")


def _with_total(data: bytes, total: int) -> bytes:
    return data[:4] + bytes(((total >> 8) & 0xFF, total & 0xFF)) + data[6:]


_INTERESTING = (0, 1, 2, 3, 4, 6, 8, 0x10, 0x7F, 0x80, 0xFE, 0xFF)


def _hpai_bytes(rng: Any) -> bytes:
    return gen_hpai(rng).to_knx()


def dib_soup(rng: Any) -> bytes:
    """A DIB list with hostile structure lengths / type codes."""
    out = b""
    for _ in range(rng.randrange(0, 4)):
        out += gen_dib(rng).to_knx()
    kind = rng.randrange(12)
    if kind == 0:
        out += bytes((0, rng.choice((0, 1, 2, 3, 6, 7, 8, 9, 0xFE, 0xFF)))) + _blob(rng, rng.randrange(0, 6))
    elif kind == 1:
        out += bytes((1, rng.choice((1, 2, 3, 6, 7, 0xFE)))) + _blob(rng, rng.randrange(0, 6))
    elif kind == 2:
        out += bytes((rng.choice((2, 3, 4, 5, 7, 9)), rng.choice((2, 6, 7)))) + _blob(rng, rng.randrange(0, 9))
    elif kind == 3:
        out += bytes((rng.choice((4, 6, 8)), rng.randrange(256))) + _blob(rng, rng.randrange(0, 8))
    elif kind == 4:
        n = rng.randrange(0, 4)
        out += bytes((2 + 2 * n, rng.choice((2, 6)))) + bytes(rng.randrange(256) for _ in range(2 * n))
    elif kind == 5:
        raw = bytearray(gen_dib(rng, "device").to_knx())
        raw[rng.choice((0, 1, 2, 2, 3))] = rng.choice(_INTERESTING)
        out += bytes(raw)
    elif kind == 6:
        out += bytes((rng.choice((0xFF, 0xFE, 0x80)), rng.choice((1, 2, 3, 6, 7, 0xFE)))) + _blob(rng, rng.randrange(0, 12))
    elif kind == 7:
        out += bytes((rng.randrange(256),))
    elif kind == 8:
        raw = bytearray(gen_dib(rng, "tunnel").to_knx())
        raw[0] = rng.choice((0, 2, 3, 4, 5, 6, 7, 8, min(255, len(raw) + 4)))
        out += bytes(raw)
    elif kind == 9:
        out += bytes((0, 0)) * rng.randrange(1, 4)
    elif kind == 10:
        out += _blob(rng, rng.randrange(0, 12))
    else:
        out += gen_dib(rng).to_knx()[: rng.randrange(0, 6)]
    if rng.random() < 0.3:
        out += gen_dib(rng).to_knx()
    return out


def srp_soup(rng: Any) -> bytes:
    out = b""
    for _ in range(rng.randrange(0, 3)):
        out += bytes(gen_srp(rng))
    kind = rng.randrange(8)
    if kind == 0:
        out += bytes((rng.choice((0, 1, 2)), rng.randrange(256)))
    elif kind == 1:
        out += bytes((rng.choice((2, 3, 4, 5, 8, 9)), rng.choice((1, 2, 3, 4, 0x81, 0x82, 0x83, 0x84)))) + _blob(rng, rng.randrange(0, 8))
    elif kind == 2:
        out += bytes((rng.randrange(2, 12), rng.choice((0, 5, 6, 7, 0x7F, 0x80, 0xFF)))) + _blob(rng, 12)
    elif kind == 3:
        out += bytes((rng.randrange(256),))
    elif kind == 4:
        out += bytes((0xFF, 4)) + _blob(rng, rng.randrange(0, 10))
    elif kind == 5:
        out += bytes((2, 4)) + bytes((2, 3)) + bytes((2, 2))
    elif kind == 6:
        out += _blob(rng, rng.randrange(0, 10))
    else:
        out += bytes((0, 0)) * rng.randrange(1, 4)
    return out


def _structured_body(service: int, rng: Any) -> bytes:
    """A body for `service` built from hostile sub-structures (codes over 0..255, wrong inner lengths)."""
    st = KNXIPServiceType
    b8 = lambda: rng.choice((rng.randrange(256), rng.choice(_INTERESTING)))  # noqa: E731
    if service in (st.SEARCH_RESPONSE.value, st.SEARCH_RESPONSE_EXTENDED.value):
        return _hpai_bytes(rng) + dib_soup(rng)
    if service == st.DESCRIPTION_RESPONSE.value:
        return dib_soup(rng)
    if service == st.SEARCH_REQUEST_EXTENDED.value:
        return _hpai_bytes(rng) + srp_soup(rng)
    if service == st.CONNECT_REQUEST.value:
        cri = rng.choice(
            (
                bytes((b8(), b8())),
                bytes((4, b8(), b8(), 0)),
                bytes((6, 4, b8(), 0, b8(), b8())),
                bytes((rng.choice((0, 1, 2, 3, 4, 5, 6, 7)), rng.choice((3, 4, 6, 7, 8)))) + _blob(rng, rng.randrange(0, 6)),
                b"",
                bytes((b8(),)),
            )
        )
        return _hpai_bytes(rng) + _hpai_bytes(rng) + cri
    if service == st.CONNECT_RESPONSE.value:
        crd = rng.choice(
            (
                bytes((b8(), b8())),
                bytes((4, b8(), b8(), b8())),
                bytes((rng.choice((0, 1, 2, 3, 4, 5)), rng.choice((3, 4, 6, 7, 8)))) + _blob(rng, rng.randrange(0, 4)),
                b"",
                bytes((b8(),)),
            )
        )
        status = rng.choice((0, 0, 0, b8()))
        tail = rng.choice((_hpai_bytes(rng) + crd, b"", _hpai_bytes(rng), _blob(rng, rng.randrange(0, 14))))
        return rng.choice((bytes((b8(), status)) + tail, bytes((b8(),)), b""))
    if service in (st.TUNNELLING_ACK.value, st.DEVICE_CONFIGURATION_ACK.value):
        return rng.choice((bytes((4, b8(), b8(), b8())), bytes((b8(), b8(), b8(), b8())), _blob(rng, rng.randrange(0, 7))))
    if service in (st.CONNECTIONSTATE_RESPONSE.value, st.DISCONNECT_RESPONSE.value):
        return rng.choice((bytes((b8(), b8())), bytes((b8(),)), b"", _blob(rng, rng.randrange(0, 6))))
    if service in (
        st.TUNNELLING_FEATURE_GET.value,
        st.TUNNELLING_FEATURE_SET.value,
        st.TUNNELLING_FEATURE_INFO.value,
        st.TUNNELLING_FEATURE_RESPONSE.value,
    ):
        return rng.choice(
            (
                bytes((4, b8(), b8(), b8(), b8(), b8())) + _blob(rng, rng.randrange(0, 5)),
                bytes((4, 1, 0, 0, b8(), b8())) + _blob(rng, rng.randrange(0, 5)),
                bytes((4, 1, 0, b8(), 3, 0)) + _blob(rng, 2),
                bytes((4, b8(), b8(), 0))[: rng.randrange(0, 5)],
                bytes((4, 1, 2, 0, 3)),
            )
        )
    if service in (st.TUNNELLING_REQUEST.value, st.DEVICE_CONFIGURATION_REQUEST.value):
        return rng.choice((bytes((4, b8(), b8(), b8())) + _blob(rng, rng.randrange(0, 20)), bytes((b8(), 1, 2, 0)), bytes((4, 1))[: rng.randrange(0, 3)]))
    if service in (st.ROUTING_BUSY.value, st.ROUTING_LOST_MESSAGE.value):
        n = 6 if service == st.ROUTING_BUSY.value else 4
        return rng.choice((bytes((n,)) + _blob(rng, n - 1), bytes((b8(),)) + _blob(rng, n - 1), _blob(rng, rng.randrange(0, n + 3))))
    if service == st.SESSION_STATUS.value:
        return rng.choice((bytes((b8(), b8())), bytes((b8(),)), b"", _blob(rng, 3)))
    if service in (
        st.SEARCH_REQUEST.value,
        st.DESCRIPTION_REQUEST.value,
        st.CONNECTIONSTATE_REQUEST.value,
        st.DISCONNECT_REQUEST.value,
        st.SESSION_REQUEST.value,
    ):
        hp = bytearray(_hpai_bytes(rng))
        if rng.random() < 0.7:
            hp[rng.choice((0, 0, 1, 1, 2, 7))] = b8()
        hp = bytes(hp)[: rng.choice((8, 8, 8, rng.randrange(0, 9)))]
        pre = b"" if service in (st.SEARCH_REQUEST.value, st.DESCRIPTION_REQUEST.value, st.SESSION_REQUEST.value) else bytes((b8(), b8()))[: rng.choice((2, 2, 1, 0))]
        post = _blob(rng, 32 if rng.random() < 0.7 else rng.randrange(0, 40)) if service == st.SESSION_REQUEST.value else b""
        return pre + hp + post
    return _blob(rng, rng.choice((0, 1, 2, 16, 18, 30, 34, 40, 50, rng.randrange(0, 64))))


def _valid_for_service(service: int, rng: Any) -> bytes | None:
    for cls in body_classes():
        if cls.SERVICE_TYPE.value == service:
            return frame_bytes(gen_body(cls, rng))
    return None


def hostile_for_service(service: int, rng: Any, n: int) -> list[tuple[str, bytes]]:
    """n hostile frames for one service type code (known, unimplemented or unknown)."""
    out: list[tuple[str, bytes]] = []
    while len(out) < n:
        valid = _valid_for_service(service, rng)
        kind = rng.randrange(13)
        if kind == 0 or valid is None and kind in (2, 3, 4, 5, 6, 7):
            body = _blob(rng, rng.choice((0, 1, 2, 3, 4, 6, 8, 10, 16, 30, rng.randrange(0, 80))))
            out.append(("random-body", header(service, 6 + len(body)) + body))
        elif kind == 1:
            out.append(("empty-body", header(service, 6)))
        elif kind == 2:
            assert valid is not None
            cut = rng.randrange(6, len(valid) + 1)
            out.append(("truncated-consistent", _with_total(valid[:cut], cut)))
        elif kind == 3:
            assert valid is not None
            cut = rng.randrange(0, len(valid))
            out.append(("truncated-announced-longer", valid[:cut]))
        elif kind == 4:
            assert valid is not None
            total = rng.choice((0, 1, 2, 3, 4, 5, 6, 7, len(valid) - 1, len(valid) + 1, 0xFFFF, rng.randrange(65536)))
            out.append(("announced-length-wrong", _with_total(valid, total) + _blob(rng, rng.choice((0, 0, 3, 20)))))
        elif kind in (5, 6):
            assert valid is not None
            raw = bytearray(valid)
            for _ in range(rng.choice((1, 1, 1, 2, 3))):
                pos = rng.randrange(6, len(raw)) if len(raw) > 6 and rng.random() < 0.9 else rng.randrange(0, min(6, len(raw)))
                raw[pos] = rng.choice((rng.randrange(256), rng.choice(_INTERESTING), (raw[pos] + 1) & 0xFF, (raw[pos] - 1) & 0xFF))
            out.append(("octet-mutated", bytes(raw)))
        elif kind == 7:
            assert valid is not None
            extra = _blob(rng, rng.randrange(1, 12))
            grown = valid + extra
            out.append(("trailing-octets-in-frame", _with_total(grown, len(grown))))
        elif kind in (8, 9, 10):
            body = _structured_body(service, rng)
            out.append(("hostile-structure", header(service, 6 + len(body)) + body))
        elif kind == 11:
            body = _structured_body(service, rng)
            cut = rng.randrange(0, len(body) + 1)
            out.append(("hostile-structure-truncated", header(service, 6 + cut) + body[:cut]))
        else:
            body = _structured_body(service, rng)
            hdr = header(service, 6 + len(body), hlen=rng.choice((6, 6, 0, 5, 7, 0xFF)), version=rng.choice((0x10, 0x10, 0, 0x11, 0x20, 0xFF)))
            out.append(("header-mutated", hdr + body + _blob(rng, rng.choice((0, 0, 5)))))
    return out


TINY_DIB_UNITS = (bytes((2, 3)), bytes((2, 2)), bytes((2, 6)), bytes((4, 7, 0, 0xF8)), bytes((4, 2, 4, 1)))


def many_tiny_dibs(service: int, n_octets: int, rng: Any, unit: bytes | None = None) -> bytes:
    """A (valid) response body consisting of very many minimal DIBs: the worst case for time and memory."""
    unit = unit or rng.choice(TINY_DIB_UNITS)
    body = unit * (n_octets // len(unit))
    if service != KNXIPServiceType.DESCRIPTION_RESPONSE.value:
        body = _hpai_bytes(rng) + body
    return header(service, 6 + len(body)) + body


def random_strings(rng: Any, n: int) -> list[tuple[str, bytes]]:
    out: list[tuple[str, bytes]] = []
    for _ in range(n):
        r = rng.random()
        if r < 0.35:
            out.append(("random", _blob(rng, rng.randrange(0, 24))))
        elif r < 0.5:
            out.append(("random", _blob(rng, rng.randrange(24, 400))))
        elif r < 0.75:
            svc = rng.choice(ALL_SERVICE_CODES)
            body = _blob(rng, rng.randrange(0, 60))
            out.append(("random-after-valid-header", header(svc, 6 + len(body)) + body))
        elif r < 0.9:
            data = bytearray(_blob(rng, rng.randrange(1, 40)))
            data[0] = 6
            if len(data) > 1 and rng.random() < 0.8:
                data[1] = 0x10
            if len(data) > 3 and rng.random() < 0.7:
                data[2:4] = rng.choice(ALL_SERVICE_CODES).to_bytes(2, "big")
            out.append(("random-header-like", bytes(data)))
        else:
            out.append(("random-short", _blob(rng, rng.randrange(0, 7))))
    return out


def malformed_frames(rng: Any, n: int) -> list[tuple[str, bytes]]:
    """n structure-aware hostile byte strings (label, bytes) over every service type + random strings."""
    out: list[tuple[str, bytes]] = []
    codes = ALL_SERVICE_CODES + [0x0000, 0x0200, 0x020D, 0x0534, 0x0956, 0xFFFF]
    per = max(1, (n * 3 // 4) // len(codes))
    for code in codes:
        out.extend(hostile_for_service(code, rng, per))
    out.extend(random_strings(rng, max(0, n - len(out))))
    rng.shuffle(out)
    return out[:n]


# --------------------------------------------------------------------------
# logging configuration as a workload dimension

XKNX_LOGGERS = ("xknx.log", "xknx.raw_socket", "xknx.knx", "xknx.telegram", "xknx.cemi", "xknx.ip_secure", "xknx.state_updater")


class _RecordingHandler(logging.Handler):
    """Formats every record (so that %-arguments and reprs are really evaluated) and counts it; prints nothing."""

    def __init__(self) -> None:
        super().__init__(logging.DEBUG)
        self.records = 0
        self.errors = 0

    def emit(self, record: logging.LogRecord) -> None:
        self.records += 1
        try:
            record.getMessage()
        except Exception:  # noqa: BLE001 - a log call that cannot be formatted is counted, logging itself swallows it too
            self.errors += 1


@contextlib.contextmanager
def debug_logging(ctx: Any = None) -> Any:
    """Run the block with the xknx loggers at DEBUG and a recording handler; levels/handlers/propagation restored afterwards."""
    handler = _RecordingHandler()
    saved = []
    for name in XKNX_LOGGERS:
        lg = logging.getLogger(name)
        saved.append((lg, lg.level, lg.propagate))
        lg.setLevel(logging.DEBUG)
        lg.propagate = False
        lg.addHandler(handler)
    try:
        yield handler
    finally:
        for lg, level, propagate in saved:
            lg.removeHandler(handler)
            lg.setLevel(level)
            lg.propagate = propagate
        if ctx is not None:
            ctx.count("debug_log_records_emitted", handler.records)
            if handler.errors:
                ctx.count("recorded_debug_log_records_not_formattable", handler.errors)


# --------------------------------------------------------------------------
# harness robustness: a failure of the harness itself for one case is counted and skipped, it never kills a shard


def guarded(ctx: Any, what: str, fn: Any, *args: Any, **kw: Any) -> Any:
    """fn(*args, **kw); on a harness exception: count, keep the first tracebacks, return None."""
    try:
        return fn(*args, **kw)
    except Exception as err:  # noqa: BLE001 - BaseExceptions (budget aborts, KeyboardInterrupt) pass through
        import traceback

        ctx.count("harness_case_skipped")
        errs = ctx.extra.setdefault("harness_errors", [])
        if len(errs) < 5:
            errs.append(f"{what}: {type(err).__name__}: {err} @ " + " <- ".join(
                f"{f.name}:{f.lineno}" for f in reversed(traceback.extract_tb(err.__traceback__)[-4:])))
        return None


def harness_verdict(ctx: Any) -> None:
    """Too many skipped cases mean the workload was not what the evidence says: inconclusive."""
    n = ctx.counters.get("harness_case_skipped", 0)
    if n > max(20, ctx.evaluations // 1000):
        ctx.inconclusive(f"{n} cases skipped because of harness errors: {ctx.extra.get('harness_errors', [])[:2]}")


# --------------------------------------------------------------------------
# budgeted execution: logical steps (LINE events), heap peak, wall backstop


class StepBudgetExceeded(BaseException):
    """More LINE events than the budget: the call is aborted from the monitoring callback."""


class WallBackstop(BaseException):
    """The wall-clock backstop fired (only ever inconclusive)."""


_TOOL = 4  # a free sys.monitoring tool id (0 debugger, 1 coverage, 2 profiler, 5 optimizer)


def _code_objects(obj: Any, seen: set[int], out: list[CodeType]) -> None:
    if isinstance(obj, CodeType):
        if id(obj) in seen:
            return
        seen.add(id(obj))
        out.append(obj)
        for const in obj.co_consts:
            if isinstance(const, CodeType):
                _code_objects(const, seen, out)
        return
    if id(obj) in seen:
        return
    seen.add(id(obj))
    if inspect.isfunction(obj):
        _code_objects(obj.__code__, seen, out)
    elif isinstance(obj, (staticmethod, classmethod)):
        _code_objects(obj.__func__, seen, out)
    elif isinstance(obj, property):
        for f in (obj.fget, obj.fset, obj.fdel):
            if f is not None:
                _code_objects(f, seen, out)
    elif inspect.isclass(obj):
        for v in vars(obj).values():
            _code_objects(v, seen, out)


class Budget:
    """LINE-event counter over all code objects of the loaded `xknx.*` modules and `enum`.

    A loop that does not terminate has to execute lines of some Python code object; C-level
    work (slicing, int.from_bytes) is bounded by the length of its operands. The counter is a
    logical clock: the verdict never depends on wall time.
    """

    def __init__(self) -> None:
        self.count = 0
        self.limit = 1 << 62
        self.active = False
        self.n_code = 0
        self._installed = False

    def install(self) -> None:
        if self._installed:
            return
        mon = sys.monitoring
        mon.use_tool_id(_TOOL, "verif-knxip-budget")
        seen: set[int] = set()
        codes: list[CodeType] = []
        for name, mod in sorted(sys.modules.items()):
            if mod is None or not (name == "xknx" or name.startswith("xknx.") or name == "enum"):
                continue
            for v in list(vars(mod).values()):
                if (inspect.isfunction(v) or inspect.isclass(v)) and getattr(v, "__module__", None) == name:
                    _code_objects(v, seen, codes)
        for code in codes:
            mon.set_local_events(_TOOL, code, mon.events.LINE)
        self.n_code = len(codes)
        mon.register_callback(_TOOL, mon.events.LINE, self._on_line)
        self._installed = True

    def uninstall(self) -> None:
        if self._installed:
            mon = sys.monitoring
            mon.register_callback(_TOOL, mon.events.LINE, None)
            mon.free_tool_id(_TOOL)
            self._installed = False

    def _on_line(self, code: CodeType, line: int) -> Any:
        if self.active:
            self.count += 1
            if self.count > self.limit:
                self.active = False
                raise StepBudgetExceeded(f"{self.count} LINE events, limit {self.limit}, at {code.co_filename}:{line}")
        return None


BUDGET = Budget()


def _alarm(_sig: int, _frm: Any) -> None:
    BUDGET.active = False
    raise WallBackstop()


def budgeted(fn: Any, args: tuple[Any, ...], max_lines: int, wall_s: int = 10, heap: bool = True) -> dict[str, Any]:
    """Call fn(*args) under the budgets. Returns dict(result|exc, lines, peak)."""
    BUDGET.install()
    if heap and not tracemalloc.is_tracing():
        tracemalloc.start(1)
    old = signal.signal(signal.SIGALRM, _alarm)
    out: dict[str, Any] = {"result": None, "exc": None, "lines": 0, "peak": 0}
    base = 0
    try:
        signal.alarm(wall_s)
        if heap:
            tracemalloc.reset_peak()
            base = tracemalloc.get_traced_memory()[0]
        BUDGET.count = 0
        BUDGET.limit = max_lines
        BUDGET.active = True
        try:
            out["result"] = fn(*args)
        except BaseException as exc:  # noqa: BLE001 - classified by the caller
            out["exc"] = exc
        finally:
            BUDGET.active = False
            signal.alarm(0)
        out["lines"] = BUDGET.count
        if heap:
            out["peak"] = max(0, tracemalloc.get_traced_memory()[1] - base)
    finally:
        signal.alarm(0)
        signal.signal(signal.SIGALRM, old)
    return out
