"""C08 decode -> encode -> decode gives the same value (text types: U+FFFD comes back as '?').

For every payload p a type accepts (input space of C07): v = T.from_knx(p);
T.to_knx(v) must be accepted; T.from_knx(T.to_knx(v)) must be the same value.  A sample
also goes through the anchored call sites: RemoteValueSensor.process -> respond(),
ExposeSensor.process_group_write -> process_group_read, ExposeSensor.set.
"""

from __future__ import annotations

import asyncio
import math

from vlib import dpt_gen as G
from vlib.vloop import new_loop
from xknx import XKNX
from xknx.devices import ExposeSensor
from xknx.dpt import DPTArray, DPTBinary
from xknx.remote_value import RemoteValueSensor
from xknx.telegram import GroupAddress, IndividualAddress, Telegram, TelegramDirection
from xknx.telegram.apci import GroupValueRead, GroupValueResponse, GroupValueWrite

LEVEL = "exploration"
TECHNIQUE = (
    "runtime monitor: value-equality oracle (NaN-aware, '?' replacement for text) on from_knx(to_knx(from_knx(p))) of the real DPT classes, "
    "plus the same oracle observed at RemoteValue.respond / ExposeSensor"
)
LEVEL_TEXT = (
    "All concrete DPT classes over every payload they accept: complete for payloads of <= 2 octets (6-bit values, 256 and 65,536 arrays; in the quick "
    "tier the 65,536 arrays are complete for one class per behaviour signature - same code, same range/resolution parameters - and a 1/7 stride for its "
    "siblings, thorough: complete for every class); for 3..14-octet types every octet value in every position over zero / 0xFF / accepted backgrounds "
    "plus 3,000 (100,000) random arrays; 4-octet types additionally the float32 neighbours (+-4 ulp) of every power of ten 1e-45..1e38 and (+-1 ulp) of "
    "k*10^n, of every power of two, and the zero/subnormal/max/inf/NaN borders (quick: siblings of a behaviour signature get the decades only). Order-aware pass: per payload family (same kind and length) 240 (2,400) payloads - the whole space when it has "
    "<= 256 points - are decoded and re-encoded by all classes of the family back to back in both class orders and compared with each class's isolated "
    "result. Longer payloads are sampled, hence exploration."
)
LEVEL_NOTE = (
    "Trusted: CPython float/struct. Judged: to_knx(from_knx(p)) does not raise, has the declared payload type/length, and decodes to an equal value "
    "(== or structurally equal dataclass; NaN equals NaN; text: U+FFFD -> '?'). Not judged: whether the re-encoded payload equals p bit for bit "
    "(reserved bits may be normalised). Order pass: any from_knx/to_knx outcome that differs from the one the class gave alone (after 300 unrelated calls) "
    "is a violation - the statement's 'same value' cannot hold if a value depends on earlier calls; caches larger than ~300 entries or time-based state "
    "are out of its reach."
)
SHARDS = {"quick": 1, "thorough": 16}
TIMEOUT = {"quick": 300, "thorough": 3000}

_SRC = IndividualAddress("1.1.1")


def _expected(cls, value):
    if G.kind(cls) == "text" and isinstance(value, str):
        return value.replace("�", "?")
    return value


def _same(a, b):
    if type(a) is type(b) and a == b:
        return True
    return G.same_value(a, b)


def _own(cls):
    """Class whose encoder runs for `cls` (mechanism strings group subtypes sharing code)."""
    own = G.owner(cls, "to_knx")
    if own == "DPTComplex":
        own = G.owner(cls, "_to_knx")
    return own


def _decade(value):
    """Mechanism classifier: the decoded value is exactly a power of ten (7-digit rounding at a decade boundary)."""
    if isinstance(value, float) and math.isfinite(value) and value != 0:
        if abs(value) == float(f"1e{round(math.log10(abs(value)))}"):
            return "-at-power-of-ten"
    return ""


def _bucket(value):
    if isinstance(value, bool):
        return "bool"
    if isinstance(value, int):
        return f"int{value.bit_length() // 8}{'-' if value < 0 else '+'}"
    if isinstance(value, float):
        if math.isnan(value):
            return "nan"
        if math.isinf(value):
            return "inf"
        if value == 0:
            return "f0"
        return f"f{math.frexp(value)[1] // 8}{'-' if value < 0 else '+'}"
    if isinstance(value, str):
        return f"str{len(value)}{'r' if chr(0xFFFD) in value else ''}"
    return type(value).__name__


def _valid_payload(cls, payload):
    if G.is_binary(cls):
        return isinstance(payload, DPTBinary) and isinstance(payload.value, int) and 0 <= payload.value < (1 << cls.payload_length)
    return (
        isinstance(payload, DPTArray)
        and len(payload.value) == cls.payload_length
        and all(isinstance(b, int) and 0 <= b <= 255 for b in payload.value)
    )


def _judge(ctx, cls, payload, buckets=None):
    """One payload. Returns the decoded value or None."""
    ctx.ev()
    status, value = G.try_decode(cls, payload)
    if status != "ok":
        ctx.count("not_accepted")  # C07 territory; nothing to judge here
        return None
    own = _own(cls)
    witness = {"cls": cls.__name__, "payload": G.describe(payload), "value": repr(value)[:300]}
    try:
        encoded = cls.to_knx(value)
    except BaseException as exc:  # noqa: BLE001
        ctx.violation(
            f"{own}-decoded-value-refused-by-encoder-{type(exc).__name__}",
            {**witness, "exception": repr(exc)[:200]},
            f"{cls.__name__}: {payload!r} decodes to {value!r}, which to_knx refuses with {type(exc).__name__}"[:300],
        )
        return value
    if not _valid_payload(cls, encoded):
        ctx.violation(
            f"{own}-reencoded-payload-wrong-type-or-length",
            {**witness, "encoded": G.describe(encoded)},
            f"{cls.__name__}: {value!r} re-encodes to {encoded!r}, not a {cls.payload_type.__name__} of length {cls.payload_length}"[:300],
        )
        return value
    status2, value2 = G.try_decode(cls, encoded)
    if status2 != "ok":
        ctx.violation(
            f"{own}-reencoded-payload-not-decodable",
            {**witness, "encoded": G.describe(encoded), "exception": repr(value2)[:200]},
            f"{cls.__name__}: {payload!r} -> {value!r} -> {encoded!r} which from_knx rejects ({type(value2).__name__})"[:300],
        )
        return value
    expected = _expected(cls, value)
    if not _same(expected, value2):
        ctx.violation(
            f"{own}-reencode-changes-value{_decade(value)}",
            {**witness, "encoded": G.describe(encoded), "value_after": repr(value2)[:300]},
            f"{cls.__name__}: {payload!r} decodes to {value!r}, re-encodes to {encoded!r}, which decodes to {value2!r}"[:400],
        )
    ctx.count("roundtrips")
    if expected is not value and expected != value:
        ctx.count("text_replacement_roundtrips")
    if encoded != payload:
        ctx.count("payload_normalised")
    if buckets is not None:
        buckets.add(_bucket(value))
    return value


def _payload_space(ctx, cls, exhaustive_two_octet):
    """C07 input space restricted to what can be accepted (own kind and length)."""
    if G.is_binary(cls) or cls.payload_length <= 2:
        size = G.space_size(cls)
        if size <= 256 or exhaustive_two_octet:
            for i in range(size):
                yield G.mk(cls, i)
        else:
            start = ctx.rng.randrange(7)
            for i in (0, 1, 0x7FFE, 0x7FFF, 0x8000, 0x8001, 0xFFFE, 0xFFFF):
                yield G.mk(cls, i)
            for i in range(start, size, 7):
                yield G.mk(cls, i)
    else:
        # quick: classes sharing code and parameters with an earlier one get the decade neighbourhoods only
        yield from G.own_payloads(cls, ctx.rng, ctx.scale(3000, 100000), float_points="full" if exhaustive_two_octet else "decades",
                                  boundaries=False if ctx.quick else None)  # structure-aware boundary payloads of complex types: thorough (C10 has them in quick)
    # a few foreign payloads: must simply not be accepted
    yield DPTArray(())
    yield DPTBinary(0x3F)
    yield DPTArray((0,) * (cls.payload_length + 1))


def _call_sites(ctx, classes, fixed=None):
    """RemoteValueSensor.process -> respond(); ExposeSensor write -> read / set().

    `fixed` (replay): {class name: [payload, ...]} instead of a sample of the decode image.
    """
    rng = ctx.rng
    loop = new_loop()

    async def scenario():
        xknx = XKNX()
        for i, cls in enumerate(classes):
            ga = GroupAddress(i + 1)
            if fixed is not None:
                image = [(p, G.try_decode(cls, p)[1]) for p in fixed[cls.__name__] if G.try_decode(cls, p)[0] == "ok"]
            else:
                image = G.decode_image(cls, rng, 60)
                if len(image) > ctx.scale(12, 200):
                    image = rng.sample(image, ctx.scale(12, 200))
            rv = RemoteValueSensor(xknx, group_address=ga, value_type=cls, sync_state=False)
            expose_rw = ExposeSensor(xknx, f"erw{i}", group_address=ga, value_type=cls)  # never set(): answers reads via respond()
            expose_set = ExposeSensor(xknx, f"eset{i}", group_address=ga, value_type=cls)
            read = Telegram(destination_address=ga, direction=TelegramDirection.INCOMING, payload=GroupValueRead(), source_address=_SRC)
            shared = {}

            def take(site, outs):
                if not xknx.telegrams.empty():
                    outs.append((site, xknx.telegrams.get_nowait()))
                    xknx.telegrams.task_done()
                else:
                    ctx.count(f"nothing_sent_at_{site}")

            for payload, value in image:
                expected = _expected(cls, value)
                own = _own(cls)
                incoming = Telegram(destination_address=ga, direction=TelegramDirection.INCOMING, payload=GroupValueWrite(payload), source_address=_SRC)
                outs = []
                try:
                    # 1. RemoteValue.process stores the decoded value, respond() re-encodes it
                    if rv.process(incoming, always_callback=True):
                        rv.respond()
                        take("RemoteValue.respond", outs)
                    # 2. ExposeSensor: a received write, then a read is answered by re-encoding the stored value
                    expose_rw.process_group_write(incoming)
                    expose_rw.process_group_read(read)
                    take("ExposeSensor.write-then-read", outs)
                    # 3. ExposeSensor.set with the decoded value, then a read
                    await expose_set.set(value)
                    take("ExposeSensor.set", outs)
                    expose_set.process_group_read(read)
                    take("ExposeSensor.set-then-read", outs)
                    # 4. complex values: the caller's one state dict, refreshed in place, set again
                    if hasattr(value, "as_dict"):
                        if shared:
                            await expose_set.set(shared)  # once more with the previous contents ...
                            take("ExposeSensor.set(previous dict again)", [])
                        shared.clear()  # ... then refreshed in place
                        shared.update(value.as_dict())
                        await expose_set.set(shared)
                        take("ExposeSensor.set(dict object reused in place)", outs)
                except BaseException as exc:  # noqa: BLE001
                    try:  # same refusal as the direct oracle sees, or only at the call site?
                        cls.to_knx(value)
                        mech = f"{own}-call-site-raises-{type(exc).__name__}"
                    except BaseException as direct:  # noqa: BLE001
                        mech = f"{own}-decoded-value-refused-by-encoder-{type(direct).__name__}"
                    ctx.violation(
                        mech,
                        {"cls": cls.__name__, "payload": G.describe(payload), "value": repr(value)[:200], "exception": repr(exc)[:200]},
                        f"{cls.__name__}: value {value!r} decoded from {payload!r} makes RemoteValue/ExposeSensor raise {type(exc).__name__}"[:300],
                    )
                    while not xknx.telegrams.empty():
                        xknx.telegrams.get_nowait()
                        xknx.telegrams.task_done()
                    continue
                for site, out in outs:
                    ctx.ev()
                    ctx.count("call_site_roundtrips")
                    ctx.count(f"site_{site}")
                    ok = isinstance(out.payload, (GroupValueResponse, GroupValueWrite))
                    status, back = G.try_decode(cls, out.payload.value) if ok else ("reject", None)
                    if not (ok and status == "ok" and _same(expected, back)):
                        try:  # same break as the direct oracle, or only at this call site?
                            direct_ok = _same(expected, cls.from_knx(cls.to_knx(value)))
                        except BaseException:  # noqa: BLE001
                            direct_ok = False
                        ctx.violation(
                            f"{own}-reencode-changes-value{_decade(value)}" + (f"-only-at-{site}" if direct_ok else ""),
                            {"cls": cls.__name__, "payload": G.describe(payload), "value": repr(value)[:200], "site": site,
                             "sent": repr(out.payload)[:200], "value_after": repr(back)[:200]},
                            f"{cls.__name__}: {site} re-sent value {value!r} (from {payload!r}) as {out.payload!r}, which decodes to {back!r}"[:400],
                        )
            expose_rw.async_remove_tasks()
            expose_set.async_remove_tasks()

    loop.run(scenario(), max_vtime=3600)
    loop.finish()
    if loop.exceptions:
        ctx.count("call_site_loop_exceptions_recorded", len(loop.exceptions))


class _RecordingQueue(asyncio.Queue):
    """xknx.telegrams replacement (public attribute): remembers what devices queue for sending."""

    def __init__(self):
        super().__init__()
        self.outgoing = []

    def put_nowait(self, item):
        if item is not None and item.direction is TelegramDirection.OUTGOING:
            self.outgoing.append(item)
        super().put_nowait(item)


def _table_call_sites(ctx, only=None):
    """Call sites behind the running queue consumer, with the group-address table as a dimension.

    For every device below and every table mode (no entry / the device's own DPT / a parent class / a child
    class / an unrelated class of the same payload length) an incoming GroupValueWrite goes through a real
    XKNX TelegramQueue (table decoding first, then devices.process).  The device's RemoteValue must hold
    what its OWN transcoder decodes from the payload, and what it re-encodes (RemoteValue.to_knx of the stored
    value = what respond() sends; for ExposeSensor also the real answer to a GroupValueRead) must decode, with
    its own transcoder, to that value.  Devices: ExposeSensor for one class per behaviour signature, and the
    RemoteValueScaling users with non-default ranges (Light brightness 0..255, Cover position/angle normal and
    inverted, Fan speed).  `only` (replay): (device kind, class name or None, table class name or None, payload).
    """
    from xknx.devices import Cover, Fan, Light

    classes = G.concrete_dpt_classes()
    reps = [c for c in classes if c in G.representatives(classes)]
    rng = ctx.rng
    plan = []  # (kind, dpt class or None, mode, table class or None)
    for j, cls in enumerate(reps):
        if only is None and not ctx.mine(j):
            continue
        rel = G.table_relatives(cls, classes)
        plan.append(("ExposeSensor", cls, "none", None))
        for mode in ("own", "parent", "child", "unrelated"):
            for t in rel[mode]:
                plan.append(("ExposeSensor", cls, mode, t))
    if only is not None or ctx.mine(0):
        from xknx.dpt import DPTAngle, DPTPercentU8, DPTScaling, DPTSignedRelativeValue, DPTValue1ByteUnsigned
        for kind in ("Light.brightness", "Cover.position", "Cover.position-inverted", "Cover.angle-inverted", "Fan.speed"):
            plan.append((kind, None, "none", None))
            for mode, t in (("dpt-5.001", DPTScaling), ("dpt-5.003", DPTAngle), ("dpt-5", DPTValue1ByteUnsigned),
                            ("dpt-5.004", DPTPercentU8), ("unrelated", DPTSignedRelativeValue)):
                plan.append((kind, None, mode, t))
    if only is not None:
        plan = [item for item in plan if item[0] == only[0] and (item[1].__name__ if item[1] else None) == only[1]
                and (item[3].__name__ if item[3] else None) == only[2]]
    loop = new_loop()
    images = {}

    async def scenario():
        xknx = XKNX(rate_limit=0)
        queue = _RecordingQueue()
        xknx.telegrams = queue
        entries = []
        for i, (kind, cls, mode, table_cls) in enumerate(plan):
            ga = GroupAddress(i + 1)
            if kind == "ExposeSensor":
                dev = ExposeSensor(xknx, f"d{i}", group_address=ga, value_type=cls)
                rv = dev.sensor_value
            elif kind == "Light.brightness":
                dev = Light(xknx, f"d{i}", group_address_switch=GroupAddress(40000 + i), group_address_brightness=ga)
                rv = dev.brightness
            elif kind.startswith("Cover.position"):
                dev = Cover(xknx, f"d{i}", group_address_position=ga, invert_position=kind.endswith("inverted"))
                rv = dev.position_target
            elif kind.startswith("Cover.angle"):
                dev = Cover(xknx, f"d{i}", group_address_angle=ga, invert_angle=True)
                rv = dev.angle
            else:
                dev = Fan(xknx, f"d{i}", group_address_speed=ga)
                rv = dev.speed
            xknx.devices.async_add(dev)
            if table_cls is not None:
                form = G.public_dpt_form(table_cls)
                if form is None:
                    ctx.count("table_class_not_configurable")
                    continue
                xknx.group_address_dpt.set({ga: form})
            entries.append((kind, cls, mode, table_cls, ga, dev, rv))
        await xknx.telegram_queue.start()
        for kind, cls, mode, table_cls, ga, dev, rv in entries:
            if only is not None:
                payloads = [only[3]]
            elif cls is not None:
                if cls not in images:
                    pool = list(G.own_payloads(cls, rng, 200, float_points="decades"))
                    pool = pool if len(pool) <= 2000 else rng.sample(pool, 2000)
                    images[cls] = [p for p in pool if G.try_decode(cls, p)[0] == "ok"]
                image = images[cls]
                payloads = rng.sample(image, min(len(image), ctx.scale(6, 60)))
                if not G.is_binary(cls) and cls.payload_length <= 2:  # small raw values: where scaled subtypes differ visibly
                    payloads += [G.mk(cls, n) for n in (1, 5, 50)]
            else:
                payloads = [DPTArray((n,)) for n in sorted({0, 1, 50, 127, 128, 200, 254, 255, *rng.sample(range(256), ctx.scale(6, 60))})]
            rvname = type(rv).__name__
            for payload in payloads:
                try:
                    own = rv.from_knx(payload)
                except G.DECLARED_ERRORS:
                    continue
                expected = _expected(cls, own) if cls is not None else own
                witness = {"site": kind, "cls": cls.__name__ if cls else None, "table_mode": mode,
                           "table_cls": table_cls.__name__ if table_cls else None, "payload": G.describe(payload), "own_decode": repr(own)[:200]}
                queue.outgoing.clear()
                queue.put_nowait(Telegram(destination_address=ga, direction=TelegramDirection.INCOMING, payload=GroupValueWrite(payload), source_address=_SRC))
                if kind == "ExposeSensor":
                    queue.put_nowait(Telegram(destination_address=ga, direction=TelegramDirection.INCOMING, payload=GroupValueRead(), source_address=_SRC))
                await queue.join()
                ctx.ev()
                ctx.count("table_call_site_cases")
                ctx.count(f"table_mode_{mode if cls is not None else 'scaling-' + mode}")
                stored = rv.value
                if not _same(own, stored):
                    ctx.violation(
                        f"{rvname}-stored-value-is-not-own-decode-with-{mode}-table-entry",
                        {**witness, "stored": repr(stored)[:200]},
                        f"{kind} ({rvname}, own type {cls.__name__ if cls else 'scaling ' + str((rv.range_from, rv.range_to))}) received {payload!r} through the queue with the "
                        f"table listing {table_cls.__name__ if table_cls else 'nothing'}: its own transcoder decodes {own!r}, it stored {stored!r}"[:500],
                    )
                    continue
                sent = [("RemoteValue.to_knx(stored)", None)]
                if kind == "ExposeSensor":
                    sent += [("answer to GroupValueRead", t.payload.value) for t in queue.outgoing if isinstance(t.payload, GroupValueResponse)]
                    if len(sent) == 1:
                        ctx.count("table_call_site_read_not_answered")
                for site, out_payload in sent:
                    try:
                        if out_payload is None:
                            out_payload = rv.to_knx(stored)
                        back = rv.from_knx(out_payload)
                        ok = _same(expected, back)
                    except BaseException as exc:  # noqa: BLE001
                        ok, back = False, repr(exc)[:120]
                    ctx.count("table_call_site_reencodes")
                    if not ok:
                        ctx.violation(
                            f"{rvname}-reencode-changes-value-with-{mode}-table-entry",
                            {**witness, "via": site, "sent": repr(out_payload)[:120], "value_after": repr(back)[:200]},
                            f"{kind} with table entry {table_cls.__name__ if table_cls else None}: {payload!r} = {own!r}; {site} gives {out_payload!r} = {back!r}"[:500],
                        )
            ctx.distinct(("table", kind, cls.__name__ if cls else None, mode))
        await xknx.telegram_queue.stop()

    loop.run(scenario(), max_vtime=100000)
    loop.finish()
    for exc in loop.exceptions[:3]:
        ctx.count("table_call_site_loop_exceptions_recorded")


def _order_pass(ctx, only_family=None):
    """Calls must not depend on earlier calls: isolated vs interleaved decode/encode per payload family.

    Every payload of a family (same payload kind and length, e.g. DPT 16.000/16.001, scaling/angle,
    all 7.x/8.x/9.x, all 4-octet types) is decoded by all its classes back to back in both class
    orders and each class encodes its value likewise; outcomes are compared with what the class gave
    alone (vlib.dpt_gen.order_dependence).  A class-by-class sweep cannot see state shared between
    classes (a cache in a class attribute inherited by a subclass).
    """
    import random

    fams = G.families(G.concrete_dpt_classes())
    for fi, key in enumerate(sorted(fams)):
        name = f"{key[0]}/{key[1]}"
        if only_family is not None:
            if name != only_family:
                continue
        elif not ctx.mine(fi):
            continue
        members = fams[key]
        rng = random.Random(f"C08-order/{ctx.seed}/{name}")
        payloads = G.family_payloads(members, rng, ctx.scale(240, 2400))
        calls = len(payloads) * len(members) * 2
        ctx.ev(2 * calls)
        ctx.count("interleaved_decodes", calls)
        ctx.count("interleaved_encodes_at_most", calls)
        ctx.count("interleaved_families")
        ctx.distinct(("order", name, len(members)))
        for f in G.order_dependence(members, payloads, rng):
            cls = f["cls"]
            ctx.violation(
                f"{cls.__name__}-{f['op']}-depends-on-earlier-calls",
                {"cls": cls.__name__, "family": name, "payload": G.describe(f["payload"]), "op": f["op"],
                 "isolated": repr(f["isolated"])[:200], "interleaved": repr(f["interleaved"])[:200], "called_just_before": f["after"]},
                f"{cls.__name__}.{'from_knx' if f['op'] == 'decode' else 'to_knx'} for payload {f['payload']!r}: alone it gives {f['isolated']!r}, "
                f"right after {', '.join(f['after']) or 'its own earlier calls'} it gives {f['interleaved']!r}"[:500],
            )


def run(ctx):
    ctx.rule = (
        "every accepted payload of the class's own kind/length (space as in level text): from_knx -> to_knx -> from_knx compared with ==/structural "
        "equality; distinct = (class, magnitude/length bucket of the decoded value); call-site sample: decode-image values through "
        "RemoteValueSensor.process/respond and ExposeSensor write/read/set"
    )
    ctx.require("roundtrips", "text_replacement_roundtrips", "call_site_roundtrips", "not_accepted", "interleaved_decodes", "table_call_site_reencodes", "table_mode_child", "table_mode_parent", "table_mode_scaling-dpt-5.001")
    classes = G.concrete_dpt_classes()
    ctx.extra["dpt_classes"] = len(classes)
    reps = G.representatives(classes)
    ctx.extra["behaviour_signatures"] = len(reps)
    for i, cls in enumerate(classes):
        if not ctx.mine(i):
            continue
        buckets = set()
        before = ctx.counters.get("roundtrips", 0)
        first = None
        for payload in _payload_space(ctx, cls, exhaustive_two_octet=(not ctx.quick) or cls in reps):
            value = _judge(ctx, cls, payload, buckets)
            if first is None and value is not None:
                first = (payload, value)
        for b in sorted(buckets):
            ctx.distinct((cls.__name__, b))
        ctx.count("classes_run")
        if ctx.counters.get("roundtrips", 0) == before:
            ctx.inconclusive(f"{cls.__name__}: no payload accepted, nothing judged")
        if i % 45 == 0 and first is not None:
            ctx.sample({"cls": cls.__name__, "payload": G.describe(first[0]), "value": repr(first[1])[:80],
                        "roundtrips": ctx.counters.get("roundtrips", 0) - before})
    ctx.extra["exhaustive_part"] = "payloads of <= 2 octets: complete per behaviour signature (quick) / per class (thorough)"
    mine = [cls for i, cls in enumerate(classes) if ctx.mine(i)]
    if ctx.quick:
        mine = [cls for cls in mine if cls in reps]
    _call_sites(ctx, mine)
    _table_call_sites(ctx)
    _order_pass(ctx)


def replay(ctx, witness):
    cls = G.class_by_name(witness["cls"])
    payload = G.rebuild(witness["payload"])
    if witness.get("table_mode"):  # table dimension behind the queue consumer
        _table_call_sites(ctx, only=(witness["site"], witness["cls"], witness["table_cls"], payload))
        ctx.distinct(("replay", "table"))
        ctx.distinct(("replay", repr(payload)))
        return
    if witness.get("family"):  # order dependence: re-run the (deterministic) pass of that family
        _order_pass(ctx, only_family=witness["family"])
    _judge(ctx, cls, payload)
    _call_sites(ctx, [cls], fixed={cls.__name__: [payload]})
    ctx.distinct(("replay", cls.__name__))
    ctx.distinct(("replay", repr(payload)))
