"""C17 Data Secure sequence-number freshness, both directions."""

from __future__ import annotations

from vlib import refcrypto_ds as ref
from vlib.ds_harness import (
    SEQ_MAX,
    Node,
    ScriptedInterface,
    apci_of,
    auth_only_frame,
    group_payload,
    observing_management,
    seq_of,
)
from vlib.vloop import new_loop
from xknx.exceptions import DataSecureError
from xknx.dpt import DPTArray, DPTBinary
from xknx.telegram import GroupAddress, Telegram, TelegramDirection
from xknx.telegram.apci import GroupValueRead, GroupValueResponse, GroupValueWrite

LEVEL = "exploration"
TECHNIQUE = (
    "runtime monitor: generated receive histories (genuine / replayed / reordered / forged / unknown-sender frames from several "
    "senders) against a last-valid-counter reference model; outgoing counters observed on the octets handed to the interface"
)
LEVEL_TEXT = (
    "Histories of 6..40 frames over 2..4 senders (one unknown to the receiver), 1..2 keyed group addresses, counters near 0, in the "
    "middle and at the top of the 48 bit range, are injected into CEMIHandler.handle_raw_cemi of one real receiver per history and "
    "compared event by event with the model; outgoing: runs that start 0..6 below 2^48 - 1 and are driven past exhaustion. Exploration."
)
LEVEL_NOTE = (
    "Model, from the statement: delivered iff sender known, MAC valid and counter > last delivered counter of that sender; only a "
    "delivery advances it ('a failed frame does not advance the counter' is observed behaviourally: a later genuine frame below the "
    "forged counter must still be delivered). Outgoing counters are read from the octets of every frame handed to the interface, whatever the interface then reports (a CommunicationError after transmission does not take the frame back). Before the first delivery of a sender the statement names no reference value: frames "
    "at or below the table's initial value are recorded, not judged. Genuine frames are produced by xknx's own sender "
    "(DataSecure.outgoing_cemi / SecureData.init_from_plain_apdu), forged ones by bit damage or a wrong key. Replays / reorders / genuine frames also arrive with bits the MAC does not cover changed (repeat flag, priority, hop count, frame type): the freshness rule is about the counter only."
    " "
)
SHARDS = {"quick": 1, "thorough": 16}
TIMEOUT = {"quick": 200, "thorough": 2000}


def _mk_frame(ev, keys):
    """Build the octets for one history event (primitives only, replayable)."""
    payload = group_payload(_Rng(ev["pseed"]), ev["plen"])
    telegram = Telegram(destination_address=GroupAddress(ev["da"]), payload=payload)
    key = bytes.fromhex(keys[str(ev["da"])])
    how = ev["how"]
    if how == "garbage":
        # no key needed: A_Sec APDU of minimal / odd length written by hand: SCF | counter | glen octets | 4 octets "MAC"
        r = _Rng(ev["pseed"])
        if ev["glen"] < 0:  # shorter than a MAC: 13 - 1 .. 13 - 4 octets of A_Sec APDU
            body = r.randbytes(4 + ev["glen"])
        else:
            body = r.randbytes(ev["glen"]) + (bytes(4) if ev["pseed"] % 3 == 0 else r.randbytes(4))
        tpdu = bytes((0x03, 0xF1, ev["gscf"])) + ev["n"].to_bytes(6, "big") + body
        npdu = len(tpdu) - 1
        raw = (bytes((0x29, 0, 0xBC if npdu <= 15 else 0x3C, 0xE0)) + ev["sa"].to_bytes(2, "big") + ev["da"].to_bytes(2, "big")
               + bytes((npdu,)) + tpdu)
        return raw, bytes(payload.to_knx())
    if how == "wrongkey":
        key = bytes(x ^ 0x5A for x in key)
    if ev.get("via") == "outgoing" and ev["n"] > 0:
        node = Node({ev["da"]: key}, {}, own_address=ev["sa"], last_seq_sending=ev["n"])
        raw = node.secure_sync(telegram)
    else:
        raw = auth_only_frame(key, telegram, ev["sa"], ev["n"], auth_only=bool(ev.get("auth")))
    if how == "badmac":
        b = bytearray(raw)
        b[-1 - ev["n"] % 4] ^= 1 << (ev["n"] % 8)
        raw = bytes(b)
    elif how == "badbody":
        b = bytearray(raw)
        b[18] ^= 0x10
        raw = bytes(b)
    elif how == "badseq":
        # counter octets replaced after securing (an attacker lifting the counter of a recorded frame)
        b = bytearray(raw)
        b[12:18] = ev["n2"].to_bytes(6, "big")
        raw = bytes(b)
    raw = _retouch(raw, ev.get("ctl"))
    return raw, bytes(payload.to_knx())


def _retouch(raw, ctl):
    """Change only bits the MAC does not cover (repeat flag, priority, hop count, frame type): the frame stays the same frame."""
    if not ctl:
        return raw
    b = bytearray(raw)
    if ctl.get("repeat"):
        b[2] ^= 0x20
    if ctl.get("ft"):
        b[2] ^= 0x80
    if ctl.get("prio") is not None:
        b[2] = (b[2] & 0xF3) | (ctl["prio"] << 2)
    if ctl.get("hop") is not None:
        b[3] = (b[3] & 0x8F) | (ctl["hop"] << 4)
    return bytes(b)


def _ctl(rng, p):
    if rng.random() >= p:
        return None
    ctl = {}
    if rng.random() < 0.6:
        ctl["repeat"] = True
    if rng.random() < 0.3:
        ctl["prio"] = rng.randrange(4)
    if rng.random() < 0.3:
        ctl["hop"] = rng.randrange(8)
    if rng.random() < 0.2:
        ctl["ft"] = True
    return ctl or {"repeat": True}


class _Rng:
    """Tiny deterministic generator so a payload can be rebuilt from an int in a replay."""

    def __init__(self, seed):
        import random

        self._r = random.Random(seed)

    def __getattr__(self, name):
        return getattr(self._r, name)


def _history(rng):
    nsend = rng.randrange(2, 5)
    addrs = rng.sample(range(1, 0x10000), nsend)
    unknown = addrs[-1]
    known = addrs[:-1]
    gas = rng.sample(range(1, 0x10000), rng.choice((1, 2)))
    keys = {str(g): rng.randbytes(16).hex() for g in gas}
    region = rng.choice(("low", "mid", "top", "mixed"))

    def start():
        r = region if region != "mixed" else rng.choice(("low", "mid", "top"))
        if r == "low":
            return rng.randrange(0, 6)
        if r == "top":
            return SEQ_MAX - rng.randrange(0, 40)
        return rng.randrange(1 << 8, 1 << 47)

    initial = {a: (0 if rng.random() < 0.5 else start()) for a in known}
    # sender-side counters (what a well behaved device would use next)
    nxt = {a: min(SEQ_MAX, initial.get(a, 0) + rng.randrange(1, 4)) for a in addrs}
    events = []
    sent = []
    rx_addr = next(x for x in range(1, 99) if x not in addrs)
    explicit = next(x for x in range(0x1100, 0x1200) if x not in addrs)  # an address the receiver uses as explicit source
    strangers = [unknown, rx_addr, explicit]  # none of them is in the receiver's sender table
    for a in (rx_addr, explicit):
        nxt[a] = rng.choice((2, 50, 1 << 20))
    for _ in range(rng.randrange(6, 41)):
        if rng.random() < 0.1:
            # the receiver itself sends a secured telegram (own address or an explicit source address)
            events.append({"tag": "own_send", "how": "own_send", "da": rng.choice(gas), "src": rng.choice((None, None, explicit)),
                           "plen": rng.choice((1, 2, 5)), "pseed": rng.randrange(1 << 30), "sa": rx_addr, "n": 0})
            continue
        sa = rng.choice(strangers) if rng.random() < 0.15 else rng.choice(known)
        da = rng.choice(gas)
        r = rng.random()
        ev = {"sa": sa, "da": da, "plen": rng.choice((1, 1, 2, 3, 5, 20)), "pseed": rng.randrange(1 << 30), "auth": rng.random() < 0.3,
              "via": "outgoing" if rng.random() < 0.6 else "api", "how": "genuine"}
        if r < 0.40 or not sent:
            ev["n"] = nxt[sa]
            nxt[sa] = min(SEQ_MAX, nxt[sa] + rng.choice((1, 1, 1, 2, 7, 1000)))
            ev["tag"] = "genuine"
        elif r < 0.55:
            ev = dict(rng.choice(sent), tag="replay")
            # mostly the last frame this receiver may have accepted, and with unprotected bits changed on the way
            if rng.random() < 0.5:
                ev = dict(sent[-1], tag="replay")
            ev["ctl"] = _ctl(rng, 0.7)
        elif r < 0.65:
            # reordered: a counter below the newest one of this sender (never sent before)
            ev["n"] = max(0, nxt[sa] - rng.randrange(2, 6))
            ev["tag"] = "reorder"
        elif r < 0.90:
            ev["how"] = rng.choice(("badmac", "badbody", "wrongkey", "badseq", "garbage", "garbage"))
            ahead = rng.choice((0, 1, 5, 1 << 20, 1 << 40))
            ev["n"] = min(SEQ_MAX, nxt[sa] + ahead)
            if ev["how"] == "garbage":
                ev["glen"] = rng.choice((0, 0, 0, 1, 1, 2, 3, -1, -2, -4))  # empty secured APDU, 1..3 octets, shorter than a MAC
                ev["gscf"] = rng.choice((0x10, 0x10, 0x00))
            if ev["how"] == "badseq":
                ev["n2"] = min(SEQ_MAX, ev["n"] + rng.choice((1, 2, 1 << 16, 1 << 32)))
                if ev["n2"] == ev["n"]:
                    ev["how"] = "badmac"
            ev["tag"] = "forged"
        else:
            ev["n"] = rng.choice((0, nxt[sa], SEQ_MAX, rng.randrange(0, SEQ_MAX)))
            ev["tag"] = "arbitrary"
        if ev["via"] == "outgoing" and ev["n"] == 0:
            ev["via"] = "api"
        if "ctl" not in ev:
            ev["ctl"] = _ctl(rng, 0.7 if ev["tag"] == "reorder" else 0.25)
        if ev["how"] == "garbage":
            ev["ctl"] = None
        events.append(ev)
        if ev["how"] == "genuine":
            sent.append({k: v for k, v in ev.items() if k != "tag"})
    return {"known": {str(a): initial[a] for a in known}, "unknown": unknown, "keys": keys, "events": events,
            "rx": rx_addr}


def _run_history(ctx, hist):
    keys = {int(g): bytes.fromhex(k) for g, k in hist["keys"].items()}
    initial = {int(a): n for a, n in hist["known"].items()}
    rx = Node(keys, dict(initial), own_address=hist["rx"])
    last_delivered: dict[int, int] = {}
    failed_since: dict[int, int] = {}  # highest counter of a failed frame since the last delivery, per sender
    failed_how: dict[int, set[str]] = {}
    trace = []
    for i, ev in enumerate(hist["events"]):
        if ev["tag"] == "own_send":
            # outgoing traffic of the receiver must not turn any address into a known sender
            payload = group_payload(_Rng(ev["pseed"]), ev["plen"])
            rx.secure_sync(Telegram(destination_address=GroupAddress(ev["da"]), payload=payload), src=ev["src"])
            ctx.count("receiver_own_secured_sends")
            trace.append("o")
            continue
        raw, apdu = _mk_frame(ev, hist["keys"])
        sa = ev["sa"]
        n = ev["n2"] if ev["how"] == "badseq" else ev["n"]
        assert seq_of(raw) == n
        if ev["how"] == "garbage":
            ctx.count(f"garbage_secured_apdu_len_{ev['glen']}")
        known = sa in initial
        valid = ev["how"] == "genuine"
        out = rx.feed(raw)
        ctx.ev()
        ctx.count("events_" + ev["tag"])
        if ev.get("ctl"):
            ctx.count("events_with_unprotected_bits_changed")
            if ev["tag"] == "replay":
                ctx.count("replays_with_unprotected_bits_changed")
                if ev["ctl"].get("repeat"):
                    ctx.count("replays_with_repeat_flag_toggled")
        got = len(out.delivered)
        wit = {"history": hist, "event_index": i, "event": ev, "raw": raw, "outcome": out.kind(),
               "model_last_delivered": last_delivered.get(sa), "initial": initial.get(sa)}
        trace.append(f"{ev['tag'][0]}{'+' if got else '-'}")
        if out.exc is not None:
            ctx.violation(f"receiver-raises-{type(out.exc).__name__}", dict(wit, exception=repr(out.exc)[:200]),
                          f"handle_raw_cemi raised {type(out.exc).__name__} in a freshness history")
            return
        if got > 1:
            ctx.violation("frame-delivered-more-than-once", wit, f"{got} telegrams for one frame")
            return
        # -- "only if" direction: what must never be delivered
        if got:
            ctx.count("delivered")
            if not known:
                own = sa == hist["rx"] or any(e["tag"] == "own_send" and e.get("src") == sa for e in hist["events"][:i])
                ctx.violation("frame-from-unknown-sender-delivered" + ("-receivers-own-source-address" if own else ""), wit,
                              f"frame from {sa:#06x}, not in the address table, was delivered")
                return
            if not valid:
                ctx.violation(f"forged-frame-delivered-{ev['how']}", wit, f"forged frame ({ev['how']}) with counter {n} was delivered")
                return
            if sa in last_delivered and not n > last_delivered[sa]:
                mech = "replayed-frame-delivered" if n == last_delivered[sa] or ev["tag"] == "replay" else "stale-counter-delivered"
                ctx.violation(mech, wit, f"counter {n} delivered although {last_delivered[sa]} was already delivered from this sender")
                return
            try:
                same = bytes(out.delivered[0].payload.to_knx()) == apdu
            except Exception:  # noqa: BLE001
                same = False
            if not same:
                ctx.violation("delivered-payload-differs", wit, "delivered payload is not the APDU that was secured")
                return
            last_delivered[sa] = n
            failed_since.pop(sa, None)
            failed_how.pop(sa, None)
            continue
        # -- not delivered
        ctx.count("not_delivered")
        if not known:
            ctx.count("unknown_sender_rejected")
            if sa == hist["rx"]:
                ctx.count("own_address_as_source_rejected")
            continue
        if not valid:
            ctx.count("forged_rejected")
            failed_how.setdefault(sa, set()).add(ev["how"] + (f"-{ev['glen']}" if ev["how"] == "garbage" else ""))
            failed_since[sa] = max(failed_since.get(sa, -1), n)
            continue
        reference = last_delivered.get(sa)
        if reference is None:
            if n <= initial[sa]:
                ctx.count("unjudged_at_or_below_initial_table_value")
                failed_since[sa] = max(failed_since.get(sa, -1), n)
                continue
            reference = initial[sa]
        if n > reference:
            if failed_since.get(sa, -1) >= n:
                ctx.violation("failed-frame-advanced-the-counter", dict(wit, failed_counter=failed_since[sa], failed_kinds=sorted(failed_how.get(sa, []))),
                              f"genuine frame {n} > last valid {reference} dropped after a failed frame with counter {failed_since[sa]}")
            else:
                ctx.violation("fresh-genuine-frame-dropped", wit, f"genuine frame with counter {n} > last valid {reference} was not delivered")
            return
        ctx.count("stale_rejected")
        failed_since[sa] = max(failed_since.get(sa, -1), n)
    ctx.count("histories")
    ctx.distinct("".join(trace))
    if len(ctx.samples) < 3:
        ctx.sample({"history": "".join(trace), "senders_known": len(initial), "events": len(hist["events"]),
                    "first": {k: v for k, v in hist["events"][0].items()}})


# ---------------------------------------------------------------------------
# Data Secure re-initialised on the same XKNX from another keyring (interface stop / start with a new export)

def _reinit_spec(rng):
    gas = rng.sample(range(1, 0x10000), rng.choice((1, 2)))
    ias = rng.sample(range(0x100, 0xFFFF), 5)
    phases = []
    # phase 0: senders 0..3; later phases drop some, keep some, add sender 4
    members = [ias[:4]]
    members.append([a for a in ias[:4] if rng.random() < 0.6] or [ias[0]])
    if rng.random() < 0.5:
        members.append(rng.sample(ias, rng.randrange(1, 5)))
    for m in members:
        via_interface = [a for a in m if rng.random() < 0.3]
        phases.append({"devices": {str(a): rng.choice((None, 0, rng.randrange(1, 1000))) for a in m if a not in via_interface},
                       "interface_senders": via_interface, "frames": rng.randrange(4, 12)})
    return {"keys": {str(g): rng.randbytes(16).hex() for g in gas}, "ias": ias, "phases": phases, "seed": rng.randrange(1 << 30)}


def _reinit_case(ctx, spec):
    from vlib.ds_harness import load_project_keyring, make_project, project_tables

    r = _Rng(spec["seed"])
    keys = {int(g): bytes.fromhex(k) for g, k in spec["keys"].items()}
    gas = sorted(keys)
    node = None
    counter = 2000  # every genuine frame of the case carries a counter above everything seen before
    delivered_before: dict[int, int] = {}
    for pi, phase in enumerate(spec["phases"]):
        project = make_project(keys, {int(a): n for a, n in phase["devices"].items()},
                               {gas[0]: phase["interface_senders"]} if phase["interface_senders"] else None)
        _, known = project_tables(project)
        keyring = load_project_keyring(project, r)
        if node is None:
            node = Node.from_keyring(keyring, own_address=0x00FE)
        else:
            node.reinit(keyring)
            ctx.count("reinitialisations")
        if node.ds is None:
            ctx.inconclusive("keyring with group keys gave no DataSecure instance")
            return
        for k in range(phase["frames"]):
            sa = r.choice(spec["ias"])
            counter += r.choice((1, 1, 3, 1000))
            ga = r.choice(gas)
            payload = group_payload(r, r.choice((1, 2, 5)))
            raw = auth_only_frame(keys[ga], Telegram(destination_address=GroupAddress(ga), payload=payload), sa, counter, auth_only=r.random() < 0.3)
            out = node.feed(raw)
            ctx.ev()
            is_known = sa in known
            dropped = pi > 0 and not is_known and sa in delivered_before
            ctx.count("reinit_frames")
            ctx.distinct(("reinit", pi, is_known, dropped, out.kind()))
            wit = {"spec": spec, "phase": pi, "frame": k, "sender": sa, "counter": counter, "known_in_this_phase": sorted(known),
                   "delivered_in_earlier_phase_with_counter": delivered_before.get(sa), "raw": raw, "outcome": out.kind()}
            if out.exc is not None:
                ctx.violation(f"receiver-raises-{type(out.exc).__name__}", wit, "receive path raised")
                return
            got = len(out.delivered)
            if got and not is_known:
                ctx.violation("frame-from-unknown-sender-delivered-after-reinitialisation" if pi else "frame-from-unknown-sender-delivered", wit,
                              f"phase {pi}: frame from {sa:#06x}, not in the tables of the keyring in force, was delivered"
                              + (" (known before the re-initialisation)" if dropped else ""))
                return
            if not got and is_known:
                ctx.violation("fresh-genuine-frame-dropped-after-reinitialisation" if pi else "fresh-genuine-frame-dropped", wit,
                              f"phase {pi}: genuine frame {counter} from known sender {sa:#06x} not delivered")
                return
            if got:
                ctx.count("reinit_delivered")
                delivered_before[sa] = counter
            else:
                ctx.count("reinit_unknown_rejected")
                if dropped:
                    ctx.count("reinit_dropped_sender_rejected")
    ctx.count("reinit_cases")


# ---------------------------------------------------------------------------
# outgoing direction

def _outgoing(ctx, loop, spec):
    k, extra, path = spec["k"], spec["extra"], spec["path"]
    start = SEQ_MAX + 1 - k if spec.get("start") is None else spec["start"]
    gas = spec["gas"]
    keys = {g: bytes.fromhex(spec["key"]) for g in gas}
    ctx.ev()
    ctx.count("outgoing_runs")
    try:
        node = Node(keys, {}, own_address=spec["sa"], last_seq_sending=start)
    except DataSecureError:
        if 0 < start <= SEQ_MAX:
            ctx.violation("constructor-refuses-valid-initial-counter", {"spec": spec}, f"DataSecure refuses initial counter {start}")
        else:
            ctx.count("constructor_refused_out_of_range")
            ctx.distinct(("out", "ctor-refused", k))
        return
    if not 0 < start <= SEQ_MAX:
        # accepted an out-of-range start (0 means 'use the clock'): only the frames decide
        ctx.count("constructor_accepted_nonpositive_or_clock")
    seen = []
    errors = 0
    receiver = Node(keys, {spec["sa"]: 0}, own_address=spec["sa"] ^ 1 or 2)
    for i in range(k + extra):
        telegram = Telegram(destination_address=GroupAddress(gas[i % len(gas)]), payload=group_payload(_Rng(i), 1 + i % 3))
        try:
            raw = node.secure_sync(telegram) if path == "sync" else loop.run(node.send(telegram), max_vtime=30)
        except DataSecureError:
            errors += 1
            ctx.count("exhaustion_errors")
            continue
        except Exception as exc:  # noqa: BLE001
            ctx.violation(f"outgoing-counter-exhaustion-raises-{type(exc).__name__}", {"spec": spec, "sent": seen, "exception": repr(exc)[:200]},
                          f"send number {i} from start {start} raised {type(exc).__name__} instead of DataSecureError")
            return
        if errors:
            ctx.violation("outgoing-frame-after-exhaustion", {"spec": spec, "sent": seen, "raw": raw},
                          f"a frame with counter {seq_of(raw)} left after the counter space was reported exhausted (wrap)")
            return
        n = seq_of(raw)
        if ref.split_ldata(raw)["body"][:6] != n.to_bytes(6, "big"):  # the field really is 6 octets at the expected place
            ctx.violation("sequence-number-field-misplaced", {"spec": spec, "raw": raw}, "sequence number field not at octets 12..17")
        if seen and not n > seen[-1]:
            ctx.violation("outgoing-counter-not-increasing", {"spec": spec, "sent": seen, "next": n},
                          f"outgoing counter {n} follows {seen[-1]}")
            return
        if n > SEQ_MAX or (not seen and spec.get("start") is not None and 0 < start <= SEQ_MAX and n != start):
            ctx.violation("outgoing-counter-unexpected-value", {"spec": spec, "sent": seen, "next": n}, f"first/next counter {n}")
            return
        seen.append(n)
        ctx.count("outgoing_frames")
        out = receiver.feed(raw)
        if len(out.delivered) == 1:
            ctx.count("outgoing_frames_accepted_by_receiver")
    expected_frames = k if spec.get("start") is None else None
    if expected_frames is not None:
        # start = 2^48 - k: exactly k counters (.., 2^48 - 1) exist; every further send must fail
        if len(seen) > expected_frames:
            ctx.violation("more-frames-than-counters-left", {"spec": spec, "sent": seen}, "more frames than counters below 2^48")
        elif len(seen) < expected_frames:
            ctx.count("stopped_before_last_counter")  # conservative early stop: recorded, not judged
        if errors == 0:
            ctx.violation("counter-exhaustion-not-reported", {"spec": spec, "sent": seen}, "no DataSecureError after the last counter")
    ctx.distinct(("out", path, k, len(seen), errors))
    if len(ctx.samples) < 5 and k:
        ctx.sample({"outgoing_start": start, "sent": seen, "errors_after": errors, "path": path})


# ---------------------------------------------------------------------------
# outgoing direction, observed at the wire (every frame handed to the interface)

OUTCOMES = ("ok", "ok", "ok", "slow", "fail_after", "fail_before", "noconf")


def _wire_spec(rng, near_top):
    ngas = rng.choice((1, 2, 3))
    gas = rng.sample(range(1, 0x10000), ngas + 1)
    nops = rng.randrange(6, 16)
    ops = []
    for _ in range(nops):
        ops.append({"path": rng.choice(("direct", "direct", "queue", "queue", "concurrent")),
                    "svc": rng.choice(("write", "write", "response", "read")),
                    "ga": rng.randrange(ngas + 1) if rng.random() < 0.15 else rng.randrange(ngas),  # index ngas = unkeyed
                    "val": rng.randrange(256), "long": rng.random() < 0.3})
    r = rng.random()
    if near_top:
        start = SEQ_MAX - rng.randrange(0, 8)
    else:
        start = rng.choice((1, 1000, 65535, (1 << 32) - 2, rng.randrange(1, SEQ_MAX - 1000)))
    if r < 0.15:
        outcomes = ["ok"]
    else:
        outcomes = [rng.choice(OUTCOMES) for _ in range(nops * 3)]
    return {"key": rng.randbytes(16).hex(), "gas": gas, "nkeyed": ngas, "sa": rng.randrange(2, 0xFFFF), "start": start,
            "ops": ops, "outcomes": outcomes}


def _telegram(op, gas):
    ga = GroupAddress(gas[op["ga"]])
    value = DPTArray((op["val"], 1, 2, 3, 4, 5, 6, 7, 8, 9, 10, 11, 12, 13)) if op["long"] else DPTBinary(op["val"] & 1)
    payload = {"write": GroupValueWrite(value), "response": GroupValueResponse(value), "read": GroupValueRead()}[op["svc"]]
    return Telegram(destination_address=ga, payload=payload, direction=TelegramDirection.OUTGOING)


async def _wire_scenario(spec, log):
    import asyncio

    gas = spec["gas"]
    keys = {g: bytes.fromhex(spec["key"]) for g in gas[: spec["nkeyed"]]}
    node = Node(keys, {}, own_address=spec["sa"], last_seq_sending=spec["start"])
    iface = ScriptedInterface(node.xknx, spec["outcomes"])
    node.use_interface(iface)
    xknx = node.xknx
    await xknx.telegram_queue.start()
    try:
        for i, op in enumerate(spec["ops"]):
            keyed = op["ga"] < spec["nkeyed"]
            before = len(iface.wire)
            if op["path"] == "queue":
                await xknx.telegrams.put(_telegram(op, gas))
                await xknx.telegrams.join()
                log.append((i, "queue", keyed, None, before, len(iface.wire)))
                continue
            tels = [_telegram(op, gas)]
            if op["path"] == "concurrent":
                tels.append(_telegram(dict(op, svc="read", ga=0), gas))
            res = await asyncio.gather(*(xknx.cemi_handler.send_telegram(t) for t in tels), return_exceptions=True)
            for t, r in zip(tels, res):
                k = t.destination_address.raw in keys
                log.append((i, op["path"], k, None if r is None else type(r).__name__, before, len(iface.wire)))
    finally:
        await xknx.telegram_queue.stop()
    return iface.wire


def _outgoing_wire(ctx, loop, spec):
    log = []
    ctx.ev()
    ctx.count("wire_runs")
    if not 0 < spec["start"] <= SEQ_MAX:
        return
    try:
        wire = loop.run(_wire_scenario(spec, log), max_vtime=10_000)
    except Exception as exc:  # noqa: BLE001 - Deadlock / LoopBudget / harness trouble: never a verdict
        ctx.inconclusive(f"outgoing wire scenario did not finish: {type(exc).__name__}")
        return
    keyed = set(spec["gas"][: spec["nkeyed"]])
    seqs = []  # (counter, outcome of that hand-off, raw)
    for raw, outcome in wire:
        ctx.count("wire_frames")
        ctx.count(f"wire_outcome_{outcome}")
        dst = int.from_bytes(raw[6:8], "big")
        if apci_of(raw) != 0x3F1:
            ctx.count("wire_plain_frames")  # plain to a keyed GA is C18's business
            continue
        ctx.count("wire_secured_frames")
        ctx.count("wire_secured_to_keyed" if dst in keyed else "wire_secured_to_unkeyed")
        seqs.append((seq_of(raw), outcome, raw))
    wit = {"spec": spec, "wire_counters": [n for n, _, _ in seqs], "wire_outcomes": [o for _, o, _ in seqs], "calls": log[:40]}
    for (a, oa, _), (b, ob, rawb) in zip(seqs, seqs[1:]):
        if not b > a:
            how = "reused" if b == a else "decreasing"
            ctx.violation(f"outgoing-counter-{how}-at-the-wire-after-{oa}-hand-off", dict(wit, first=a, second=b, frame=rawb),
                          f"two different secured frames left with counters {a} then {b} (the first hand-off ended '{oa}'); wire: {[n for n, _, _ in seqs][:12]}")
            return
    if seqs and seqs[0][0] != spec["start"]:
        ctx.count("first_wire_counter_differs_from_start")  # legitimate after a fail_before hand-off: recorded only
    # exhaustion: a direct send to a keyed GA made after the last counter left must fail with DataSecureError, nothing may follow
    errors = [e for e in log if e[3] == "DataSecureError"]
    ctx.count("wire_exhaustion_errors", len(errors))
    if seqs and seqs[-1][0] == SEQ_MAX:
        ctx.count("wire_runs_reaching_last_counter")
        last_index = max(i for i, (raw, _) in enumerate(wire) if apci_of(raw) == 0x3F1)
        for e in log:
            if e[2] and e[1] != "queue" and e[4] > last_index and e[3] != "DataSecureError":
                ctx.violation("send-after-last-counter-does-not-raise-DataSecureError", dict(wit, call=list(e)),
                              f"send_telegram to a keyed GA after counter 2^48-1 left ended with {e[3]!r}")
                return
    for e in log:
        if e[3] in ("OverflowError", "ValueError", "TypeError", "KeyError", "AttributeError"):
            ctx.violation(f"outgoing-send-raises-{e[3]}", dict(wit, call=list(e)), f"send_telegram raised {e[3]}")
            return
    ctx.distinct(("wire", "".join(o[0] + ("=" if o == "fail_after" else "") for _, o, _ in seqs), bool(errors)))
    if len(ctx.samples) < 7 and any(o == "fail_after" for _, o, _ in seqs):
        ctx.sample({"wire_counters": [n for n, _, _ in seqs], "hand_off_outcomes": [o for _, o, _ in seqs], "start": spec["start"]})


def run(ctx):
    rng = ctx.rng
    ctx.rule = (
        "receive: history = list of (sender, GA, counter, genuine|replay|reorder|forged(badmac/badbody/wrongkey/lifted counter/hand-written A_Sec with empty, 1..3 octet or shorter-than-MAC body)|arbitrary), "
        "distinct = string of (kind, delivered?) per event; outgoing: start = 2^48 - k, k = 0..6, k + 4 sends over 1..2 GAs by "
        "outgoing_cemi or send_telegram, plus random starts; wire runs: 6..15 sends (write/response/read, 1..3 keyed GAs + one unkeyed, "
        "direct / TelegramQueue / two concurrent send_telegram) against an interface with a scripted outcome per hand-off "
        "{ok, slow, CommunicationError after transmission, CommunicationError before, no confirmation}; the counters of ALL secured "
        "frames that reached the interface must be strictly increasing"
    )
    ctx.require("histories", "events_genuine", "events_replay", "events_reorder", "events_forged", "events_arbitrary", "delivered",
                "forged_rejected", "stale_rejected", "receiver_own_secured_sends", "reinit_cases", "reinitialisations", "reinit_delivered", "reinit_dropped_sender_rejected", "own_address_as_source_rejected", "replays_with_unprotected_bits_changed", "replays_with_repeat_flag_toggled", "garbage_secured_apdu_len_0", "garbage_secured_apdu_len_1", "garbage_secured_apdu_len_-1", "unknown_sender_rejected", "outgoing_runs", "outgoing_frames", "exhaustion_errors",
                "outgoing_frames_accepted_by_receiver", "wire_runs", "wire_secured_frames", "wire_outcome_ok", "wire_outcome_slow",
                "wire_outcome_fail_after", "wire_outcome_noconf", "wire_exhaustion_errors", "wire_runs_reaching_last_counter")
    loop = new_loop()
    try:
        with observing_management():
            for i in range(ctx.scale(1500, 60000)):
                hist = _history(rng)
                if ctx.mine(i):
                    _run_history(ctx, hist)
            j = 0
            for rep in range(ctx.scale(4, 100)):
                for k in range(0, 7):
                    for path in ("sync", "send"):
                        j += 1
                        spec = {"k": k, "extra": 4, "path": path, "sa": rng.randrange(2, 0xFFFF), "key": rng.randbytes(16).hex(),
                                "gas": rng.sample(range(1, 0x10000), rng.choice((1, 2)))}
                        if ctx.mine(j):
                            _outgoing(ctx, loop, spec)
                for _ in range(10):
                    j += 1
                    spec = {"k": 5, "extra": 0, "path": rng.choice(("sync", "send")), "sa": rng.randrange(2, 0xFFFF),
                            "key": rng.randbytes(16).hex(), "gas": rng.sample(range(1, 0x10000), 2),
                            "start": rng.choice((1, 255, 256, 65535, (1 << 32) - 1, (1 << 40) - 2, rng.randrange(1, SEQ_MAX - 10)))}
                    if ctx.mine(j):
                        _outgoing(ctx, loop, spec)
            for i in range(ctx.scale(12, 600)):
                spec = _reinit_spec(rng)
                if ctx.mine(i):
                    _reinit_case(ctx, spec)
            for i in range(ctx.scale(400, 20000)):
                spec = _wire_spec(rng, near_top=i % 4 == 3)
                if ctx.mine(i):
                    _outgoing_wire(ctx, loop, spec)
    finally:
        loop.finish()


def replay(ctx, witness):
    loop = new_loop()
    try:
        with observing_management():
            if "history" in witness:
                _run_history(ctx, witness["history"])
            elif "phases" in witness["spec"]:
                _reinit_case(ctx, witness["spec"])
            elif "outcomes" in witness["spec"]:
                _outgoing_wire(ctx, loop, witness["spec"])
            else:
                _outgoing(ctx, loop, witness["spec"])
    finally:
        loop.finish()
    ctx.distinct("replay")
    ctx.distinct("replay2")
