"""C44 address programming never creates an address conflict; serial-number procedures; two-step authorization."""

from __future__ import annotations

import asyncio
import itertools

from vlib.peers_mgmt import CemiLink, SimBus, SimDevice
from vlib.vloop import Deadlock, LoopBudget, new_loop
from xknx import XKNX
from xknx.exceptions import ManagementConnectionError
from xknx.management import procedures
from xknx.telegram import IndividualAddress

LEVEL = "fault_enumeration"
TECHNIQUE = (
    "runtime monitor: the real network/device management procedures (Management, P2PConnection, CEMIHandler) over a simulated KNX line on a "
    "virtual-time loop; oracle = ground truth of the bus model (who holds which address, who is in programming mode, what was broadcast)"
)
LEVEL_TEXT = (
    "All populations of 0..N devices (N=2 quick, 3 thorough) over address in {target, A, B} x programming mode x connection-oriented behaviour in "
    "{answer, refuse, silent} (up to 2 devices also over the faulty variants T_NAK, wrong T_ACK number, other service, ack only, late answer, wrong-numbered answer), each with bus latencies {same instant, 20 ms staggered, spread over 0.5..2.5 s} and, for answer/refuse/silent populations, answers delivered BEFORE the L_Data.con of the request (all devices, or only the first with the others 50 ms later; confirmation in the same call, one loop turn or 10 ms later); populations with a device that carries the interface's own individual address (0.0.0 by default, or an assigned 1.1.250), for the write and the serial procedures; sequences of 2 (thorough 3) procedure calls on the same XKNX (check / write / scan, then devices enter programming mode, then a write of the same or a free address) on all populations of 1..2 devices over 12 kinds; serial-number read/write on all populations of <= N devices "
    "over serial in {wanted, other} x chatty x address; dmp_authorize2_r_co on all 256 level pairs. Bounded exhaustive enumeration, hence fault_enumeration."
)
LEVEL_NOTE = (
    "Trusted: the bus model (devices answer A_IndividualAddress_Read only in programming mode, take a broadcast address only in programming mode, "
    "connection-oriented devices acknowledge and answer A_DeviceDescriptor_Read, refusing devices answer every connection-oriented frame with "
    "T_Disconnect), codecs, the virtual loop. Judged: an A_IndividualAddress_Write broadcast is seen only when exactly one device is in programming mode "
    "and no other device holds the address; every A_Restart goes to the target address; serial-number read returns the address of the device with that "
    "serial or None, serial-number write succeeds only if that device answered with the new address; dmp_authorize2_r_co == min(free, key). A holder whose "
    "A_DeviceDescriptor_Read probe ends in the timeout (silent, acknowledges only, answers late or with a wrong number) is judged under its own "
    "mechanism (`...unresponsive-device...`): the KNX address check reads that timeout as a free address. Not judged (recorded): connections left in Management._connections after a procedure, a write that repeats the address the programmed device already shares with another device (pre-existing conflict, nobody's address changes), whether the procedure reports success, exceptions raised in the receive path (C43)."
)
SHARDS = {"quick": 1, "thorough": 16}
TIMEOUT = {"quick": 300, "thorough": 3000}

TARGET = "1.1.10"
ADDRS = (TARGET, "1.1.20", "1.1.30")
CO = ("answer", "refuse", "silent")
#: faulty connection-oriented devices (vlib.peers_mgmt.SimBus._p2p): they are present and prove it on the transport layer
CO_FAULTY = ("nak", "ack_wrong_number", "other_service", "ack_only", "late", "wrong_number_answer")
#: holders whose address probe ends in the procedure's timeout (no A_DeviceDescriptor_Response / T_Disconnect in time)
PROBE_TIMES_OUT = ("silent", "ack_only", "late", "wrong_number_answer")
LATENCIES = (0.0, 0.02, "spread")  # spread: device i answers after 0.5 + i s, inside the 3 s the procedures wait
#: answers delivered before the confirmation of the request (a TCP tunnel hands both over in one chunk), all devices or only the first
EARLY_MODES = tuple(f"{who}/{con}" for who in ("early", "mixed") for con in ("ok", "soon", "0.01"))
SERIAL = bytes.fromhex("00fa12345678")
OTHER_SERIAL = bytes.fromhex("00fa0000beef")


def _run(loop, coro_fn, devices, latency, holder=None, own="1.1.1"):
    xknx = XKNX()
    link = CemiLink(xknx, loop, own_address=own)
    if latency == "spread":
        bus = SimBus(link, devices, latency=0.5, stagger=1.0)
    elif isinstance(latency, str):
        # "early/<con>": every device answers before the L_Data.con of the request reaches xknx; "mixed/<con>": only device 0 does,
        # the others answer 50 ms later; <con> = ok (same call) | soon (one loop turn) | seconds
        who, con = latency.split("/")
        con = con if con in ("ok", "soon") else float(con)
        bus = SimBus(link, devices, latency=0.05, con=con, early=(lambda d: True) if who == "early" else (lambda d: d.index == 0))
    else:
        bus = SimBus(link, devices, latency=latency)
    out = {"harness": None}
    if holder is not None:
        holder["bus"] = bus

    async def main():
        try:
            out["result"] = await coro_fn(xknx)
            out["outcome"] = "returned"
        except ManagementConnectionError as exc:
            out["outcome"] = type(exc).__name__
            out["exception"] = str(exc)[:120]
        except BaseException as exc:  # noqa: BLE001
            out["outcome"] = "other:" + type(exc).__name__
            out["exception"] = repr(exc)[:160]
        await asyncio.sleep(5)

    try:
        loop.run(main(), max_vtime=3000)
    except Deadlock:
        out["harness"] = "deadlock"
    except LoopBudget:
        out["harness"] = "budget"
    finally:
        link.restore()
    out["loop_exceptions"] = list(loop.exceptions)
    loop.finish()
    asyncio.set_event_loop(None)
    out.update(bus=bus, link=link)
    out["early_answers"] = sum(1 for e in link.log if e[0] == "rx" and e[1].get("early"))
    out["early_broadcast_answers"] = sum(1 for e in link.log if e[0] == "rx" and e[1].get("early") and e[1]["tpci"] == "TDataBroadcast")
    return out


def _pop_witness(case, out, **more):
    bus = out["bus"]
    w = {
        "case": case,
        "outcome": out.get("outcome"),
        "exception": out.get("exception"),
        "broadcasts": [(b["time"], b["apci"], repr(b["payload"])[:80]) for b in bus.broadcasts],
        "point_to_point": [(p["time"], p["dst"], p["tpci"], p["seq"], p["apci"]) for p in bus.p2p][:40],
        "devices_after": [d.snapshot() for d in bus.devices],
        "receive_path_exceptions": out["link"].rx_exceptions[:3],
    }
    w.update(more)
    return w


def _judge_write_broadcasts(ctx, case, out, before, writes, prefix=""):
    """Every A_IndividualAddress_Write against the bus truth recorded when it was broadcast."""
    for b in writes:
        ctx.count("address_write_broadcasts")
        state = b["state"]
        prog = [i for i, d in enumerate(state) if d["prog"]]
        written = str(b["payload"].address)
        holders = [i for i, d in enumerate(state) if d["address"] == written and i not in prog[:1]]
        if len(prog) != 1:
            how = "no" if not prog else "several"
            ctx.violation(f"{prefix}address-written-with-{how}-device-in-programming-mode", _pop_witness(case, out, before=before),
                          f"A_IndividualAddress_Write({written}) was broadcast while {len(prog)} devices were in programming mode")
        elif holders and state[prog[0]]["address"] == written:
            # the device being programmed already had this address and shares it with the holder(s): both answer every probe
            # together, and the write changes nobody's address - no conflict is created that was not there. Recorded.
            ctx.count("write_repeats_address_on_preexisting_conflict")
        elif holders:
            kinds = sorted({state[i]["co"] for i in holders})
            for k in kinds:
                ctx.count(f"write_with_holder_{k}")
            detectable = [k for k in kinds if k not in PROBE_TIMES_OUT]
            if not detectable:
                # every holder lets the A_DeviceDescriptor_Read probe run into the timeout the KNX procedure reads as "free"
                mech = "address-written-while-unresponsive-device-holds-it"
            else:
                names = {"answer": "answering", "refuse": "refusing", "nak": "T_NAK-sending", "ack_wrong_number": "wrongly-acknowledging",
                         "other_service": "other-service-answering"}
                mech = f"address-written-while-{'-or-'.join(names[k] for k in detectable)}-device-holds-it"
            ctx.violation(mech if "unresponsive" in mech else prefix + mech, _pop_witness(case, out, before=before, holders=holders),
                          f"A_IndividualAddress_Write({written}) was broadcast although device(s) {holders} ({kinds}) already use that address")
        else:
            ctx.count("address_write_justified")


def address_write_case(ctx, case):
    """One population against nm_individual_address_write."""
    own = case.get("own", "1.1.1")  # the interface's own individual address; a device may (wrongly) carry the same one: "OWN"
    devices = [SimDevice(i, own if a == "OWN" else a, bool(p), co, bytes([0, 0xFA, 0, 0, 0, i + 1])) for i, (a, p, co) in enumerate(case["devices"])]
    before = [d.snapshot() for d in devices]
    if any(a == "OWN" for a, _p, _co in case["devices"]):
        ctx.count("populations_with_a_device_at_the_interface_address")
        if any(a == "OWN" and p for a, p, _co in case["devices"]):
            ctx.count("programming_mode_device_at_the_interface_address")
    for d in before:
        if d["address"] == TARGET and not d["prog"]:
            ctx.count(f"target_address_held_by_{d['co']}_device")
    loop = new_loop()
    held = case.get("held")
    prefix = ""
    if held is None:
        body = lambda x: procedures.nm_individual_address_write(x, TARGET)  # noqa: E731
    else:
        # the application keeps its own point-to-point connection to device `held` open while the procedure runs
        # (same XKNX / Management object); the bus truth and the rules are the same
        prefix = "while-connection-to-a-device-is-held-open-"
        held_address = devices[held].address
        ctx.count("write_procedures_with_a_held_open_connection")
        if devices[held].prog:
            ctx.count("held_open_connection_to_a_programming_mode_device")

        async def body(x):
            async with x.management.connection(address=IndividualAddress(held_address)):
                return await procedures.nm_individual_address_write(x, TARGET)
    out = _run(loop, body, devices, case["latency"], own=own)
    ctx.ev()
    bus = out["bus"]
    if out["harness"]:
        ctx.violation(f"address-write-does-not-terminate-{out['harness']}", _pop_witness(case, out), "nm_individual_address_write did not finish on the virtual clock")
        return out
    ctx.count(f"write_procedure_{out['outcome'].split(':')[0]}")
    if out["early_answers"]:
        ctx.count("answers_delivered_before_confirmation", out["early_answers"])
        ctx.count("programming_mode_answers_before_confirmation", out["early_broadcast_answers"])
    if out["outcome"].startswith("other:"):
        ctx.count("procedure_raised_other_than_management_error")
    if out["link"].rx_exceptions:
        ctx.count("receive_path_exceptions_seen_not_judged_here", len(out["link"].rx_exceptions))
    writes = [b for b in bus.broadcasts if b["apci"] == "IndividualAddressWrite"]
    ctx.count("address_read_broadcasts", sum(1 for b in bus.broadcasts if b["apci"] == "IndividualAddressRead"))
    _judge_write_broadcasts(ctx, case, out, before, writes, prefix)
    if not writes:
        ctx.count("no_address_write")
    # conflicts created (ground truth after vs before)
    def conflicts(snap):
        seen = {}
        for d in snap:
            seen[d["address"]] = seen.get(d["address"], 0) + 1
        return {a: n for a, n in seen.items() if n > 1}
    after = [d.snapshot() for d in bus.devices]
    cb, ca = conflicts(before), conflicts(after)
    new_conf = {a: n for a, n in ca.items() if n > cb.get(a, 0)}
    if new_conf:
        ctx.count("address_conflicts_created")  # each is already reported through the write rule above
        if not writes:
            ctx.violation("address-conflict-without-address-write", _pop_witness(case, out, before=before), f"new conflict {new_conf} without a write broadcast")
    for p in bus.p2p:
        if p["apci"] == "Restart":
            ctx.count("restarts_sent")
            if p["dst"] != TARGET:
                ctx.violation("restart-sent-to-another-address", _pop_witness(case, out, before=before),
                              f"A_Restart was sent to {p['dst']}, not to the programmed address {TARGET}")
            else:
                ctx.count("restart_to_target")
    if out["outcome"] == "returned":
        ctx.count("write_procedure_success")
    ctx.distinct(("aw", tuple(sorted(case["devices"])), case["latency"], case.get("own"), out["outcome"], len(writes), held))
    return out


FREE = "1.1.40"


def sequence_case(ctx, case):
    """Two or three procedure calls on the SAME XKNX / Management against a bus that changes between the calls."""
    devices = [SimDevice(i, a, bool(p), co, bytes([0, 0xFA, 0, 0, 0, i + 1])) for i, (a, p, co) in enumerate(case["devices"])]
    before = [d.snapshot() for d in devices]
    steps = []
    holder = {}

    async def body(xknx):
        bus = holder["bus"]
        for step in case["steps"]:
            for idx, change in (step.get("change") or {}).items():
                for key, val in change.items():
                    setattr(devices[int(idx)], key, bool(val) if key == "prog" else val)
            rec = {"op": step["op"], "target": step["target"], "b0": len(bus.broadcasts), "p0": len(bus.p2p),
                   "truth": [d.snapshot() for d in devices]}
            try:
                if step["op"] == "check":
                    rec["result"] = await procedures.nm_individual_address_check(xknx, step["target"])
                elif step["op"] == "scan":
                    rec["result"] = [str(a) for a in await procedures.nm_individual_address_read(xknx)]
                else:
                    await procedures.nm_individual_address_write(xknx, step["target"])
                rec["outcome"] = "returned"
            except ManagementConnectionError as exc:
                rec["outcome"] = type(exc).__name__
            except BaseException as exc:  # noqa: BLE001
                rec["outcome"] = "other:" + type(exc).__name__
            rec["b1"], rec["p1"] = len(bus.broadcasts), len(bus.p2p)
            rec["connections_left"] = len(getattr(xknx.management, "_connections", {}))  # recorded only
            steps.append(rec)
            await asyncio.sleep(1.0)

    loop = new_loop()
    out = _run(loop, body, devices, case["latency"], holder=holder)
    ctx.ev()
    bus = out["bus"]
    if out["harness"]:
        ctx.violation(f"procedure-sequence-does-not-terminate-{out['harness']}", _pop_witness(case, out), "the sequence of procedure calls did not finish")
        return out
    ctx.count("procedure_sequences")
    for k, rec in enumerate(steps):
        ctx.count(f"sequence_step_{rec['op']}_{rec['outcome'].split(':')[0]}")
        if rec["connections_left"]:
            ctx.count("connections_left_registered_after_a_procedure")
        writes = [b for b in bus.broadcasts[rec["b0"]:rec["b1"]] if b["apci"] == "IndividualAddressWrite"]
        wcase = dict(case, step=k)
        if k:
            ctx.count("later_calls_on_the_same_xknx")
        for b in writes:
            if str(b["payload"].address) != rec["target"] or rec["op"] != "write":
                ctx.violation("address-write-broadcast-by-another-call-or-for-another-address", _pop_witness(wcase, out, before=before, steps=steps),
                              f"step {k} ({rec['op']} {rec['target']}) broadcast {b['payload']!r}")
        _judge_write_broadcasts(ctx, wcase, out, before, writes, prefix="later-call-on-the-same-xknx-" if k else "")
        if k and writes:
            ctx.count("address_writes_by_later_calls")
        for p in bus.p2p[rec["p0"]:rec["p1"]]:
            if p["apci"] == "Restart":
                ctx.count("restarts_sent")
                if p["dst"] != rec["target"] or rec["op"] != "write":
                    ctx.violation("restart-sent-to-another-address", _pop_witness(wcase, out, before=before, steps=steps),
                                  f"step {k}: A_Restart was sent to {p['dst']}, the call programs {rec['target']}")
                else:
                    ctx.count("restart_to_target")
        if rec["op"] == "scan" and rec["outcome"] == "returned":
            truth = sorted(d["address"] for d in rec["truth"] if d["prog"])
            if sorted(rec["result"]) != truth:
                ctx.count("programming_mode_scan_differs_from_bus_truth")  # recorded: the statement speaks about the write
    ctx.distinct(("seq", tuple(map(tuple, case["devices"])), repr(case["steps"]), tuple(r["outcome"] for r in steps)))
    return out


def serial_case(ctx, case):
    """Serial-number read and write on one population."""
    own = case.get("own", "1.1.1")
    devices = [SimDevice(i, own if a == "OWN" else a, False, "answer", SERIAL if mine else OTHER_SERIAL[:-1] + bytes([i + 1]), chatty=bool(ch))
               for i, (a, mine, ch) in enumerate(case["devices"])]
    if any(a == "OWN" and mine for a, mine, _ch in case["devices"]):
        ctx.count("serial_owner_at_the_interface_address")
    owner = [d for d in devices if d.serial == SERIAL]
    for op in ("read", "write"):
        devs = [SimDevice(d.index, str(d.address), False, "answer", d.serial, chatty=d.chatty) for d in devices]
        loop = new_loop()
        if op == "read":
            out = _run(loop, lambda x: procedures.nm_individual_address_serial_number_read(x, SERIAL), devs, case["latency"], own=own)
        else:
            out = _run(loop, lambda x: procedures.nm_individual_address_serial_number_write(x, SERIAL, TARGET), devs, case["latency"], own=own)
        ctx.ev()
        w = lambda **m: _pop_witness(dict(case, op=op), out, **m)  # noqa: E731
        if out["harness"]:
            ctx.violation(f"serial-{op}-does-not-terminate", w(), f"serial number {op} did not finish")
            continue
        ctx.count(f"serial_{op}_{out['outcome'].split(':')[0]}")
        if out["early_broadcast_answers"]:
            ctx.count("serial_answers_before_confirmation", out["early_broadcast_answers"])
        mine = [d for d in out["bus"].devices if d.serial == SERIAL]
        others_answering = [d for d in out["bus"].devices if d.serial != SERIAL and d.chatty]
        if others_answering:
            ctx.count("serial_cases_with_foreign_responses")
        if op == "read":
            if out["outcome"] != "returned":
                ctx.count("serial_read_raised")
                continue
            res = out["result"]
            want = {str(d.address) for d in mine}
            if res is None:
                if mine:
                    ctx.violation("serial-read-misses-the-answer-of-the-requested-serial", w(), f"device with the serial answered from {want}, procedure returned None")
                else:
                    ctx.count("serial_read_none_ok")
            elif str(res) not in want:
                ctx.violation("serial-read-returns-address-of-a-response-with-another-serial", w(result=str(res)),
                              f"serial number read returned {res}, the device with that serial is at {sorted(want) or 'nowhere'}")
            else:
                ctx.count("serial_read_address_ok")
        else:
            swrites = [b for b in out["bus"].broadcasts if b["apci"] == "IndividualAddressSerialWrite"]
            for b in swrites:
                if b["payload"].serial != SERIAL or str(b["payload"].address) != TARGET:
                    ctx.violation("serial-write-broadcasts-other-serial-or-address", w(), f"broadcast {b['payload']!r}")
            if out["outcome"] == "returned":
                if not mine or any(str(d.address) != TARGET for d in mine):
                    ctx.violation("serial-write-succeeds-on-a-response-with-another-serial", w(),
                                  "serial number write reported success although the device with that serial did not confirm the new address")
                else:
                    ctx.count("serial_write_verified_ok")
            else:
                ctx.count("serial_write_failed")
                if mine and all(str(d.address) == TARGET for d in mine) and out["outcome"] != "returned":
                    ctx.count("serial_write_failed_although_device_confirmed")  # recorded
        ctx.distinct(("sn", op, tuple(case["devices"]), case["latency"], out["outcome"], str(out.get("result"))))
    del owner


def authorize_all(ctx, latency):
    """dmp_authorize2_r_co for every (free level, key level) pair on one connection each 16 pairs."""
    key = 0x11223344
    for free in range(16):
        results = {}
        dev = SimDevice(0, TARGET, False, "answer", SERIAL, levels=(free, 0), client_key=key)
        loop = new_loop()

        async def body(xknx, dev=dev, results=results):
            async with xknx.management.connection(IndividualAddress(TARGET), rate_limit=0) as conn:
                for lvl in range(16):
                    dev.levels = (free, lvl)
                    results[lvl] = await procedures.dmp_authorize2_r_co(conn, key)
                results["plain"] = await procedures.dmp_authorize_r_co(conn, key)
                results["dd0"] = await procedures.dmp_connect_r_co(conn)

        out = _run(loop, body, [dev], latency)
        ctx.ev()
        if out["harness"] or out["outcome"] != "returned":
            ctx.violation("authorize-run-fails-on-a-clean-device", {"free": free, "outcome": out.get("outcome"), "exception": out.get("exception"), "harness": out["harness"],
                                                                   "partial": {str(k): v for k, v in results.items()}},
                          f"authorization run with free level {free} failed: {out.get('outcome')} {out.get('exception')}")
            continue
        for lvl in range(16):
            ctx.count("authorize_pairs")
            got = results.get(lvl)
            if got != min(free, lvl):
                ctx.violation("authorize2-does-not-return-the-better-level", {"free_level": free, "key_level": lvl, "returned": got, "latency": latency},
                              f"dmp_authorize2_r_co returned {got} for free level {free} and key level {lvl}; the better one is {min(free, lvl)}")
            ctx.distinct(("auth", free, lvl, got))
        if results.get("plain") != 15 or results.get("dd0") != 0x07B0:
            ctx.violation("authorize-or-connect-procedure-returns-wrong-value", {"results": {str(k): v for k, v in results.items()}},
                          "dmp_authorize_r_co / dmp_connect_r_co returned something else than the device sent")


def run(ctx):
    max_dev = ctx.scale(2, 3)
    ctx.rule = (
        "address write: all ordered populations of 0..N devices over (address in {target,A,B}) x (programming mode) x (answer|refuse|silent) x latency in "
        "{0, 0.02 staggered, spread 0.5+i s}; the same for 1..2 devices with a connection of the application held open to an answering device during the write; serial procedures: all populations of 0..N devices over (address) x (has the wanted serial) x (answers foreign reads) x latency; "
        "authorization: all 16x16 level pairs; distinct = (procedure, population, latency, outcome)"
    )
    ctx.require("address_write_broadcasts", "address_write_justified", "no_address_write", "restart_to_target", "write_procedure_success",
                "serial_read_address_ok", "serial_read_none_ok", "serial_write_verified_ok", "serial_write_failed",
                "serial_cases_with_foreign_responses", "authorize_pairs", "answers_delivered_before_confirmation",
                "programming_mode_answers_before_confirmation", "serial_answers_before_confirmation",
                "procedure_sequences", "later_calls_on_the_same_xknx", "address_writes_by_later_calls",
                "programming_mode_device_at_the_interface_address", "serial_owner_at_the_interface_address",
                "write_procedures_with_a_held_open_connection", "held_open_connection_to_a_programming_mode_device",
                *(f"target_address_held_by_{co}_device" for co in CO + CO_FAULTY))
    n = 0
    one = list(itertools.product(ADDRS, (0, 1), CO))
    full = list(itertools.product(ADDRS, (0, 1), CO + CO_FAULTY))
    pops = []
    for k in range(max_dev + 1):
        # up to 2 devices: all 9 behaviours; the third device (thorough) only over answer/refuse/silent
        for pop in itertools.product(full if k <= 2 else one, repeat=k):
            pops.append(pop)
    if True:
        for pop in pops:
            base_only = all(d[2] in CO for d in pop)
            for lat in LATENCIES + (EARLY_MODES if base_only else ()):
                n += 1
                if not ctx.mine(n):
                    continue
                case = {"devices": [list(d) for d in pop], "latency": lat}
                out = address_write_case(ctx, case)
                if n in (2, 40, 400):
                    ctx.sample({"case": case, "outcome": out.get("outcome"),
                                "broadcasts": [b["apci"] for b in out["bus"].broadcasts]})
    if ctx.shard == 0:
        ctx.extra["address_write_populations"] = n
    # a device carrying the interface's own individual address (the default 0.0.0 or an assigned tunnel address)
    own_kinds = list(itertools.product((TARGET, ADDRS[1], "OWN"), (0, 1), CO))
    for own in ("0.0.0", "1.1.250"):
        for k in range(1, 3):
            for pop in itertools.product(own_kinds, repeat=k):
                if not any(d[0] == "OWN" for d in pop):
                    continue
                n += 1
                if ctx.mine(n):
                    address_write_case(ctx, {"devices": [list(d) for d in pop], "latency": 0.02, "own": own})
        for k in range(1, 3):
            for pop in itertools.product(list(itertools.product((ADDRS[1], "OWN"), (0, 1), (0, 1))), repeat=k):
                if sum(1 for d in pop if d[1]) > 1 or not any(d[0] == "OWN" for d in pop):
                    continue
                n += 1
                if ctx.mine(n):
                    serial_case(ctx, {"devices": [list(d) for d in pop], "latency": 0.02, "own": own})
    # the application holds its own connection to one (answering, not TARGET-addressed) device open during the write procedure
    for k in range(1, 3):
        for pop in itertools.product(list(itertools.product(ADDRS, (0, 1), CO)), repeat=k):
            for held in range(k):
                if pop[held][2] != "answer" or pop[held][0] == TARGET:
                    continue
                for lat in (0.02, "spread"):
                    n += 1
                    if ctx.mine(n):
                        address_write_case(ctx, {"devices": [list(d) for d in pop], "latency": lat, "held": held})
    # sequences of calls on the same XKNX: first call (check / write of TARGET / scan), then some devices enter programming mode,
    # then a write of TARGET or of a free address
    kinds2 = list(itertools.product(ADDRS[:2], (0, 1), CO))
    q = 0
    for k in range(1, 3):
        for pop in itertools.product(kinds2, repeat=k):
            for first in ("check", "write", "scan"):
                for enter in itertools.product((0, 1), repeat=k):
                    for target2 in (TARGET, FREE):
                        n += 1
                        q += 1
                        if not ctx.mine(n):
                            continue
                        change = {str(i): {"prog": 1} for i, e in enumerate(enter) if e}
                        steps = [{"op": first, "target": TARGET}, {"op": "write", "target": target2, "change": change}]
                        if not ctx.quick:
                            steps.append({"op": "write", "target": FREE if target2 == TARGET else TARGET,
                                          "change": {str(i): {"prog": 1} for i in range(k)}})
                        sequence_case(ctx, {"devices": [list(d) for d in pop], "latency": 0.02, "steps": steps})
    if ctx.shard == 0:
        ctx.extra["procedure_sequences"] = q
    sone = list(itertools.product(ADDRS[:2], (0, 1), (0, 1)))
    m = 0
    for k in range(max_dev + 1):
        for pop in itertools.product(sone, repeat=k):
            if sum(1 for d in pop if d[1]) > 1:
                continue  # serial numbers are unique
            for lat in LATENCIES[:2] + EARLY_MODES:
                m += 1
                n += 1
                if not ctx.mine(n):
                    continue
                serial_case(ctx, {"devices": [list(d) for d in pop], "latency": lat})
    if ctx.shard == 0:
        ctx.extra["serial_populations"] = m
    for i, lat in enumerate(LATENCIES[:2]):
        n += 1
        if ctx.mine(n):
            authorize_all(ctx, lat)
    ctx.exhaustive = True
    ctx.extra["exhaustive_part"] = f"populations of 0..{max_dev} devices (54 device kinds up to 2 devices, 18 for the third) x 3 latencies; serial populations 0..{max_dev} (8 kinds, unique serial) x 2 latencies; 256 level pairs x 2 latencies"


def replay(ctx, witness):
    ctx.rule = "replay of one recorded case"
    case = witness.get("case")
    if case is None:
        authorize_all(ctx, witness.get("latency", 0.02))
    elif "steps" in case:
        case.pop("step", None)
        sequence_case(ctx, case)
    elif "op" in case:
        serial_case(ctx, {"devices": case["devices"], "latency": case["latency"]})
    else:
        address_write_case(ctx, case)
    ctx.distinct("replay-a")
    ctx.distinct("replay-b")
