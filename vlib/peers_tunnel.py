"""Scripted KNXnet/IP gateway for the virtual loop (UDP and TCP tunnels, device management).

The gateway sits *below* the real xknx transports: it is installed as
`loop.on_send`, parses every frame xknx writes to a fake transport, answers
according to per-request policies and can send frames of its own.  Everything
that crosses the wire is appended, in order, to `gw.log` together with whatever
the check itself notes (`gw.note`), so that an oracle reads one chronological
history.

Nothing here is a model of xknx: it is the *peer*.  Policies are plain callables
so that a check can script "the n-th TunnellingRequest gets a stale ACK".
"""

from __future__ import annotations

from collections.abc import Callable, Iterator
import contextlib
import functools
import random
from typing import Any

from xknx.cemi import CEMIFrame, CEMILData, CEMIMessageCode
from xknx.dpt import DPTArray
from xknx.knxip import (
    HPAI,
    ConnectionStateRequest,
    ConnectionStateResponse,
    ConnectRequest,
    ConnectRequestType,
    ConnectResponse,
    ConnectResponseData,
    DeviceConfigurationAck,
    DeviceConfigurationRequest,
    DisconnectRequest,
    DisconnectResponse,
    ErrorCode,
    HostProtocol,
    KNXIPFrame,
    TunnellingAck,
    TunnellingRequest,
)
from xknx.telegram import GroupAddress, IndividualAddress, Telegram
from xknx.telegram.apci import GroupValueWrite

from .vloop import FakeDatagramTransport, FakeStreamTransport, VLoop

GATEWAY_ADDR = ("10.0.0.2", 3671)

# ACK behaviours for one received TunnellingRequest transmission:
# list of (delay or None for the gateway latency, channel delta, counter delta, status)
ACK_BEHAVIOURS: dict[str, list[tuple[float | None, int, int, Any]]] = {
    "ok": [(None, 0, 0, ErrorCode.E_NO_ERROR)],
    "lost": [],
    "late": [(1.5, 0, 0, ErrorCode.E_NO_ERROR)],
    "dup": [(None, 0, 0, ErrorCode.E_NO_ERROR), (0.02, 0, 0, ErrorCode.E_NO_ERROR)],
    "stale": [(None, 0, -1, ErrorCode.E_NO_ERROR)],
    "wrongch": [(None, 1, 0, ErrorCode.E_NO_ERROR)],
    "err": [(None, 0, 0, ErrorCode.E_CONNECTION_ID)],
    # right channel and counter, but a status octet that is NOT 0x00 and not a member of ErrorCode (an int = raw bytes)
    "raw30": [(None, 0, 0, 0x30)],
    "raw7f": [(None, 0, 0, 0x7F)],
    "rawff": [(None, 0, 0, 0xFF)],
}


class RawFrame:
    """Bytes the xknx frame classes cannot produce (e.g. a status octet outside ErrorCode), with their description."""

    def __init__(self, data: bytes, **info: Any) -> None:
        self.data = data
        self.info = info


def raw_status_frame(service: int, channel: int, *rest: int) -> bytes:
    """header | channel | further octets (TunnellingAck: 0x04 ch seq status is built by raw_ack)."""
    body = bytes((channel & 0xFF, *rest))
    return bytes((0x06, 0x10, service >> 8, service & 0xFF)) + (6 + len(body)).to_bytes(2, "big") + body


def raw_ack(channel: int, seq: int, status: int) -> bytes:
    """A TunnellingAck with an arbitrary status octet."""
    body = bytes((0x04, channel & 0xFF, seq & 0xFF, status & 0xFF))
    return bytes((0x06, 0x10, 0x04, 0x21, 0x00, 0x0A)) + body


def frame_bytes(body: Any) -> bytes:
    """Serialise a KNXnet/IP body into a complete frame."""
    if isinstance(body, RawFrame):
        return body.data
    return KNXIPFrame.init_from_body(body).to_knx()


def make_cemi(tag: int, code: CEMIMessageCode = CEMIMessageCode.L_DATA_REQ) -> CEMIFrame:
    """An L_Data frame whose payload carries a unique 3-octet tag."""
    tg = Telegram(
        destination_address=GroupAddress("1/2/3"),
        payload=GroupValueWrite(DPTArray(((tag >> 16) & 0xFF, (tag >> 8) & 0xFF, tag & 0xFF))),
    )
    return CEMIFrame(code=code, data=CEMILData.init_from_telegram(tg, src_addr=IndividualAddress("1.1.9")))


def tag_of(raw_cemi: bytes) -> int:
    """Tag carried by a frame built by `make_cemi`."""
    return int.from_bytes(raw_cemi[-3:], "big")


def describe(body: Any) -> dict[str, Any]:
    """Flat, JSON-friendly description of a KNXnet/IP body."""
    if isinstance(body, RawFrame):
        return dict(body.info)
    d: dict[str, Any] = {"type": type(body).__name__}
    if isinstance(body, ConnectRequest):
        d["ctype"] = body.cri.connection_type.name
    elif isinstance(body, ConnectResponse):
        d["ch"] = body.communication_channel
        d["status"] = body.status_code.name
        d["data_endpoint"] = None if body.data_endpoint.route_back else [body.data_endpoint.ip_addr, body.data_endpoint.port]
    elif isinstance(body, (TunnellingRequest, DeviceConfigurationRequest)):
        d["ch"] = body.communication_channel_id
        d["seq"] = body.sequence_counter
        d["cemi"] = body.raw_cemi.hex()
    elif isinstance(body, (TunnellingAck, DeviceConfigurationAck)):
        d["ch"] = body.communication_channel_id
        d["seq"] = body.sequence_counter
        d["status"] = body.status_code.name
    elif isinstance(body, (ConnectionStateRequest, DisconnectRequest)):
        d["ch"] = body.communication_channel_id
    elif isinstance(body, (ConnectionStateResponse, DisconnectResponse)):
        d["ch"] = body.communication_channel_id
        d["status"] = body.status_code.name
    return d


class Gateway:
    """Scripted tunnelling / device-management server."""

    def __init__(self, loop: VLoop, latency: float = 0.005, first_channel: int = 10) -> None:
        self.loop = loop
        self.latency = latency
        self.next_channel = first_channel
        self.first_channel = first_channel
        self.channel_policy = "increasing"  # | "constant" | "recycled"
        self.channel: int | None = None  # connection the server regards as open
        self.transport: Any = None  # the client endpoint that connection lives on
        self.conn_type: ConnectRequestType | None = None
        self.log: list[tuple[float, str, dict[str, Any]]] = []
        self.listeners: list[Callable[[float, str, dict[str, Any]], None]] = []
        self.transports: list[Any] = []
        # policies: fn(n, body) with n = running index of that request kind
        self.connect_policy: Callable[[int, Any], Any] = lambda n, b: "ok"
        self.hb_policy: Callable[[int, Any], Any] = lambda n, b: "ok"
        self.disc_policy: Callable[[int, Any], Any] = lambda n, b: "ok"
        self.ack_policy: Callable[[int, Any], Any] = lambda n, b: "ok"
        self.n_connect = 0
        self.n_hb = 0
        self.n_disc = 0
        self.n_treq = 0
        self.connects_ok_delivered = 0
        self.open_channel: int | None = None  # channel whose ConnectResponse has been delivered
        self.data_endpoint_route_back = False
        self.after_connect_response: Callable[[], None] | None = None
        self.receive_path_exceptions: list[tuple[float, str, str, str]] = []
        self.data_endpoint: tuple[str, int] | None = None  # announced in the last ConnectResponse (UDP)
        loop.on_send = self._on_send

    @property
    def is_open(self) -> bool:
        """The server regards the connection as open AND the client has been told so."""
        return self.channel is not None and self.open_channel == self.channel

    # -- history ----------------------------------------------------------
    def note(self, kind: str, **info: Any) -> None:
        """Append an event (wire or check-side) to the chronological history."""
        t = self.loop.time()
        self.log.append((t, kind, info))
        for fn in self.listeners:
            fn(t, kind, info)

    def tr_index(self, tr: Any) -> int:
        if tr not in self.transports:
            self.transports.append(tr)
        return self.transports.index(tr)

    # -- towards the client -------------------------------------------------
    def send_body(self, body: Any, delay: float | None = None, tr: Any = None, **meta: Any) -> None:
        """Deliver `body` to the client: now (delay None) or after `delay` virtual seconds."""
        tr = tr if tr is not None else self.transport
        if tr is None:
            self.note("rx_dropped", **describe(body), why="no transport")
            return
        data = frame_bytes(body)
        if delay is None:
            self._deliver(tr, body, data, meta)
        else:
            self.loop.call_later(delay, self._deliver, tr, body, data, meta)

    def _deliver(self, tr: Any, body: Any, data: bytes, meta: dict[str, Any]) -> None:
        info = describe(body)
        info.update(meta)
        info["tr"] = self.tr_index(tr)
        if tr.closed:
            self.note("rx_dropped", **info, why="closed")
            return
        if isinstance(body, ConnectResponse) and body.status_code is ErrorCode.E_NO_ERROR:
            self.connects_ok_delivered += 1
            self.open_channel = body.communication_channel
        self.note("rx", **info)
        try:
            if isinstance(tr, FakeDatagramTransport):
                tr.deliver(data, GATEWAY_ADDR)
            else:
                tr.deliver(data)
        except Exception as exc:  # noqa: BLE001 - the code under test raised in its receive path: recorded, never a harness crash
            self.receive_path_exceptions.append((self.loop.time(), info["type"], type(exc).__name__, repr(exc)[:200]))
            self.note("rx_raised", type=info["type"], exc=type(exc).__name__, detail=repr(exc)[:200])
        self.note("rx_done", type=info["type"])
        if (isinstance(body, ConnectResponse) and body.status_code is ErrorCode.E_NO_ERROR
                and self.after_connect_response is not None):
            # same datagram burst: whatever the hook delivers follows the ConnectResponse back to back,
            # before the connecting task of the client has run again
            self.after_connect_response()

    def send_tunnelling_request(self, seq: int, raw_cemi: bytes, delay: float | None = None,
                                channel: int | None = None, **meta: Any) -> None:
        ch = self.channel if channel is None else channel
        self.send_body(TunnellingRequest(communication_channel_id=ch or 0, sequence_counter=seq & 0xFF,
                                         raw_cemi=raw_cemi), delay, **meta)

    def send_device_configuration_request(self, seq: int, raw_cemi: bytes, delay: float | None = None,
                                          channel: int | None = None, **meta: Any) -> None:
        ch = self.channel if channel is None else channel
        self.send_body(DeviceConfigurationRequest(communication_channel_id=ch or 0, sequence_counter=seq & 0xFF,
                                                  raw_cemi=raw_cemi), delay, **meta)

    def send_disconnect_request(self, delay: float | None = None, channel: int | None = None) -> None:
        """Server-initiated disconnect; the server forgets the connection at once."""
        ch = self.channel if channel is None else channel
        tr = self.transport
        if channel is None:
            self.channel = None
        self.send_body(DisconnectRequest(communication_channel_id=ch or 0,
                                         control_endpoint=HPAI(*GATEWAY_ADDR)), delay, tr=tr)

    def lose_transport(self, tr: Any = None) -> None:
        """TCP: peer closes / resets the stream."""
        tr = tr if tr is not None else self.transport
        if isinstance(tr, FakeStreamTransport) and not tr.closed:
            self.note("transport_lost", tr=self.tr_index(tr))
            if tr is self.transport:
                self.channel = None
            try:
                tr.lose(None)
            except Exception as exc:  # noqa: BLE001 - see _deliver
                self.receive_path_exceptions.append((self.loop.time(), "connection_lost", type(exc).__name__, repr(exc)[:200]))
                self.note("rx_raised", type="connection_lost", exc=type(exc).__name__, detail=repr(exc)[:200])

    # -- from the client -----------------------------------------------------
    def _on_send(self, tr: Any, data: bytes, addr: Any) -> None:
        try:
            frame, _ = KNXIPFrame.from_knx(data)
        except Exception as exc:  # noqa: BLE001 - the client wrote something unparsable
            self.note("tx_unparsable", data=data.hex(), exc=repr(exc), tr=self.tr_index(tr))
            return
        body = frame.body
        info = describe(body)
        info["tr"] = self.tr_index(tr)
        if addr is not None:
            info["to"] = list(addr)
        self.note("tx", **info)
        lat = self.latency
        if isinstance(body, ConnectRequest):
            n = self.n_connect
            self.n_connect += 1
            verdict = self.connect_policy(n, body)
            if verdict == "silent":
                return
            if isinstance(verdict, ErrorCode) and verdict is not ErrorCode.E_NO_ERROR:
                self.send_body(ConnectResponse(communication_channel=0, status_code=verdict), lat, tr=tr)
                return
            # channel id policy: a fresh id every time / always the same id / a small pool handed out again and again
            ch = self.next_channel
            if self.channel_policy == "constant":
                pass
            elif self.channel_policy == "recycled":
                self.next_channel = self.first_channel + (self.next_channel - self.first_channel + 1) % 2
            else:
                self.next_channel = self.next_channel + 1 if self.next_channel < 250 else 10
            self.channel = ch
            self.transport = tr
            self.conn_type = body.cri.connection_type
            tcp = isinstance(tr, FakeStreamTransport)
            if tcp:
                data_endpoint = HPAI(protocol=HostProtocol.IPV4_TCP)
            else:  # a NAT-aware server answers with the route-back HPAI 0.0.0.0:0
                # the data endpoint differs from connection to connection (port 3671 / 3672)
                self.data_endpoint = None if self.data_endpoint_route_back else (GATEWAY_ADDR[0], 3671 + (ch & 1))
                data_endpoint = HPAI() if self.data_endpoint is None else HPAI(*self.data_endpoint)
            crd = ConnectResponseData(request_type=body.cri.connection_type,
                                      individual_address=IndividualAddress("1.1.9"))
            self.send_body(ConnectResponse(communication_channel=ch, status_code=ErrorCode.E_NO_ERROR,
                                           data_endpoint=data_endpoint, crd=crd),
                           lat if not isinstance(verdict, float) else verdict, tr=tr)
        elif isinstance(body, ConnectionStateRequest):
            n = self.n_hb
            self.n_hb += 1
            verdict = self.hb_policy(n, body)
            if verdict == "silent":
                return
            if isinstance(verdict, int):  # a status octet outside ErrorCode, as raw bytes
                self.send_body(RawFrame(raw_status_frame(0x0208, body.communication_channel_id, verdict),
                                        type="ConnectionStateResponse", ch=body.communication_channel_id,
                                        status=f"RAW_0x{verdict:02x}"), lat, tr=tr)
                return
            status = verdict if isinstance(verdict, ErrorCode) else (
                ErrorCode.E_NO_ERROR if body.communication_channel_id == self.channel else ErrorCode.E_CONNECTION_ID)
            self.send_body(ConnectionStateResponse(communication_channel_id=body.communication_channel_id,
                                                   status_code=status), lat, tr=tr)
        elif isinstance(body, DisconnectRequest):
            n = self.n_disc
            self.n_disc += 1
            if body.communication_channel_id == self.channel:
                self.channel = None
            verdict = self.disc_policy(n, body)
            if verdict == "silent":
                return
            self.send_body(DisconnectResponse(communication_channel_id=body.communication_channel_id), lat, tr=tr)
        elif isinstance(body, TunnellingRequest):
            n = self.n_treq
            self.n_treq += 1
            if isinstance(tr, FakeStreamTransport):
                return  # no acknowledgements over TCP
            verdict = self.ack_policy(n, body)
            acks = ACK_BEHAVIOURS[verdict] if isinstance(verdict, str) else verdict
            for delay, dch, dseq, status in acks:
                ach, aseq = (body.communication_channel_id + dch) & 0xFF, (body.sequence_counter + dseq) & 0xFF
                if isinstance(status, int):
                    ack: Any = RawFrame(raw_ack(ach, aseq, status), type="TunnellingAck", ch=ach, seq=aseq,
                                        status=f"RAW_0x{status:02x}")
                else:
                    ack = TunnellingAck(communication_channel_id=ach, sequence_counter=aseq, status_code=status)
                self.send_body(ack, lat if delay is None else delay, tr=tr,
                               behaviour=verdict if isinstance(verdict, str) else "custom")
        elif isinstance(body, DeviceConfigurationRequest):
            self.send_body(DeviceConfigurationAck(communication_channel_id=body.communication_channel_id,
                                                  sequence_counter=body.sequence_counter), lat, tr=tr)
        # DisconnectResponse, TunnellingAck, DeviceConfigurationAck from the client: recorded only


class IterationInjector:
    """Run callbacks at chosen loop iterations of a VLoop (an external event arriving then).

    `at(k, fn)`      : fn() runs as a ready callback of iteration k (the selector reported an event).
    `at(k, fn, 0.5)` : if iteration k would have slept, half of that sleep passes first.
    `at(k, fn, -0.003)`: ... all of that sleep but the last 3 ms passes first (the event crosses the wake-up).
    `sleep_hook`     : called right before the loop sleeps (timeout > 0 or forever) - a quiescent point.
    Installed on the loop's selector wrapper instance; nothing in vloop.py changes.
    """

    def __init__(self, loop: VLoop) -> None:
        self.loop = loop
        self.plan: dict[int, list[tuple[float, Callable[[], None]]]] = {}
        self.sleep_hook: Callable[[float | None], None] | None = None
        self.sleeps: list[int] = []  # iteration indices that slept (baseline information)
        self.base = loop.iterations
        sel = loop._selector
        orig = sel.select

        def select(timeout: float | None = None) -> Any:
            k = loop.iterations - self.base  # index of the iteration now starting its select
            due = self.plan.pop(k, None)
            if due:
                frac = max(f for f, _ in due)
                before_end = min((f for f, _ in due if f < 0), default=0.0)
                if before_end < 0 and timeout is not None and timeout > 0:
                    # a negative fraction is "so many seconds before the sleep ends": the event crosses the wake-up
                    loop._vtime += max(0.0, timeout + before_end)
                elif frac > 0 and timeout is not None and timeout > 0:
                    loop._vtime += timeout * frac
                for _, fn in due:
                    loop.call_soon(fn)
                return orig(0)
            if timeout is None or timeout > 0:
                self.sleeps.append(k)
                if self.sleep_hook is not None:
                    self.sleep_hook(timeout)
            return orig(timeout)

        sel.select = select  # type: ignore[method-assign]

    def at(self, k: int, fn: Callable[[], None], frac: float = 0.0) -> None:
        self.plan.setdefault(k, []).append((frac, fn))

    @property
    def now(self) -> int:
        return self.loop.iterations - self.base


# ---------------------------------------------------------------------------
# secure tunnelling: adapter over vlib.peers_secure.SecureServer (imported read-only)

SECURE_USER_ID = 2
SECURE_USER_PASSWORD = "verif-user"
SECURE_DEVICE_PASSWORD = "verif-device"


@contextlib.contextmanager
def secure_harness(seed: int = 0) -> Iterator[None]:
    """Memoise the (pure) PBKDF2 derivations on both sides and make ECDH key pairs reproducible."""
    from xknx.io import ip_secure

    from . import refcrypto_ip as ref

    saved_x = (ip_secure.derive_user_password, ip_secure.derive_device_authentication_password,
               ip_secure.generate_ecdh_key_pair)
    saved_r = (ref.user_password_key, ref.device_authentication_key)
    keyrng = random.Random(f"secure/{seed}")

    def keypair() -> Any:
        priv = ref.x25519_private(keyrng.randbytes(32))
        return priv, ref.x25519_public_bytes(priv)

    ip_secure.derive_user_password = _PBKDF_CACHE.setdefault("xu", functools.cache(saved_x[0]))
    ip_secure.derive_device_authentication_password = _PBKDF_CACHE.setdefault("xd", functools.cache(saved_x[1]))
    ip_secure.generate_ecdh_key_pair = keypair
    ref.user_password_key = _PBKDF_CACHE.setdefault("ru", functools.cache(saved_r[0]))
    ref.device_authentication_key = _PBKDF_CACHE.setdefault("rd", functools.cache(saved_r[1]))
    try:
        yield
    finally:
        (ip_secure.derive_user_password, ip_secure.derive_device_authentication_password,
         ip_secure.generate_ecdh_key_pair) = saved_x
        ref.user_password_key, ref.device_authentication_key = saved_r


_PBKDF_CACHE: dict[str, Any] = {}


class SecureGateway(Gateway):
    """The scripted gateway behind KNX IP Secure sessions (one SecureServer per TCP connection).

    Inner frames go through the very same policies / history as the plain gateway; what it sends is wrapped by the
    reference crypto at delivery time.  `session_policy()` == "silent" leaves SessionRequest / SessionAuthenticate
    unanswered.  Use inside `secure_harness()`.
    """

    def __init__(self, loop: VLoop, latency: float = 0.005, first_channel: int = 10) -> None:
        super().__init__(loop, latency, first_channel)
        self.servers: dict[Any, Any] = {}
        self.session_policy: Callable[[], str] = lambda: "ok"
        self._keyrng = random.Random("secure-gateway")
        self.n_sessions_authenticated = 0

    def on_connection(self, tr: Any) -> None:
        """To be called from loop.on_connection for every new TCP connection."""
        from .peers_secure import SecureServer

        srv = SecureServer(
            self.loop, server_private_raw=self._keyrng.randbytes(32), device_password=SECURE_DEVICE_PASSWORD,
            users={SECURE_USER_ID: SECURE_USER_PASSWORD}, session_id=len(self.servers) + 1, delay=self.latency,
            auto_handshake=True, auto_tunnel=False,
        )
        self.servers[tr] = srv
        srv.attach(tr)
        srv.on_record = lambda rec: self._record(tr, srv, rec)

    def _record(self, tr: Any, srv: Any, rec: Any) -> None:
        from . import refcrypto_ip as ref

        idx = self.tr_index(tr)
        if rec.kind == "plain":
            if rec.service == ref.HDR_SESSION_REQUEST:
                srv.auto_handshake = self.session_policy() == "ok"
                self.note("tx", type="SessionRequest", tr=idx)
            else:
                self.note("tx", type="PlainFrame", service=f"{rec.service or 0:04x}", tr=idx)
            return
        if rec.kind != "wrapper" or not rec.authentic or rec.inner is None:
            self.note("tx_unauthentic", kind=rec.kind, tr=idx)
            return
        svc = ref.service_of(rec.inner)
        if svc == ref.HDR_SESSION_AUTHENTICATE:
            srv.auto_handshake = self.session_policy() == "ok"
            if srv.auto_handshake:
                self.n_sessions_authenticated += 1
            self.note("tx", type="SessionAuthenticate", tr=idx, seq=rec.seq)
        elif svc == ref.HDR_SESSION_STATUS:
            self.note("tx", type="SessionStatus", status=rec.inner[6], tr=idx, seq=rec.seq)
        else:
            self._on_send(tr, rec.inner, None)

    def _deliver(self, tr: Any, body: Any, data: bytes, meta: dict[str, Any]) -> None:
        srv = self.servers.get(tr)
        if srv is not None:
            if srv.key is None or tr.closed:
                self.note("rx_dropped", **describe(body), why="no session" if srv.key is None else "closed", tr=self.tr_index(tr))
                return
            data = srv.wrapped(data)
        super()._deliver(tr, body, data, meta)

    def send_session_status(self, status: int, tr: Any = None) -> None:
        """Server -> client SessionStatus (3 = timeout, 5 = close), wrapped, delivered now."""
        from . import refcrypto_ip as ref

        tr = tr if tr is not None else self.transport
        srv = self.servers.get(tr)
        if srv is None or srv.key is None or tr.closed:
            self.note("rx_dropped", type="SessionStatus", why="no session")
            return
        self.note("rx", type="SessionStatus", status=status, tr=self.tr_index(tr))
        if tr is self.transport:
            self.channel = None  # the server drops the tunnel with the session
        try:
            tr.deliver(srv.wrapped(ref.session_status(status)))
        except Exception as exc:  # noqa: BLE001 - see _deliver
            self.receive_path_exceptions.append((self.loop.time(), "SessionStatus", type(exc).__name__, repr(exc)[:200]))
            self.note("rx_raised", type="SessionStatus", exc=type(exc).__name__, detail=repr(exc)[:200])
        self.note("rx_done", type="SessionStatus")
