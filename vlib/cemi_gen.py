"""Structure-aware cEMI frame / APDU generators and comparison masks (C12, C13).

Everything here produces *inputs* (byte strings) or *oracle data* (which bits of a
received frame the statement allows to change).  Nothing here replaces xknx code.

Layout of an L_Data cEMI frame (3/6/3 EMI_IMI §4.1.5.3):

    MC  AddIL  [add. info ...]  Ctrl1 Ctrl2  SA SA  DA DA  L  TPCI/APCI  APCI/data ...

Ctrl1 = FT r R SB P P A C      Ctrl2 = AT H H H E E E E
"""

from __future__ import annotations

from collections.abc import Iterator
import random
from typing import Any

L_DATA_REQ = 0x11
L_DATA_IND = 0x29
L_DATA_CON = 0x2E
L_DATA_CODES = (L_DATA_REQ, L_DATA_IND, L_DATA_CON)
M_PROP_CODES = (0xFC, 0xFB, 0xF6, 0xF5, 0xF7)
OTHER_KNOWN_CODES = (0x10, 0x13, 0x25, 0x2B, 0x2D, 0x2F, 0xF8, 0xF9, 0xFA, 0xF1, 0xF0)

FT_BIT = 0x80  # Ctrl1 bit 7: 1 = standard frame
CTRL1_RESERVED = 0x40  # Ctrl1 bit 6
AT_BIT = 0x80  # Ctrl2 bit 7: 1 = group address


def code_kind(raw: bytes) -> str:
    """Coarse class of a frame, used in mechanism strings (no values in them)."""
    if len(raw) == 0:
        return "empty-frame"
    code = raw[0]
    if code in L_DATA_CODES:
        if len(raw) == 1:
            return "L_Data-without-additional-info-length"
        return "L_Data"
    if code in M_PROP_CODES:
        return "M_Prop"
    if code in OTHER_KNOWN_CODES:
        return "known-unsupported-code"
    return "unknown-code"


# ---------------------------------------------------------------------------
# frame builders
# ---------------------------------------------------------------------------


def l_data(
    code: int = L_DATA_IND,
    *,
    info: bytes = b"",
    info_len: int | None = None,
    ctrl1: int = 0xBC,
    ctrl2: int = 0xE0,
    src: int = 0x1101,
    dst: int = 0x0901,
    npdu_len: int | None = None,
    tpdu: bytes = b"\x00\x80",
) -> bytes:
    """Build an L_Data frame; `info_len` / `npdu_len` override the consistent value."""
    il = len(info) if info_len is None else info_len
    nl = (len(tpdu) - 1) if npdu_len is None else npdu_len
    return (
        bytes((code & 0xFF, il & 0xFF))
        + info
        + bytes((ctrl1 & 0xFF, ctrl2 & 0xFF))
        + src.to_bytes(2, "big")
        + dst.to_bytes(2, "big")
        + bytes((nl & 0xFF,))
        + tpdu
    )


def m_prop(code: int, obj_type: int, instance: int, pid: int, noe: int, six: int, data: bytes = b"") -> bytes:
    """Build an M_Prop* frame body (6 octet header + data)."""
    return (
        bytes((code,))
        + obj_type.to_bytes(2, "big")
        + bytes((instance & 0xFF, pid & 0xFF))
        + (((noe & 0xF) << 12) | (six & 0xFFF)).to_bytes(2, "big")
        + data
    )


# ---------------------------------------------------------------------------
# APDU corpus (own generator; independent of vlib/apci_gen.py)
# ---------------------------------------------------------------------------

#: lengths of the whole APDU (octet 0 holds TPCI bits + 2 APCI bits)
APDU_LENGTHS_QUICK = (1, 2, 3, 4, 5, 6, 7, 8, 9, 10, 11, 12, 13, 14, 15, 16, 17, 18, 19, 22, 23, 24, 255, 256, 257)
APDU_LENGTHS_FULL = tuple(range(1, 34)) + (40, 55, 56, 57, 64, 100, 128, 200, 253, 254, 255, 256, 257)

#: APCI values whose low 6 bits select a sub-service (everything else is 4 bit + 6 data bits)
EXTENDED_RANGES = (range(0x1C0, 0x200), range(0x2C0, 0x300), range(0x380, 0x400))


def apci_codes(full: bool, rng: random.Random) -> list[int]:
    """10-bit APCI values to exercise: all 1024 (thorough) or all sub-service codes + sampled data bits."""
    if full:
        return list(range(1024))
    codes: set[int] = set()
    for r in EXTENDED_RANGES:
        codes.update(r)
    for svc in range(16):
        base = svc << 6
        codes.update((base, base | 1, base | 0x3F, base | rng.randrange(64)))
    return sorted(codes)


def apdu_body(rng: random.Random, n: int, pattern: int) -> bytes:
    if n <= 0:
        return b""
    if pattern == 0:
        return bytes(n)
    if pattern == 1:
        return b"\xff" * n
    if pattern == 2:
        return bytes((i + 1) & 0xFF for i in range(n))
    return bytes(rng.getrandbits(8) for _ in range(n))


def apdu_corpus(rng: random.Random, full: bool) -> Iterator[tuple[int, bytes]]:
    """Yield (apci, raw APDU with the six TPCI bits of octet 0 cleared)."""
    lengths = APDU_LENGTHS_FULL if full else APDU_LENGTHS_QUICK
    patterns = (0, 1, 3) if full else (3,)
    for apci in apci_codes(full, rng):
        hi, lo = (apci >> 8) & 0x03, apci & 0xFF
        for n in lengths:
            if n == 1:
                yield apci, bytes((hi,))
                continue
            for p in patterns:
                yield apci, bytes((hi, lo)) + apdu_body(rng, n - 2, p)


# ---------------------------------------------------------------------------
# TPCI octets
# ---------------------------------------------------------------------------


def legal_tpci_octets(dst_group: bool, dst_zero: bool) -> list[tuple[int, bool]]:
    """(octet with APCI bits zero, is_control) accepted by the transport layer for the destination kind.

    From 3/3/4 §2: group: T_Data_Group/Broadcast (000000), T_Data_Tag_Group (000001);
    individual: T_Data_Individual (000000), T_Data_Connected (01 SSSS), T_Connect 0x80,
    T_Disconnect 0x81, T_ACK 11 SSSS 10, T_NAK 11 SSSS 11.
    """
    if dst_group:
        return [(0x00, False), (0x04, False)]
    out: list[tuple[int, bool]] = [(0x00, False)]
    out += [(0x40 | (s << 2), False) for s in range(16)]
    out += [(0x80, True), (0x81, True)]
    out += [(0xC2 | (s << 2), True) for s in range(16)]
    out += [(0xC3 | (s << 2), True) for s in range(16)]
    return out


# ---------------------------------------------------------------------------
# structured frame corpus
# ---------------------------------------------------------------------------

DST_KINDS = (
    ("group", 0x80, 0x0901),
    ("group0", 0x80, 0x0000),
    ("indiv", 0x00, 0x1105),
    ("indiv0", 0x00, 0x0000),
)

INFO_VARIANTS = ("none", "consistent", "overrun", "claims255", "short")


def info_variant(rng: random.Random, kind: str) -> tuple[bytes, int | None]:
    """(additional-info octets, declared length override)."""
    if kind == "none":
        return b"", None
    body = bytes(rng.getrandbits(8) for _ in range(rng.randrange(1, 9)))
    if kind == "consistent":
        return body, None
    if kind == "overrun":  # declares more than the whole rest of the frame holds
        return body, 200
    if kind == "claims255":
        return body, 255
    # "short": declares fewer octets than present -> the remainder is shifted
    return body, max(0, len(body) - rng.randrange(1, len(body) + 1))


def npdu_variant(rng: random.Random, tpdu: bytes, kind: str) -> int | None:
    true = len(tpdu) - 1
    if kind == "consistent":
        return None
    if kind == "plus1":
        return (true + 1) & 0xFF
    if kind == "minus1":
        return (true - 1) & 0xFF
    if kind == "zero":
        return 0
    return 255


NPDU_VARIANTS = ("consistent", "consistent", "consistent", "plus1", "minus1", "zero", "is255")


def wellformed_short_shapes() -> list[bytes]:
    """One well-formed frame per body shape of the management message codes, and the shortest L_Data shapes."""
    dev, ip = 0x0000, 0x000B  # device object, KNXnet/IP parameter object (both supported object types)
    return [
        m_prop(0xFC, dev, 1, 11, 1, 1),                          # M_PropRead.req
        m_prop(0xFB, ip, 1, 52, 1, 1, b"\x11\x22"),               # M_PropRead.con, positive
        m_prop(0xFB, ip, 1, 52, 2, 1, b"\x11\x22\x33\x44"),       # M_PropRead.con, two elements
        m_prop(0xFB, ip, 1, 52, 0, 1, b"\x07"),                   # M_PropRead.con, negative (error code)
        m_prop(0xF6, ip, 1, 52, 1, 1, b"\x11\x22"),               # M_PropWrite.req
        m_prop(0xF5, ip, 1, 52, 1, 1),                            # M_PropWrite.con, positive
        m_prop(0xF5, ip, 1, 52, 0, 1, b"\x05"),                   # M_PropWrite.con, negative (error code)
        m_prop(0xF5, dev, 1, 11, 0, 0, b"\x00"),
        m_prop(0xF7, ip, 1, 52, 1, 1, b"\x01"),                   # M_PropInfo.ind
        m_prop(0xF7, ip, 1, 52, 0, 1, b"\x09"),                   # M_PropInfo.ind with an error payload (parsed leniently)
        bytes((0xF1,)), bytes((0xF0,)), bytes((0xF1, 0x00)),      # M_Reset.req / .ind
        m_prop(0xF8, ip, 1, 52, 1, 1, b"\x01"),                   # M_FuncPropCommand.req
        m_prop(0xF9, ip, 1, 52, 1, 1),                            # M_FuncPropStateRead.req
        m_prop(0xFA, ip, 1, 52, 1, 1, b"\x00\x01"),               # M_FuncProp*.con
        l_data(L_DATA_IND, tpdu=b"\x00\x81"),                     # group value write, 6 bit
        l_data(L_DATA_CON, ctrl1=0xBD, tpdu=b"\x00\x80\x0c\x1a"),
        l_data(L_DATA_REQ, ctrl2=0x60, dst=0x1105, tpdu=b"\x81"),  # T_Disconnect
        l_data(L_DATA_IND, ctrl2=0x60, dst=0x1105, tpdu=b"\x43\xd5\x00\x0b\x10\x01"),  # connected PropertyValueRead
        l_data(L_DATA_IND, info=b"\x03\x01\xaa", tpdu=b"\x00\x00"),
    ]


def structured_frames(rng: random.Random, full: bool, budget: int | None = None) -> Iterator[tuple[str, bytes]]:
    """Yield (origin tag, raw frame).  Deterministic sweeps first, then seeded combinations."""
    # S1: every message code x tiny / plausible bodies, M_Prop bodies of every length 0..12
    good_ldata = l_data(L_DATA_IND)[1:]
    obj_types = (0x0000, 0x000B, 0x0001, 0x0013, 0x7FFF, 0xFFFF, 0x0032, 0xC350)
    for code in range(256):
        yield "S1", bytes((code,))
        yield "S1", bytes((code, 0))
        yield "S1", bytes((code, 1))
        yield "S1", bytes((code, 255))
        yield "S1", bytes((code,)) + good_ldata
        yield "S1", bytes((code, 0)) + bytes(8)
        for n in range(0, 13):
            yield "S1", bytes((code,)) + bytes(rng.getrandbits(8) for _ in range(n))
        if code in M_PROP_CODES or full or code % 16 == 0:
            for ot in obj_types:
                for noe in (0, 1, 15):
                    for dlen in (0, 1, 2, 6, 40):
                        yield "S1m", m_prop(code, ot, rng.randrange(256), rng.randrange(256), noe,
                                            rng.randrange(4096), bytes(rng.getrandbits(8) for _ in range(dlen)))
    # every object type value for the M_Prop family (enum lookup)
    step = 1 if full else 7
    for ot in range(0, 65536, step):
        yield "S1o", m_prop(0xFB, ot, 1, 1, 1, 1, b"\x00")
    for ot in list(range(0, 64)) + [0xFFFF, 0x8000]:
        for code in M_PROP_CODES:
            yield "S1o", m_prop(code, ot, 1, 52, 1, 1, b"\x01\x02")
            yield "S1o", m_prop(code, ot, 1, 52, 0, 1, b"\x07")
            yield "S1o", m_prop(code, ot, 1, 52, 1, 1)

    # S2: every Ctrl1 x Ctrl2 (thorough) / crosses (quick) on the three L_Data codes
    c2_subset = (0x00, 0x10, 0x60, 0x70, 0x80, 0xE0, 0xF0, 0xE1, 0xE4, 0xE7, 0xE8, 0xEF, 0x64, 0xFF)
    c1_subset = (0x00, 0x3C, 0x7C, 0xBC, 0xFC, 0x80, 0xB0, 0xBF, 0x94, 0xFF, 0x40)
    for code in L_DATA_CODES:
        for c1 in range(256):
            for c2 in (range(256) if full else c2_subset):
                dst = 0x0901
                tp = b"\x00\x81" if c2 & 0x80 else b"\x00\x80"
                yield "S2", l_data(code, ctrl1=c1, ctrl2=c2, dst=dst, tpdu=tp)
        if not full:
            for c2 in range(256):
                for c1 in c1_subset:
                    yield "S2", l_data(code, ctrl1=c1, ctrl2=c2, tpdu=b"\x00\x80")

    # S3: every TPCI octet x destination kind x NPDU variant (short APDUs behind it)
    tails = (b"", b"\x80", b"\x80\x01", b"\x00", b"\x00\x00\x00", b"\x40\x12\x34", b"\xd5\x01\x02\x10\x01")
    for code in L_DATA_CODES if full else (L_DATA_IND, L_DATA_CON):
        for _name, at, dst in DST_KINDS:
            for t in range(256):
                for tail in tails:
                    tpdu = bytes((t,)) + tail
                    for nv in ("consistent", "plus1", "minus1", "zero", "is255"):
                        if not full and nv != "consistent" and (t & 0x0F) not in (0, 3):
                            continue
                        yield "S3", l_data(code, ctrl2=at | 0x60, dst=dst, tpdu=tpdu, npdu_len=npdu_variant(rng, tpdu, nv))

    # S4: APDU corpus behind seeded frame parameters
    n = 0
    for _apci, apdu in apdu_corpus(rng, full):
        reps = 2 if full else 1
        for _ in range(reps):
            code = rng.choice(L_DATA_CODES)
            _name, at, dst = rng.choice(DST_KINDS)
            if rng.random() < 0.3:
                dst = rng.getrandbits(16)
            legal = legal_tpci_octets(bool(at), dst == 0)
            data_octets = [o for o, ctl in legal if not ctl]
            tp = rng.choice(data_octets) if rng.random() < 0.85 else rng.getrandbits(8) & 0xFC
            tpdu = bytes((tp | apdu[0],)) + apdu[1:]
            info, il = info_variant(rng, rng.choice(INFO_VARIANTS) if rng.random() < 0.3 else "none")
            c1 = rng.getrandbits(8) if rng.random() < 0.5 else 0xBC
            c2 = (at | (rng.getrandbits(3) << 4)) if rng.random() < 0.9 else rng.getrandbits(8)
            nl = npdu_variant(rng, tpdu, rng.choice(NPDU_VARIANTS))
            yield "S4", l_data(code, info=info, info_len=il, ctrl1=c1, ctrl2=c2, src=rng.getrandbits(16),
                               dst=dst, npdu_len=nl, tpdu=tpdu)
            n += 1
        if budget is not None and n >= budget:
            break

    # S6: every well-formed M_Prop* / M_Reset / M_FuncProp shape and short L_Data shape x every octet position x every value 0..255
    for shape in wellformed_short_shapes():
        yield "S6", shape
        for pos in range(len(shape)):
            for v in range(256):
                if v != shape[pos]:
                    yield "S6", shape[:pos] + bytes((v,)) + shape[pos + 1:]

    # S5: truncations and single-octet substitutions of valid frames; raw noise
    seeds = [
        l_data(L_DATA_IND),
        l_data(L_DATA_CON, ctrl1=0xBD, tpdu=b"\x00\x80\x01\x02"),
        l_data(L_DATA_REQ, info=b"\x03\x02\xaa\xbb", ctrl2=0x60, dst=0x1105, tpdu=b"\x43\xd5\x00\x0b\x10\x01"),
        l_data(L_DATA_IND, ctrl2=0x60, dst=0x1105, tpdu=b"\x81"),
        l_data(L_DATA_IND, ctrl1=0x3C, tpdu=b"\x00\x80" + bytes(range(20))),
        l_data(L_DATA_IND, tpdu=b"\x03\xf1\x00" + bytes(range(6)) + bytes(8)),
        m_prop(0xFB, 0x000B, 1, 52, 1, 1, b"\x11\x22"),
        m_prop(0xF5, 0x000B, 1, 52, 0, 1, b"\x05"),
        m_prop(0xFC, 0x0000, 1, 11, 1, 1),
    ]
    values = (0x00, 0x01, 0x7F, 0x80, 0xFF, 0x0F, 0xF0) if not full else tuple(range(0, 256, 5)) + (0xFF,)
    for s in seeds:
        for cut in range(len(s) + 1):
            yield "S5t", s[:cut]
        for pos in range(len(s)):
            for v in values:
                yield "S5s", s[:pos] + bytes((v,)) + s[pos + 1:]
        yield "S5x", s + b"\x00"
        yield "S5x", s + bytes(300)
    first = L_DATA_CODES + M_PROP_CODES + OTHER_KNOWN_CODES
    for _ in range(40000 if full else 6000):
        n_oct = rng.randrange(0, 41)
        body = bytearray(rng.getrandbits(8) for _ in range(n_oct))
        if body and rng.random() < 0.8:
            body[0] = rng.choice(first)
        if len(body) > 1 and rng.random() < 0.6:
            body[1] = rng.choice((0, 0, 0, 1, 2, 4, len(body), 255))
        yield "S5r", bytes(body)


# ---------------------------------------------------------------------------
# what re-serialising a received L_Data frame may change (oracle data for C13)
# ---------------------------------------------------------------------------

# Per service class: which bits of the APDU octets the encoding *defines* (1 = must be
# preserved).  Written from 3/3/7 Application Layer: the 10-bit APCI field of services
# with a 4-bit code and no 6-bit data carries "000000" (reserved) in the low six bits;
# group values longer than 6 bits start at octet 2, the low six bits of octet 1 are
# reserved (0).  Services missing from this table are compared coarsely only
# (COARSE): every non-APDU octet, the APDU length, the TPCI bits and the 4 service bits.
_FULL = "full"


def _mask_group_value(n: int) -> bytes:
    if n == 2:
        return bytes((0xFF, 0xFF))
    return bytes((0xFF, 0xC0)) + b"\xff" * (n - 2)


APDU_MASKS: dict[str, Any] = {
    "GroupValueRead": lambda n: bytes((0xFF, 0xC0)),
    "GroupValueWrite": _mask_group_value,
    "GroupValueResponse": _mask_group_value,
    "IndividualAddressRead": lambda n: bytes((0xFF, 0xC0)),
    "IndividualAddressResponse": lambda n: bytes((0xFF, 0xC0)),
    "IndividualAddressWrite": lambda n: bytes((0xFF, 0xC0, 0xFF, 0xFF)),
    "ADCRead": _FULL,
    "ADCResponse": _FULL,
    "MemoryRead": _FULL,
    "MemoryWrite": _FULL,
    "MemoryResponse": _FULL,
    "DeviceDescriptorRead": _FULL,
    "DeviceDescriptorResponse": _FULL,
}


def tpdu_mask(payload_class: str | None, n: int) -> tuple[bytes, bool]:
    """Mask over the n TPDU octets (octet 0 = TPCI + 2 APCI bits); second item: exact table entry used."""
    if payload_class is None:  # control TPDU: one octet, all defined
        return b"\xff" * n, True
    entry = APDU_MASKS.get(payload_class)
    if entry is None:
        return (bytes((0xFF, 0xC0)) + bytes(max(0, n - 2)))[:n], False
    if entry == _FULL:
        return b"\xff" * n, True
    m = entry(n)
    return (m + b"\xff" * n)[:n], True


def reserialise_diff(raw: bytes, again: bytes, payload_class: str | None) -> tuple[str | None, bool]:
    """Compare a received L_Data frame with its re-serialisation.

    Returns (what differs or None, exact-table-used).  Allowed to differ: FT bit,
    Ctrl1 bit 6 (reserved), reserved application bits per `tpdu_mask`.
    """
    if len(raw) != len(again):
        return "length", False
    il = raw[1]
    head = 2 + il
    if raw[:head] != again[:head]:
        return "message-code-or-additional-info", False
    c1a, c1b = raw[head], again[head]
    if (c1a ^ c1b) & ~(FT_BIT | CTRL1_RESERVED) & 0xFF:
        return "ctrl1-flags", False
    if raw[head + 1] != again[head + 1]:
        return "ctrl2", False
    if raw[head + 2:head + 4] != again[head + 2:head + 4]:
        return "source-address", False
    if raw[head + 4:head + 6] != again[head + 4:head + 6]:
        return "destination-address", False
    if raw[head + 6] != again[head + 6]:
        return "npdu-length-octet", False
    ta, tb = raw[head + 7:], again[head + 7:]
    mask, exact = tpdu_mask(payload_class, len(ta))
    for i, (x, y, m) in enumerate(zip(ta, tb, mask)):
        if (x ^ y) & m:
            if i == 0 and (x ^ y) & 0xFC:
                return "tpci-bits", exact
            return ("apdu-defined-bits" if exact else "apci-service-bits"), exact
    return None, exact
