"""C07 DPT decode totality: a value, CouldNotParseTelegram or ConversionError - nothing else.

Monitor 1 calls the real `T.from_knx(payload)` of every concrete DPT class over the
hostile payload space of vlib.dpt_gen.payloads_for and classifies the outcome by
exception class.  Monitor 2 is the reason the property exists: a real XKNX with
`group_address_dpt` configured (through its public `set()`) for one group address per
DPT class, Sensor devices on them and a running TelegramQueue on the virtual loop
receives the same kind of payloads as incoming telegrams; the consumer must stay
alive (`telegrams.join()` returns, the consumer future is not done, no "Unexpected
error" record on xknx.log).
"""

from __future__ import annotations

import asyncio
import logging

from vlib import dpt_gen as G
from vlib.vloop import Deadlock, LoopBudget, new_loop
from xknx import XKNX
from xknx.devices import Sensor
from xknx.dpt import DPTArray, DPTBinary
from xknx.telegram import GroupAddress, IndividualAddress, Telegram, TelegramDirection
from xknx.telegram.address import InternalGroupAddress
from xknx.telegram.apci import GroupValueResponse, GroupValueWrite

LEVEL = "exploration"
TECHNIQUE = (
    "runtime monitor: exception-class oracle on the real from_knx of every concrete DPT class over hostile payloads; "
    "liveness monitor on a real XKNX TelegramQueue (virtual loop) decoding the same payloads through group_address_dpt"
)
LEVEL_TEXT = (
    "Every concrete class of DPTBase.dpt_class_tree() x all 64 DPTBinary values x DPTArray of length 0, 1 (all 256), 2 (all 65,536 for "
    "2-octet types in the quick tier, for every type in the thorough tier; a 257-stride sample elsewhere), wrong lengths 3..16/17/32/54/55/253/254 "
    "(zero, 0xFF, random fill) and, for types of 3+ octets, every octet value in every position over all-zero, all-0xFF and accepted backgrounds "
    "plus 3,000 (100,000) random arrays. Exhaustive for payloads of <= 2 octets in the thorough tier; longer payloads are sampled, hence exploration."
)
LEVEL_NOTE = (
    "Trusted: CPython, struct. Judged: the exception class leaving from_knx (only CouldNotParseTelegram / ConversionError allowed) and, in the "
    "queue workload, consumer alive + join() returns + no 'Unexpected error' record. Not judged: the decoded values themselves (C08-C10), the "
    "warning records of group_address_dpt. Payload objects are built with the public DPTBinary/DPTArray constructors, so octets are 0..255."
)
SHARDS = {"quick": 1, "thorough": 16}
TIMEOUT = {"quick": 300, "thorough": 3000}

_SRC = IndividualAddress("1.1.1")


def _shape(cls, payload):
    if isinstance(payload, DPTBinary):
        return "binary-own" if G.is_binary(cls) and payload.value < (1 << cls.payload_length) else "binary-foreign"
    n = len(payload.value)
    if not G.is_binary(cls) and n == cls.payload_length:
        return "array-own-length"
    return "array-foreign-length"


def _decode_monitor(ctx, cls, payload, fingerprints):
    ctx.ev()
    try:
        cls.from_knx(payload)
        outcome = "value"
    except G.DECLARED_ERRORS as exc:
        outcome = type(exc).__name__
    except BaseException as exc:  # noqa: BLE001
        outcome = "crash"
        ctx.violation(
            f"{G.owner(cls, 'from_knx')}-from_knx-raises-{type(exc).__name__}-on-{_shape(cls, payload)}",
            {"cls": cls.__name__, "payload": G.describe(payload), "exception": repr(exc)[:200]},
            f"{cls.__name__}.from_knx({payload!r}) raised {type(exc).__name__}: {exc}"[:300],
        )
    fingerprints.add((outcome, type(payload).__name__, len(payload.value) if isinstance(payload, DPTArray) else -1))
    return outcome


def _queue_payloads(ctx, cls, rng):
    """The payloads one class receives through the telegram queue."""
    per_kind = ctx.scale(24, 1200)
    out = [DPTBinary(v) for v in range(64)]
    out.append(DPTArray(()))
    out += [DPTArray((rng.randrange(256),)) for _ in range(per_kind)]
    out += [DPTArray((rng.randrange(256), rng.randrange(256))) for _ in range(per_kind)]
    for length in (3, 4, 5, 6, 7, 8, 9, 13, 14, 15, 16, 254):
        out.append(DPTArray((0,) * length))
        out.append(DPTArray((0xFF,) * length))
        out.append(DPTArray(tuple(rng.randrange(256) for _ in range(length))))
    if not G.is_binary(cls):
        own = list(G.own_payloads(cls, rng, n_random=per_kind * 2))
        if len(own) > per_kind * 4:
            own = rng.sample(own, per_kind * 4)
        out += own
    return out


class _LogMonitor(logging.Handler):
    def __init__(self):
        super().__init__(level=logging.ERROR)
        self.records = []

    def emit(self, record):
        self.records.append(record.getMessage()[:300])


def _public_form(cls):
    """The value_type / {"main", "sub"} form with which the public GroupAddressDPT.set() resolves to `cls`."""
    from xknx.core.group_address_dpt import GroupAddressDPT

    probe = GroupAddressDPT()
    ga = GroupAddress(1)
    forms = [cls.value_type] if cls.value_type else []
    forms.append({"main": cls.dpt_main_number, "sub": cls.dpt_sub_number})
    for form in forms:
        probe.clear()
        probe.set({ga: form})
        if probe.get(ga) is cls:
            return form
    return None


def _lifecycle_ops(ctx, table, forms, rng):
    """Table life-cycle operations (all through the public API), as JSON-able descriptions.

    ("clear",) | ("set", {address text: dpt form}) - full reload, the same mapping again, an overlapping
    re-mapping of a few addresses to other classes, a partially invalid mapping (unparsable addresses,
    unknown DPTs) and clear() alone.
    """
    full = {str(ga.raw): forms[cls] for ga, cls in table if forms[cls] is not None}
    some = [ga for ga, cls in table if forms[cls] is not None]
    usable = [f for f in forms.values() if f is not None]

    def overlap():
        return {str(ga.raw): rng.choice(usable) for ga in rng.sample(some, min(6, len(some)))}

    def partly_invalid():
        mapping = {"x/y/z": "temperature", "99/99/99": "switch", "-1": "percent", "": 9}
        for ga in rng.sample(some, min(4, len(some))):
            mapping[str(ga.raw)] = rng.choice(("no_such_value_type", {"main": 999}, {"sub": 1}, {"main": "x"}, 424242, "9.999"))
        for ga in rng.sample(some, min(3, len(some))):
            mapping[str(ga.raw)] = rng.choice(usable)
        return mapping

    cycle = [
        [("set", full)],                       # the same mapping again
        [("set", overlap())],                  # overlapping re-mapping
        [("set", partly_invalid())],           # partially invalid mapping
        [("clear",), ("set", full)],           # reload
        [("set", overlap()), ("set", full)],
        [("clear",)],                          # table empty for a while ...
        [("set", full)],                       # ... and configured again
        [("clear",), ("set", partly_invalid()), ("set", full), ("set", full)],
    ]
    return cycle


def _apply_op(xknx, op):
    if op[0] == "clear":
        xknx.group_address_dpt.clear()
    else:
        mapping = {}
        for addr, form in op[1].items():
            mapping[int(addr) if addr.isdigit() else addr] = form
        xknx.group_address_dpt.set(mapping)


def _where(exc):
    """module.function of the innermost xknx frame of an exception (mechanism strings)."""
    tb = exc.__traceback__
    last = None
    while tb is not None:
        code = tb.tb_frame.f_code
        if "xknx" in code.co_filename:
            last = (code.co_filename.rsplit("/", 1)[-1].removesuffix(".py"), code.co_name)
        tb = tb.tb_next
    return ".".join(last) if last else "unknown"


def _queue_monitor(ctx, classes, fixed=None, script=None):
    """Monitor 2: real XKNX + TelegramQueue on the virtual loop.

    The event stream mixes hostile incoming telegrams with table life-cycle operations
    (group_address_dpt.clear() / set() through the public API): before an operation the harness
    waits for telegrams.join(), so every telegram is decoded under a known table state.
    `fixed` (replay): the payload list to send to every class instead of _queue_payloads().
    `script` (replay): life-cycle operations to apply before the first telegram.
    """
    rng = ctx.rng
    table = []
    for i, cls in enumerate(classes):
        table.append((GroupAddress(i + 1), cls))
    # internal group addresses ("i-...") live in the same table and the same error bookkeeping
    step = 1 if fixed is not None else 4
    for i, cls in enumerate(classes[::step]):
        table.append((InternalGroupAddress(f"i-c07-{i}"), cls))
    forms = {cls: _public_form(cls) for _ga, cls in table}
    telegrams = []
    for ga, cls in table:
        payloads = fixed if fixed is not None else _queue_payloads(ctx, cls, rng)
        if fixed is None and isinstance(ga, InternalGroupAddress):
            payloads = rng.sample(payloads, min(len(payloads), ctx.scale(40, 400)))
            ctx.count("queue_telegrams_to_internal_addresses", len(payloads))
        for k, payload in enumerate(payloads):
            try:
                apci = GroupValueResponse(payload) if k % 5 == 4 else GroupValueWrite(payload)
            except G.DECLARED_ERRORS:
                # the APCI constructor refuses payloads that cannot be on the wire (e.g. an empty array);
                # such a payload cannot reach the queue - monitor 1 still decodes it directly
                ctx.count("queue_payload_refused_by_apci_constructor")
                continue
            telegrams.append(("t", cls, Telegram(destination_address=ga, direction=TelegramDirection.INCOMING, payload=apci, source_address=_SRC)))
    rng.shuffle(telegrams)
    if script is not None:
        pending = [("op", tuple(op)) for op in script] + telegrams
    else:
        # life-cycle operations spread over the stream (several rounds of the cycle)
        groups = _lifecycle_ops(ctx, table, forms, rng) * ctx.scale(2, 6)
        pending = []
        chunk = max(1, len(telegrams) // (len(groups) + 1))
        for gi, group in enumerate(groups):
            pending += telegrams[gi * chunk : (gi + 1) * chunk]
            pending += [("op", op) for op in group]
        pending += telegrams[len(groups) * chunk :]

    log = logging.getLogger("xknx.log")
    saved = (log.level, log.propagate)
    monitor = _LogMonitor()
    log.addHandler(monitor)
    log.setLevel(logging.ERROR)
    log.propagate = False
    restarts = 0
    try:
        while any(ev[0] == "t" for ev in pending) and restarts < 25:
            processed = []
            state = {"history": []}

            async def session(batch=pending, processed=processed, state=state):
                xknx = XKNX()
                state["xknx"] = xknx
                unreachable = 0
                for ga, cls in table:
                    if forms[cls] is None:
                        unreachable += 1
                    else:
                        xknx.group_address_dpt.set({ga: forms[cls]})
                    xknx.devices.async_add(Sensor(xknx, f"s{ga.raw}", group_address_state=ga, value_type=cls, sync_state=False))
                state["unreachable"] = unreachable
                xknx.telegram_queue.register_telegram_received_cb(processed.append)
                await xknx.telegram_queue.start()
                state["consumer"] = xknx.telegram_queue._consumer_task
                for ev in batch:
                    if ev[0] == "t":
                        ev[2].decoded_data = None
                        xknx.telegrams.put_nowait(ev[2])
                    else:
                        await xknx.telegrams.join()  # everything so far is decoded under the old table
                        _apply_op(xknx, ev[1])
                        state["history"].append(ev[1])
                await xknx.telegrams.join()
                state["joined"] = True
                await asyncio.sleep(0)
                state["consumer_done_after_join"] = state["consumer"].done()
                await xknx.telegram_queue.stop()
                state["stopped"] = True

            loop = new_loop()
            failure = None
            try:
                loop.run(session(), max_vtime=3600)
            except Deadlock:
                failure = "telegrams.join() deadlocked (definite: nothing ready, nothing scheduled)"
            except LoopBudget:
                ctx.inconclusive("queue monitor exceeded its virtual-time/iteration budget")
                loop.finish()
                return
            except BaseException as exc:  # noqa: BLE001 - a life-cycle call itself raised
                failure = f"table life-cycle call raised {type(exc).__name__}: {exc}"[:300]
                state["op_exception"] = exc
            leaked = loop.finish()
            if state.get("unreachable"):
                ctx.count("queue_classes_not_configurable_via_public_set", state["unreachable"])
            ctx.count("queue_sessions")
            ctx.count("queue_telegrams_processed", len(processed))
            ctx.count("queue_telegrams_decoded", sum(1 for t in processed if t.decoded_data is not None))
            for op in state["history"]:
                ctx.count("queue_table_clear" if op[0] == "clear" else "queue_table_set")
            ctx.ev(len(processed) + len(state["history"]))
            for t in processed[:: max(1, len(processed) // 50)]:
                ctx.distinct(("queue", type(t.payload.value).__name__, t.decoded_data is not None))
            consumer = state.get("consumer")
            if failure is None and state.get("consumer_done_after_join"):
                failure = "consumer future finished while the queue was running"
            if failure is None and loop.exceptions:
                failure = f"exception reached the loop handler: {loop.exceptions[0]!r}"[:300]
            if failure is None:
                if leaked:
                    ctx.count("queue_leaked_tasks_recorded", len(leaked))
                if state.get("stopped"):
                    ctx.count("queue_clean_stops")
                pending = []
                break
            history = [list(op) for op in state["history"]]
            reconf = "-after-table-reconfiguration" if history else ""
            if "op_exception" in state:
                exc = state["op_exception"]
                ctx.violation(
                    f"group-address-table-life-cycle-call-raises-{type(exc).__name__}-in-{_where(exc)}",
                    {"config_history": history[-12:], "exception": repr(exc)[:200]},
                    failure,
                )
                # drop everything up to and including the operation that raised
                n_ops = len(history)
                seen = 0
                cut = len(pending)
                for pos, ev in enumerate(pending):
                    if ev[0] == "op":
                        if seen == n_ops:
                            cut = pos + 1
                            break
                        seen += 1
                pending = pending[cut:]
                restarts += 1
                continue
            # the first unprocessed telegram killed the consumer
            tele_positions = [pos for pos, ev in enumerate(pending) if ev[0] == "t"]
            exc = None
            if consumer is not None and consumer.done() and not consumer.cancelled():
                exc = consumer.exception()
            if len(processed) < len(tele_positions):
                pos = tele_positions[len(processed)]
                _t, cls, telegram = pending[pos]
                payload = telegram.payload.value
                now = state["xknx"].group_address_dpt.get(telegram.destination_address)
                if isinstance(exc, G.DECLARED_ERRORS):
                    mech = f"telegram-consumer-killed-by-declared-decode-error-{type(exc).__name__}"
                elif exc is not None and _where(exc).startswith("dpt"):
                    mech = f"telegram-consumer-killed-by-{type(exc).__name__}-from-{G.owner(now or cls, 'from_knx')}-decode"
                else:
                    mech = f"telegram-consumer-killed-by-{type(exc).__name__ if exc else 'unknown'}-in-{_where(exc) if exc else 'unknown'}{reconf}"
                ctx.violation(
                    mech,
                    {"cls": cls.__name__, "configured_now": now.__name__ if now else None, "payload": G.describe(payload),
                     "address": str(telegram.destination_address),
                     "apci": type(telegram.payload).__name__, "exception": repr(exc)[:200], "failure": failure,
                     "config_history": history[-12:]},
                    f"incoming telegram for a group address configured as {now.__name__ if now else None} with payload {payload!r} after "
                    f"{len(history)} table operations (last: {[op[0] for op in history[-3:]]}): {failure}; consumer exception {exc!r}"[:500],
                )
                pending = pending[pos + 1 :]
            else:
                ctx.violation("telegram-consumer-stalled-without-pending-telegram", {"failure": failure, "config_history": history[-12:]}, failure)
                pending = []
            restarts += 1
    finally:
        log.removeHandler(monitor)
        log.setLevel(saved[0])
        log.propagate = saved[1]
    if restarts:
        ctx.count("queue_consumer_restarts_after_death", restarts)
    for msg in monitor.records:
        if "Unexpected" in msg:
            ctx.violation(
                "telegram-queue-last-resort-guard-record",
                {"record": msg},
                f"xknx.log emitted the last-resort record while decoding hostile payloads: {msg}"[:300],
            )
        else:
            ctx.count("queue_other_error_records")


def _order_pass(ctx):
    """Totality must not depend on earlier calls: every payload of a family (same kind and length) is decoded by
    all its classes back to back in both class orders; the outcome class (value / declared error / other
    exception) is compared with the one the class gave alone (vlib.dpt_gen.order_dependence)."""
    import random

    fams = G.families(G.concrete_dpt_classes())
    for fi, key in enumerate(sorted(fams)):
        if not ctx.mine(fi):
            continue
        name = f"{key[0]}/{key[1]}"
        members = fams[key]
        rng = random.Random(f"C07-order/{ctx.seed}/{name}")
        payloads = G.family_payloads(members, rng, ctx.scale(200, 2000))
        ctx.ev(len(payloads) * len(members) * 2)
        ctx.count("interleaved_decodes", len(payloads) * len(members) * 2)
        ctx.distinct(("order", name, len(members)))
        for f in G.order_dependence(members, payloads, rng):
            if f["op"] != "decode":
                continue
            iso, got = f["isolated"], f["interleaved"]
            cls = f["cls"]
            if got[0] == "crash":
                ctx.violation(
                    f"{G.owner(cls, 'from_knx')}-from_knx-raises-{got[1]}-after-calls-on-sibling-classes",
                    {"cls": cls.__name__, "payload": G.describe(f["payload"]), "isolated": repr(iso)[:120], "called_just_before": f["after"]},
                    f"{cls.__name__}.from_knx({f['payload']!r}) raised {got[1]} right after {', '.join(f['after'])}; alone it gives {iso!r}"[:300],
                )
            elif iso[0] != got[0]:
                ctx.count("interleaved_outcome_kind_changed_recorded")  # value vs declared error: C08 judges values


def run(ctx):
    ctx.rule = (
        "real from_knx of every concrete DPT class x payloads_for(class) (all DPTBinary, all arrays <= 2 octets as stated in level text, wrong "
        "lengths, per-position sweeps and random arrays of the own length); distinct = (class, payload kind, length, outcome class); "
        "queue monitor: one GA per class via group_address_dpt.set(), shuffled incoming GroupValueWrite/Response telegrams, join() per session"
    )
    ctx.require("decoded_value", "rejected_CouldNotParseTelegram", "rejected_ConversionError", "interleaved_decodes", "queue_telegrams_processed", "queue_telegrams_decoded", "queue_clean_stops", "queue_table_clear", "queue_table_set", "queue_telegrams_to_internal_addresses")
    classes = G.concrete_dpt_classes()
    ctx.extra["dpt_classes"] = len(classes)
    if len(classes) < 200:
        ctx.inconclusive(f"only {len(classes)} concrete DPT classes discovered")
    for i, cls in enumerate(classes):
        if not ctx.mine(i):
            continue
        fingerprints = set()
        counts = {}
        for payload in G.payloads_for(cls, ctx.rng, ctx.tier):
            outcome = _decode_monitor(ctx, cls, payload, fingerprints)
            counts[outcome] = counts.get(outcome, 0) + 1
        for outcome, n in counts.items():
            ctx.count("decoded_value" if outcome == "value" else f"rejected_{outcome}" if outcome != "crash" else "crashed", n)
        for fp in sorted(fingerprints):
            ctx.distinct((cls.__name__, *fp))
        ctx.count("classes_run")
        if i % 40 == 0:
            ctx.sample({"cls": cls.__name__, "outcomes": counts})
    ctx.extra["exhaustive_part"] = (
        "all DPTBinary + all DPTArray of length 0..2 for every class" if not ctx.quick
        else "all DPTBinary + all DPTArray of length 0..1 for every class; length 2 complete for 2-octet types"
    )
    # the queue monitor runs in shard 0 (quick) / every shard on its own classes (thorough)
    mine = [cls for i, cls in enumerate(classes) if ctx.mine(i)]
    _queue_monitor(ctx, mine)
    _order_pass(ctx)


def replay(ctx, witness):
    """Re-execute one recorded case through both monitors."""
    cls = G.class_by_name(witness["cls"])
    payload = G.rebuild(witness["payload"])
    fingerprints = set()
    _decode_monitor(ctx, cls, payload, fingerprints)
    ctx.distinct(("replay", cls.__name__))
    ctx.distinct(("replay", repr(payload)))
    ctx.count("decoded_value")

    # same clear()/set() sequence as recorded, re-targeted at the single address of the replay table
    now = witness.get("configured_now")
    target = G.class_by_name(now) if now else cls
    form = _public_form(target)
    script = None
    if witness.get("config_history") is not None:
        script = [("clear",) if op[0] == "clear" else ("set", {"1": form}) for op in witness["config_history"]]
        if now and (not script or script[-1][0] == "clear"):
            script.append(("set", {"1": form}))
    _queue_monitor(ctx, [target], fixed=[payload], script=script)
