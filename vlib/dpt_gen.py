"""Shared payload / value generators for the DPT checks (C07-C10, imported by C45).

Everything here drives the *real* xknx DPT classes; nothing models them.

Stable API
----------
concrete_dpt_classes()            sorted list of all concrete classes of DPTBase.dpt_class_tree()
kind(cls)                         "numeric" | "enum" | "complex" | "text" | "other"
owner(cls, attr)                  name of the class in the MRO that defines `attr` (mechanism strings)
space_size(cls)                   number of payloads of the type's own kind and length
mk(cls, index)                    own-kind/own-length payload number `index` (big endian)
payload_int(payload)              inverse of mk
describe(payload) / rebuild(d)    JSON witness form of a payload and back
try_decode(cls, payload)          ("ok", value) | ("reject", exc) | ("crash", exc)
own_payloads(cls, rng, n_random)  own-length payloads: exhaustive if <= 65536 points, else
                                  every octet value in every position over all-zero, all-0xFF and
                                  accepted backgrounds, plus n_random random arrays; 4-octet types also
                                  get float32_points(): float32 neighbours of powers of ten, k*10^n,
                                  powers of two, zero/subnormal/max/inf/NaN borders
payloads_for(cls, rng, tier)      the hostile space of C07 (every payload kind and length)
boundary_payloads(cls)            structure-aware boundary payloads for packed 3+-octet types (every octet / pair of
                                  octets at field-boundary values over zero and near-zero accepted backgrounds)
decode_image(cls, rng, n)         list of (payload, value) the type accepts (complete when the own
                                  space has <= 65536 points, else at most n structured + random ones, plus -
                                  for complex types - every accepted boundary_payloads() case)
class_by_name(name)               concrete class by __name__ (replays)
behaviour_signature(cls)          everything that makes two classes transcode differently
representatives(classes)          first class of every behaviour signature
same_value(a, b)                  value equality for decoded DPT values (NaN == NaN, dataclasses field-wise)
families(classes)                 classes grouped by (payload kind, length): they can receive the same payload
family_payloads(members, rng, n)  payloads for such a family (complete space if <= 256 points)
order_dependence(members, payloads, rng)
                                  isolated vs interleaved (all classes of the family back to back, both
                                  orders) from_knx / to_knx outcomes; yields every difference
"""

from __future__ import annotations

from collections.abc import Iterator
from typing import Any

from xknx.dpt import DPTArray, DPTBinary
from xknx.dpt.dpt import DPTBase, DPTComplex, DPTEnum, DPTNumeric
from xknx.dpt.dpt_16 import DPTString
from xknx.exceptions import ConversionError, CouldNotParseTelegram

DECLARED_ERRORS = (CouldNotParseTelegram, ConversionError)
EXHAUSTIVE_LIMIT = 65536
WRONG_LENGTHS_LONG = (17, 32, 54, 55, 253, 254)


def concrete_dpt_classes() -> list[type[DPTBase]]:
    """All concrete DPT classes, in a stable order."""
    seen: dict[type[DPTBase], None] = {}
    for cls in DPTBase.dpt_class_tree():
        seen.setdefault(cls)
    return sorted(
        seen,
        key=lambda c: (
            c.dpt_main_number if c.dpt_main_number is not None else -1,
            c.dpt_sub_number if c.dpt_sub_number is not None else -1,
            c.__name__,
        ),
    )


def kind(cls: type[DPTBase]) -> str:
    if issubclass(cls, DPTNumeric):
        return "numeric"
    if issubclass(cls, DPTEnum):
        return "enum"
    if issubclass(cls, DPTComplex):
        return "complex"
    if issubclass(cls, DPTString):
        return "text"
    return "other"


def owner(cls: type, attr: str = "from_knx") -> str:
    """Name of the class that defines `attr` for `cls`."""
    for klass in cls.__mro__:
        if attr in klass.__dict__:
            return klass.__name__
    return cls.__name__


def is_binary(cls: type[DPTBase]) -> bool:
    return cls.payload_type is DPTBinary


def space_size(cls: type[DPTBase]) -> int:
    if is_binary(cls):
        return 1 << cls.payload_length
    return 256**cls.payload_length


def mk(cls: type[DPTBase], index: int) -> DPTArray | DPTBinary:
    if is_binary(cls):
        return DPTBinary(index)
    return DPTArray(tuple(index.to_bytes(cls.payload_length, "big")))


def payload_int(payload: DPTArray | DPTBinary) -> int:
    if isinstance(payload, DPTBinary):
        return payload.value
    return int.from_bytes(bytes(payload.value), "big")


def describe(payload: Any) -> dict[str, Any]:
    if isinstance(payload, DPTBinary):
        return {"type": "DPTBinary", "value": payload.value}
    if isinstance(payload, DPTArray):
        return {"type": "DPTArray", "value": list(payload.value)}
    return {"type": type(payload).__name__, "repr": repr(payload)[:200]}


def rebuild(desc: dict[str, Any]) -> DPTArray | DPTBinary:
    if desc["type"] == "DPTBinary":
        return DPTBinary(int(desc["value"]))
    return DPTArray(tuple(int(x) for x in desc["value"]))


def class_by_name(name: str) -> type[DPTBase]:
    for cls in concrete_dpt_classes():
        if cls.__name__ == name:
            return cls
    raise KeyError(name)


def try_decode(cls: type[DPTBase], payload: Any) -> tuple[str, Any]:
    try:
        return "ok", cls.from_knx(payload)
    except DECLARED_ERRORS as exc:
        return "reject", exc
    except BaseException as exc:  # noqa: BLE001 - this is what C07 judges
        return "crash", exc


def _accepted_backgrounds(cls: type[DPTBase], rng: Any, want: int = 3) -> list[tuple[int, ...]]:
    """A few own-length arrays the type accepts (random search, bounded)."""
    out: list[tuple[int, ...]] = []
    n = cls.payload_length
    for _ in range(400):
        cand = tuple(rng.randrange(256) for _ in range(n))
        if try_decode(cls, DPTArray(cand))[0] == "ok":
            out.append(cand)
            if len(out) >= want:
                break
    return out


def float32_points(which: str = "full") -> list[int]:
    """Raw 32-bit patterns hugging the places where a float32 decoder changes behaviour.

    "decades": the float32 neighbours (-4..+4 ulp) of every power of ten 1e-45..1e38, both signs.
    "full": additionally -1..+1 ulp around k*10^n (k = 2..9) and around every power of two
    2^-149..2^127, and -4..+4 around zero, the subnormal/normal border, the largest finite value,
    infinity and the NaN borders; both signs.
    """
    import struct

    def bits(x: float) -> int | None:
        try:
            return int.from_bytes(struct.pack(">f", x), "big")
        except OverflowError:
            return None

    out: dict[int, None] = {}

    def around(n: int | None, width: int) -> None:
        if n is None:
            return
        n &= 0x7FFFFFFF
        for d in range(-width, width + 1):
            m = n + d
            if 0 <= m <= 0x7FFFFFFF:
                out.setdefault(m)
                out.setdefault(m | 0x80000000)

    for exp in range(-45, 39):
        around(bits(float(f"1e{exp}")), 4)
    if which == "full":
        for exp in range(-45, 39):
            for k in range(2, 10):
                around(bits(float(f"{k}e{exp}")), 1)
        for exp in range(-149, 128):
            around(bits(2.0**exp), 1)
        for n in (0, 0x007FFFFF, 0x00800000, 0x7F7FFFFF, 0x7F800000, 0x7FC00000, 0x7FFFFFFF, 0x3F800000):
            around(n, 4)
    return list(out)


# octet values where a packed field can change behaviour: 2^k-1 / 2^k for every field width and the calendar /
# percentage limits (12, 23/24, 31, 59/60, 99/100) with their neighbours
BOUNDARY_OCTETS = (0, 1, 2, 3, 4, 7, 8, 9, 11, 12, 13, 15, 16, 23, 24, 25, 30, 31, 32, 58, 59, 60, 63, 64, 89, 90, 99, 100, 127, 128, 191, 192, 254, 255)


BOUNDARY_PAIR_OCTETS = (0, 1, 7, 12, 23, 24, 31, 59, 60, 127, 255)


def boundary_payloads(cls: type[DPTBase], max_backgrounds: int = 4) -> Iterator[DPTArray]:
    """Structure-aware boundary payloads for packed array types of 3+ octets, found from the decoder itself.

    1. the all-zero array with one octet at every value and with every pair of octets at BOUNDARY_OCTETS
       values (fields at the min/max of their wire range, the others at 0);
    2. the accepted ones closest to zero - one per distinct set of changed positions, e.g. for DPT 19 "only the
       date-invalid flag set" and "month = day = 1" - become backgrounds;
    3. over each background (at most max_backgrounds) every octet position is swept through all 256 values and
       every pair of positions through BOUNDARY_PAIR_OCTETS (so e.g. hour 24 meets minutes = seconds = 0,
       month 12 meets day 31).
    """
    n = cls.payload_length
    if is_binary(cls) or n < 3:
        return
    zero = (0,) * n
    firsts: dict[tuple[int, ...], tuple[int, ...]] = {}

    def note(cand: tuple[int, ...], changed: tuple[int, ...]) -> None:
        if changed not in firsts and try_decode(cls, DPTArray(cand))[0] == "ok":
            firsts[changed] = cand

    yield DPTArray(zero)
    note(zero, ())
    for pos in range(n):
        for octet in range(256):
            cand = (*zero[:pos], octet, *zero[pos + 1 :])
            yield DPTArray(cand)
            note(cand, (pos,))
    for i in range(n):
        for j in range(i + 1, n):
            for a in BOUNDARY_OCTETS[1:]:
                for b in BOUNDARY_OCTETS[1:]:
                    cand = list(zero)
                    cand[i], cand[j] = a, b
                    if (i, j) not in firsts:  # searched, not all yielded: only the first accepted one per pair of positions
                        note(tuple(cand), (i, j))
                        if (i, j) in firsts:
                            yield DPTArray(tuple(cand))
    backgrounds = sorted(firsts.items(), key=lambda kv: (len(kv[0]), kv[0]))[:max_backgrounds]
    for _changed, bg in backgrounds:
        for pos in range(n):
            for octet in range(256):
                yield DPTArray((*bg[:pos], octet, *bg[pos + 1 :]))
        for i in range(n):
            for j in range(i + 1, n):
                for a in BOUNDARY_PAIR_OCTETS:
                    for b in BOUNDARY_PAIR_OCTETS:
                        cand = list(bg)
                        cand[i], cand[j] = a, b
                        yield DPTArray(tuple(cand))


def own_payloads(
    cls: type[DPTBase], rng: Any, n_random: int = 3000, float_points: str = "full", boundaries: bool | None = None
) -> Iterator[DPTArray | DPTBinary]:
    """Payloads of the type's own kind and length (see module docstring).

    4-octet array types additionally get float32_points(float_points) ("full", "decades" or "none").
    Complex types (or any type with boundaries=True) get boundary_payloads() first.
    """
    size = space_size(cls)
    if boundaries is None:
        boundaries = kind(cls) == "complex"
    if boundaries and size > EXHAUSTIVE_LIMIT:
        yield from boundary_payloads(cls)
    if not is_binary(cls) and cls.payload_length == 4 and float_points != "none":
        for n in float32_points(float_points):
            yield DPTArray(tuple(n.to_bytes(4, "big")))
    if size <= EXHAUSTIVE_LIMIT:
        for i in range(size):
            yield mk(cls, i)
        return
    n = cls.payload_length
    backgrounds = [(0,) * n, (0xFF,) * n, *_accepted_backgrounds(cls, rng)]
    for bg in backgrounds:
        yield DPTArray(bg)
        for pos in range(n):
            head, tail = bg[:pos], bg[pos + 1 :]
            for octet in range(256):
                yield DPTArray((*head, octet, *tail))
    for _ in range(n_random):
        yield DPTArray(tuple(rng.randrange(256) for _ in range(n)))
    # values hugging the ends of the raw space and single bits
    for i in (0, 1, 2, size - 1, size - 2, size // 2, size // 2 - 1, size // 2 + 1):
        yield mk(cls, i)
    for bit in range(8 * n):
        yield mk(cls, 1 << bit)
        yield mk(cls, (size - 1) ^ (1 << bit))


def payloads_for(cls: type[DPTBase], rng: Any, tier: str = "quick") -> Iterator[DPTArray | DPTBinary]:
    """Every payload kind and length that can arrive in a group telegram (C07 space)."""
    quick = tier == "quick"
    for value in range(64):
        yield DPTBinary(value)
    yield DPTArray(())
    for octet in range(256):
        yield DPTArray((octet,))
    own_len = None if is_binary(cls) else cls.payload_length
    if own_len == 2 or not quick:
        for hi in range(256):
            for lo in range(256):
                yield DPTArray((hi, lo))
    else:
        start = rng.randrange(257)
        for i in range(start, 65536, 257):
            yield DPTArray((i >> 8, i & 0xFF))
    for length in (*range(3, 17), *WRONG_LENGTHS_LONG):
        if length == own_len:
            continue
        yield DPTArray((0,) * length)
        yield DPTArray((0xFF,) * length)
        yield DPTArray(tuple(rng.randrange(256) for _ in range(length)))
    if own_len is not None and own_len >= 3:
        yield from own_payloads(cls, rng, 3000 if quick else 100000, boundaries=False if quick else None)


def decode_image(cls: type[DPTBase], rng: Any, n: int = 2000) -> list[tuple[DPTArray | DPTBinary, Any]]:
    """(payload, decoded value) pairs the type accepts.

    Complete (every accepted own-length payload) when the own space has at most
    65536 points; otherwise at most `n` pairs from per-position sweeps and random
    arrays.
    """
    out: list[tuple[DPTArray | DPTBinary, Any]] = []
    seen: set[Any] = set()
    must: list[tuple[DPTArray | DPTBinary, Any]] = []  # structure-aware boundary cases are never sampled away
    if kind(cls) == "complex" and space_size(cls) > EXHAUSTIVE_LIMIT:
        for payload in boundary_payloads(cls):
            if payload.value in seen:
                continue
            seen.add(payload.value)
            status, value = try_decode(cls, payload)
            if status == "ok":
                must.append((payload, value))
    for payload in own_payloads(cls, rng, n_random=2 * n, boundaries=False):
        if must and payload.value in seen:
            continue
        status, value = try_decode(cls, payload)
        if status == "ok":
            out.append((payload, value))
    if space_size(cls) > EXHAUSTIVE_LIMIT and len(out) > n:
        keep = sorted(rng.sample(range(len(out)), n))
        out = [out[i] for i in keep]
    return must + out


def behaviour_signature(cls: type[DPTBase]) -> tuple[Any, ...]:
    """Everything that can make two DPT classes transcode differently.

    Classes with the same signature run the same code with the same parameters
    (e.g. the 104 DPT 14 subtypes).  Quick tiers use it to pick the classes that get
    the exhaustive treatment; the siblings are still run, on a sample.  It is computed
    from the live classes, so a changed subclass becomes its own representative.
    """
    data_type = getattr(cls, "data_type", None)
    return (
        kind(cls),
        tuple(
            owner(cls, a) if hasattr(cls, a) else None
            for a in ("from_knx", "to_knx", "_to_knx", "validate_payload", "_test_boundaries", "_test_range")
        ),
        cls.payload_type.__name__,
        cls.payload_length,
        repr(getattr(cls, "value_min", None)),
        repr(getattr(cls, "value_max", None)),
        repr(getattr(cls, "resolution", None)),
        getattr(cls, "_struct_format", None),
        getattr(cls, "_encoding", None),
        None if data_type is None else (data_type.__name__, tuple(sorted(getattr(data_type, "__members__", ())))),
    )


def representatives(classes: list[type[DPTBase]]) -> set[type[DPTBase]]:
    """First class of every behaviour signature."""
    seen: dict[tuple[Any, ...], type[DPTBase]] = {}
    for cls in classes:
        seen.setdefault(behaviour_signature(cls), cls)
    return set(seen.values())


def same_value(a: Any, b: Any, depth: int = 0) -> bool:
    """Value equality for decoded DPT values: ==, NaN equals NaN, dataclasses/tuples field-wise.

    (vlib.eqv.same walks Enum members through their __dict__/__objclass__, which is
    exponentially slow; decoded DPT values are numbers, str, Enum members and
    slotted dataclasses of those, so this small comparer is enough.)
    """
    import dataclasses
    import enum
    import math

    if a is b:
        return True
    if isinstance(a, enum.Enum) or isinstance(b, enum.Enum):
        return bool(a == b)
    if isinstance(a, float) and isinstance(b, float):
        return a == b or (math.isnan(a) and math.isnan(b))
    if isinstance(a, bool) != isinstance(b, bool):
        return False
    if isinstance(a, (int, float)) and isinstance(b, (int, float)):
        return a == b
    if type(a) is not type(b) or depth > 6:
        return False
    if isinstance(a, (list, tuple)):
        return len(a) == len(b) and all(same_value(x, y, depth + 1) for x, y in zip(a, b))
    if isinstance(a, dict):
        return a.keys() == b.keys() and all(same_value(a[k], b[k], depth + 1) for k in a)
    if dataclasses.is_dataclass(a):
        return all(
            same_value(getattr(a, f.name), getattr(b, f.name), depth + 1) for f in dataclasses.fields(a)
        )
    return bool(a == b)


# -- order dependence (calls must not depend on earlier calls, also across classes) ------------

def families(classes: list[type[DPTBase]]) -> dict[tuple[str, int], list[type[DPTBase]]]:
    """Classes grouped by payload kind and length: the ones that can be handed the same payload."""
    out: dict[tuple[str, int], list[type[DPTBase]]] = {}
    for cls in classes:
        out.setdefault((cls.payload_type.__name__, cls.payload_length), []).append(cls)
    return out


def family_payloads(members: list[type[DPTBase]], rng: Any, n: int) -> list[DPTArray | DPTBinary]:
    """Payloads of the family's kind/length: the whole space if it has <= 256 points, else n distinct ones."""
    first = members[0]
    size = space_size(first)
    if size <= 256:
        return [mk(first, i) for i in range(size)]
    seen: dict[tuple[int, ...], DPTArray | DPTBinary] = {}
    length = first.payload_length
    structured = list(own_payloads(members[rng.randrange(len(members))], rng, n_random=n))
    for payload in rng.sample(structured, min(len(structured), n // 2)):
        seen.setdefault(tuple(payload.value), payload)
    while len(seen) < n:
        cand = tuple(rng.randrange(256) for _ in range(length))
        seen.setdefault(cand, DPTArray(cand))
    return list(seen.values())


def _outcome(fn: Any, arg: Any) -> tuple[str, Any]:
    try:
        return "ok", fn(arg)
    except DECLARED_ERRORS as exc:
        return "reject", type(exc).__name__
    except BaseException as exc:  # noqa: BLE001
        return "crash", type(exc).__name__


def _same_outcome(a: tuple[str, Any], b: tuple[str, Any]) -> bool:
    if a[0] != b[0]:
        return False
    if a[0] == "ok":
        return same_value(a[1], b[1]) if not isinstance(a[1], (DPTArray, DPTBinary)) else a[1] == b[1]
    return bool(a[1] == b[1])


def order_dependence(members: list[type[DPTBase]], payloads: list[Any], rng: Any, flush: int = 300) -> Iterator[dict[str, Any]]:
    """Find from_knx / to_knx results that depend on earlier calls (also calls on sibling classes).

    Phase A (isolation): each class alone, after `flush` decodes of other payloads (so that anything
    a bounded cache kept from other classes is gone), decodes every payload -> reference outcome;
    likewise it encodes each of its own reference values -> reference payload.
    Phase B (interleaved): every payload is decoded by all classes of the family back to back, in
    class order and at once in the reverse order (alternating which comes first); then every class
    encodes its reference value for that payload back to back in the same orders.  An outcome
    that differs from the isolated one is yielded:
    {"op": "decode"|"encode", "cls", "payload", "isolated", "interleaved", "after": [classes called just before]}.
    Outcomes are ("ok", value) | ("reject", exception class name) | ("crash", exception class name).
    """
    first = members[0]
    size = space_size(first)
    in_set = {tuple(p.value) if isinstance(p, DPTArray) else p.value for p in payloads}
    filler: list[Any] = []
    for _ in range(flush):
        if size <= 256:
            filler.append(mk(first, rng.randrange(size)))
        else:
            cand = tuple(rng.randrange(256) for _ in range(first.payload_length))
            if cand not in in_set:
                filler.append(DPTArray(cand))
    ref_dec: dict[type, list[tuple[str, Any]]] = {}
    ref_enc: dict[type, list[tuple[str, Any] | None]] = {}
    for cls in members:
        fill_values = []
        for payload in filler:
            status, value = _outcome(cls.from_knx, payload)
            if status == "ok":
                fill_values.append(value)
        ref_dec[cls] = [_outcome(cls.from_knx, payload) for payload in payloads]
        for value in fill_values:
            _outcome(cls.to_knx, value)
        ref_enc[cls] = [_outcome(cls.to_knx, o[1]) if o[0] == "ok" else None for o in ref_dec[cls]]
    forward = list(members)
    backward = list(reversed(members))
    for j, payload in enumerate(payloads):
        orders = (forward, backward) if j % 2 == 0 else (backward, forward)
        for order in orders:
            for k, cls in enumerate(order):
                got = _outcome(cls.from_knx, payload)
                if not _same_outcome(got, ref_dec[cls][j]):
                    yield {"op": "decode", "cls": cls, "payload": payload, "isolated": ref_dec[cls][j], "interleaved": got,
                           "after": [c.__name__ for c in order[max(0, k - 3):k]]}
        for order in orders:
            for k, cls in enumerate(order):
                ref = ref_enc[cls][j]
                if ref is None:
                    continue
                got = _outcome(cls.to_knx, ref_dec[cls][j][1])
                if not _same_outcome(got, ref):
                    yield {"op": "encode", "cls": cls, "payload": payload, "value": ref_dec[cls][j][1], "isolated": ref, "interleaved": got,
                           "after": [c.__name__ for c in order[max(0, k - 3):k]]}


def public_dpt_form(cls: type[DPTBase]) -> Any:
    """The value_type / {"main", "sub"} form with which the public GroupAddressDPT.set() resolves to `cls` (None if none does)."""
    forms: list[Any] = [cls.value_type] if cls.value_type else []
    forms.append({"main": cls.dpt_main_number, "sub": cls.dpt_sub_number})
    for form in forms:
        if DPTBase.parse_transcoder(form) is cls:
            return form
    return None


def table_relatives(cls: type[DPTBase], classes: list[type[DPTBase]]) -> dict[str, list[type[DPTBase]]]:
    """Classes a group-address table could list for an address whose device uses `cls`:
    own, parent (concrete ancestors), child (concrete subclasses, those transcoding differently first),
    unrelated (same payload kind/length, no inheritance relation, different decoder)."""
    concrete = set(classes)
    parents = [c for c in cls.__mro__[1:] if c in concrete]
    children = [c for c in classes if c is not cls and issubclass(c, cls)]
    sig = behaviour_signature(cls)
    children.sort(key=lambda c: (c.payload_length != cls.payload_length, behaviour_signature(c)[1:] == sig[1:]))
    unrelated = [
        c for c in classes
        if c.payload_type is cls.payload_type and c.payload_length == cls.payload_length
        and not issubclass(c, cls) and not issubclass(cls, c) and owner(c, "from_knx") != owner(cls, "from_knx")
    ]
    return {"own": [cls], "parent": parents[:1], "child": children[:2], "unrelated": unrelated[:1]}
