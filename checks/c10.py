"""C10 complex / enum values round-trip through their JSON form (dict / lower-case name).

For every DPTComplex / DPTEnum class and every value v it decodes:
form = v.as_dict() (complex) or v.name.lower() (enum);
d = json.loads(json.dumps(form)) with the stock encoder must succeed;
T.to_knx(d) must be accepted and T.from_knx(T.to_knx(d)) must be the same value as v.
"""

from __future__ import annotations

import json

from vlib import dpt_gen as G
from xknx.dpt.dpt import DPTComplex, DPTComplexData, DPTEnum, DPTEnumData

LEVEL = "exploration"
TECHNIQUE = (
    "runtime monitor: stock-json serialisability + equality oracle on from_knx(to_knx(json.loads(json.dumps(form(from_knx(p)))))) "
    "for the real DPTComplex/DPTEnum classes"
)
LEVEL_TEXT = (
    "All DPTComplex and DPTEnum classes over their decode image: complete for payloads of <= 2 octets (all 6-bit values / 256 arrays); for 3..8-octet "
    "types every octet value in every position over all-zero, all-0xFF and three accepted backgrounds plus 24,000 (300,000) random arrays (at most 12,000 (150,000) accepted ones kept), every accepted "
    "one judged. Longer payloads are sampled, hence exploration."
)
LEVEL_NOTE = (
    "Trusted: CPython json. Judged: json.dumps (default encoder, no `default=` hook) succeeds, json.loads gives back an equal object, the same type's "
    "to_knx accepts it, the payload decodes to a value equal (== / structurally, NaN-aware) to the first decoded value. Additionally for enums the "
    "member itself and its raw integer are fed to to_knx (recorded, judged only for the name form, which is what the statement names). Each dict is also "
    "written into one long-lived dict object per class (cleared and refilled in place) and encoded again: it must encode like the fresh dict."
)
SHARDS = {"quick": 1, "thorough": 16}
TIMEOUT = {"quick": 300, "thorough": 3000}


def _own(cls):
    own = G.owner(cls, "to_knx")
    if own == "DPTComplex":
        own = G.owner(cls, "_to_knx")
    elif own == "DPTEnum":
        own = "DPTEnum"
    return own


def _null_fields(form):
    if isinstance(form, dict):
        nulls = sorted(k for k, v in form.items() if v is None)
        return "null:" + ",".join(nulls) if nulls else "no-null"
    return "name"


def _accepts(cls, form):
    try:
        cls.to_knx(form)
        return True
    except BaseException:  # noqa: BLE001
        return False


def _culprit(cls, loaded):
    """Which part of a refused dict form is to blame (mechanism classifier, not an oracle).

    The null field whose removal alone makes the encoder accept the dict; else
    "null-fields" if dropping all nulls helps; else "fields".
    """
    if not isinstance(loaded, dict):
        return "name"
    nulls = sorted(k for k, v in loaded.items() if v is None)
    single = [k for k in nulls if _accepts(cls, {kk: vv for kk, vv in loaded.items() if kk != k})]
    if single:
        return "null-field-" + "+".join(single)
    if nulls and _accepts(cls, {k: v for k, v in loaded.items() if v is not None}):
        return "null-fields"
    return "fields"


_SHARED = {}  # class -> the one dict object that is refreshed in place and handed to to_knx again and again


def _judge(ctx, cls, payload, value, shapes=None):
    ctx.ev()
    own = _own(cls)
    witness = {"cls": cls.__name__, "payload": G.describe(payload), "value": repr(value)[:300]}
    # 1. the JSON-able form
    try:
        if isinstance(value, DPTComplexData):
            form = value.as_dict()
            what = "dict"
        elif isinstance(value, DPTEnumData):
            form = value.name.lower()
            what = "name"
        else:
            ctx.violation(f"{own}-decoded-value-is-neither-complex-data-nor-enum", witness,
                          f"{cls.__name__}.from_knx({payload!r}) returned {value!r}, which has no dict/name form")
            return
    except BaseException as exc:  # noqa: BLE001
        ctx.violation(f"{own}-as_dict-raises-{type(exc).__name__}", {**witness, "exception": repr(exc)[:200]},
                      f"{cls.__name__}: as_dict() of {value!r} raised {type(exc).__name__}"[:300])
        return
    # 2. stock JSON cycle
    try:
        text = json.dumps(form)
        loaded = json.loads(text)
    except BaseException as exc:  # noqa: BLE001
        ctx.violation(f"{own}-{what}-form-not-json-serialisable", {**witness, "form": repr(form)[:300], "exception": repr(exc)[:200]},
                      f"{cls.__name__}: {what} form {form!r} of {value!r} is not serialisable by the stock JSON encoder: {exc}"[:300])
        return
    if not G.same_value(loaded, form):
        # tuples become lists etc.: the statement only needs the loaded object to be accepted; record it
        ctx.count("json_cycle_changed_form")
    null_shape = _null_fields(form)
    # 3. accepted by the same type's encoder
    try:
        encoded = cls.to_knx(loaded)
    except BaseException as exc:  # noqa: BLE001
        ctx.violation(
            f"{own}-{what}-form-refused-by-encoder-{type(exc).__name__}-{_culprit(cls, loaded)}",
            {**witness, "json": text[:400], "exception": repr(exc)[:300]},
            f"{cls.__name__}: {payload!r} decodes to {value!r}; its JSON form {text} is refused by to_knx with {type(exc).__name__}: {exc}"[:500],
        )
        return
    # 3b. the same dict OBJECT refreshed in place (what a caller re-using its state dict does) must encode like a fresh one
    if isinstance(loaded, dict):
        shared = _SHARED.setdefault(cls, {})
        if shared:  # written once more with its previous contents, then refreshed in place and written again
            try:
                cls.to_knx(shared)
            except BaseException:  # noqa: BLE001
                pass
        shared.clear()
        shared.update(loaded)
        try:
            again = cls.to_knx(shared)
        except BaseException as exc:  # noqa: BLE001
            again = f"{type(exc).__name__}"
        ctx.count("dict_object_reused_in_place")
        if again != encoded:
            ctx.violation(
                f"{G.owner(cls, 'to_knx')}-dict-form-reused-dict-object-encodes-differently-from-fresh-dict",
                {**witness, "json": text[:400], "fresh": G.describe(encoded), "reused": G.describe(again) if not isinstance(again, str) else again,
                 "needs_previous_value": True},
                f"{cls.__name__}: a dict object refreshed in place to {text} encodes to {again!r}, a fresh equal dict to {encoded!r} (stale state from the previous call)"[:500],
            )
    # 4. decodes to the same value
    status, back = G.try_decode(cls, encoded)
    if status != "ok":
        ctx.violation(f"{own}-{what}-form-encodes-to-undecodable-payload", {**witness, "json": text[:400], "encoded": G.describe(encoded), "exception": repr(back)[:200]},
                      f"{cls.__name__}: JSON form {text} encodes to {encoded!r}, which from_knx rejects"[:300])
        return
    if not G.same_value(value, back):
        ctx.violation(
            f"{own}-{what}-form-roundtrip-changes-value",
            {**witness, "json": text[:400], "encoded": G.describe(encoded), "value_after": repr(back)[:300]},
            f"{cls.__name__}: {value!r} -> {text} -> {encoded!r} -> {back!r}"[:500],
        )
    ctx.count(f"{what}_roundtrips")
    if null_shape.startswith("null:"):
        ctx.count("dict_roundtrips_with_null_fields")
    if shapes is not None:
        shapes.add((what, null_shape))
    # recorded only: other accepted spellings of an enum
    if what == "name":
        for alt in (value, value.value, value.name):
            try:
                ok = G.same_value(cls.from_knx(cls.to_knx(alt)), value)
            except BaseException:  # noqa: BLE001
                ok = False
            ctx.count("enum_alt_form_ok" if ok else "enum_alt_form_differs_recorded")


def run(ctx):
    ctx.rule = (
        "decode image of every DPTComplex/DPTEnum class (complete for <= 2-octet payloads; per-position sweeps over zero/0xFF/accepted backgrounds + random "
        "arrays beyond), each value through as_dict()/name.lower() -> json.dumps -> json.loads -> to_knx -> from_knx; distinct = (class, form kind, set of "
        "null fields)"
    )
    ctx.require("dict_roundtrips", "name_roundtrips", "dict_roundtrips_with_null_fields", "dict_object_reused_in_place")
    classes = [c for c in G.concrete_dpt_classes() if issubclass(c, (DPTComplex, DPTEnum))]
    ctx.extra["complex_enum_classes"] = len(classes)
    if len(classes) < 40:
        ctx.inconclusive(f"only {len(classes)} complex/enum classes discovered")
    n_random = ctx.scale(12000, 150000)
    for i, cls in enumerate(classes):
        if not ctx.mine(i):
            continue
        image = G.decode_image(cls, ctx.rng, n_random)
        shapes = set()
        for payload, value in image:
            _judge(ctx, cls, payload, value, shapes)
        for shape in sorted(shapes):
            ctx.distinct((cls.__name__, *shape))
        ctx.count("classes_run")
        if G.space_size(cls) <= G.EXHAUSTIVE_LIMIT:
            ctx.count("classes_with_complete_image")
        if not image:
            ctx.inconclusive(f"{cls.__name__}: empty decode image")
        elif i % 9 == 0:
            payload, value = image[len(image) // 2]
            form = value.as_dict() if isinstance(value, DPTComplexData) else value.name.lower()
            ctx.sample({"cls": cls.__name__, "payload": G.describe(payload), "json": json.dumps(form), "image_size": len(image)})


def replay(ctx, witness):
    cls = G.class_by_name(witness["cls"])
    payload = G.rebuild(witness["payload"])
    status, value = G.try_decode(cls, payload)
    if status != "ok":
        ctx.inconclusive(f"replay payload not accepted any more: {value!r}")
        return
    if witness.get("needs_previous_value"):  # stale-state cases need an earlier, different value in the shared dict
        for other, other_value in G.decode_image(cls, ctx.rng, 50)[:20]:
            if other != payload:
                _judge(ctx, cls, other, other_value)
                break
    _judge(ctx, cls, payload, value)
    ctx.distinct(("replay", cls.__name__))
    ctx.distinct(("replay", repr(payload)))
