"""C42 timed resets of Switch / BinarySensor and BinarySensor press counters.

Real devices on the virtual loop (real telegram queue and task registry, fake
interface confirming at once, `time.time()` of binary_sensor shimmed to the
virtual clock).  Generated on/off telegram histories with random gaps; the state
and the counter are probed right after every telegram and at reset-eps, reset,
reset+eps (resp. window-eps, window, window+eps) and compared with a reference
timer / counter model.
"""

from __future__ import annotations

import random

from vlib.dev_harness import DevHarness

LEVEL = "exploration"
TECHNIQUE = "runtime monitor: reference timer/counter model compared with device state probed on the virtual clock"
LEVEL_TEXT = (
    "Generated telegram histories (quick 420, thorough 16 x 560; 3..14 telegrams each) for Switch(reset_after), BinarySensor(reset_after) and "
    "BinarySensor(context_timeout) over invert / state-address / ignore_internal_state / always_callback options, gaps drawn around the configured "
    "times (fractions, just below, just above, far beyond). Exploration: histories are sampled."
)
LEVEL_NOTE = (
    "Trusted: virtual loop, clock shim, fake interface (confirms at once, so a Switch's own off telegram is looped back in the same instant). "
    "Telegram times lie on a 2^-6 s grid, probes at +-2^-10 s, so a probe never coincides with a telegram; a telegram is never placed exactly on a "
    "reset / window expiry (that instant's order is not specified by the statement). Judged: state right after every telegram; state on at reset-2^-10 "
    "(when no off telegram intervened), off at reset and reset+2^-10 measured from the LAST on telegram; counter == number of same-state GroupValueWrite "
    "telegrams in the current chain (consecutive gaps < timeout, per state, as documented by the suite's test_counter) after every telegram and at "
    "window-2^-10, and 0 at window / window+2^-10. Recorded only: device callbacks, GroupValueResponse telegrams, the combination "
    "reset_after + context_timeout (a timed reset is not a telegram but is counted by the code)."
)
SHARDS = {"quick": 1, "thorough": 16}
TIMEOUT = {"quick": 120, "thorough": 1500}

G = 2.0**-6
E = 2.0**-10
GA, GA_STATE = "3/0/1", "3/0/2"


def gen(rng: random.Random, index: int) -> dict:
    kind = rng.choice(("switch", "switch", "bs_reset", "bs_reset", "bs_counter", "bs_counter", "bs_combo"))
    base = rng.choice((0.25, 0.5, 1.0, 1.0, 2.0, 3.0, 0.125, 5.0))
    spec: dict = {"index": index, "kind": kind, "invert": rng.random() < 0.35}
    if kind == "switch":
        spec["reset_after"] = base
        spec["state_address"] = rng.random() < 0.4
    elif kind == "bs_reset":
        spec["reset_after"] = base
        spec["ignore_internal_state"] = rng.random() < 0.4
        spec["always_callback"] = rng.random() < 0.3
    elif kind == "bs_counter":
        spec["context_timeout"] = base
    else:
        spec["context_timeout"] = base
        spec["reset_after"] = rng.choice((0.25, 0.5, 1.0, 2.0))
    n = rng.randint(3, 14)
    events = []
    expiries: set = set()
    t = 0.0
    same_state_bias = rng.random()
    with_responses = kind in ("bs_reset", "bs_counter") and rng.random() < 0.1
    last = True
    for _ in range(n):
        c = rng.random()
        if c < 0.15:
            gap = G
        elif c < 0.35:
            gap = base / 4
        elif c < 0.5:
            gap = base / 2
        elif c < 0.65:
            gap = base - G
        elif c < 0.8:
            gap = base + G
        elif c < 0.9:
            gap = 2 * base + G
        else:
            gap = int(rng.uniform(0, 3 * base) / G) * G + G
        gap = max(G, gap)
        t += gap
        while t in expiries:  # never exactly on a reset / window expiry of an earlier telegram
            t += G
        if rng.random() < same_state_bias:
            on = last
        else:
            on = rng.random() < 0.6
        last = on
        how = "write"
        if kind == "switch" and rng.random() < 0.3:
            how = "command"
        elif kind == "switch" and spec["state_address"] and rng.random() < 0.4:
            how = "write_state"
        elif with_responses and rng.random() < 0.3:
            how = "response"
        events.append({"t": t, "on": on, "how": how})
        for key in ("reset_after", "context_timeout"):
            if spec.get(key) is not None:
                expiries.add(t + spec[key])
    spec["events"] = events
    return spec


def run_case(ctx, spec: dict) -> str | None:
    from xknx.devices import BinarySensor, Switch
    from xknx.dpt import DPTBinary

    kind = spec["kind"]
    r = spec.get("reset_after")
    c = spec.get("context_timeout")
    inv = spec["invert"]
    events = spec["events"]
    has_response = any(e["how"] == "response" for e in events)
    judged = kind != "bs_combo" and not has_response
    found: list[str] = []
    trace: list = []
    callbacks: list = []
    h = DevHarness()

    def viol(mech: str, msg: str, extra: dict | None = None) -> None:
        w = {"spec": spec, "trace": trace[-14:], "callbacks": callbacks[-8:]}
        if extra:
            w.update(extra)
        ctx.violation(mech, w, msg)
        found.append(mech)

    # ---- reference model ----------------------------------------------------
    times = [e["t"] for e in events]

    def model_state(t: float) -> bool | None:
        """State at offset t (after everything due at t happened)."""
        last = None
        for e in events:
            if e["t"] <= t:
                last = e
        if last is None:
            return None
        if not last["on"]:
            return False
        if r is not None and t >= last["t"] + r:
            return False
        return True

    def model_counter(t: float) -> int | None:
        if c is None:
            return None
        cnt = {True: 0, False: 0}
        last_t = None
        last_s = None
        for e in events:
            if e["t"] > t:
                break
            if last_t is not None and e["t"] - last_t < c:
                cnt[e["on"]] += 1
            else:
                cnt = {True: 0, False: 0}
                cnt[e["on"]] = 1
            last_t, last_s = e["t"], e["on"]
        if last_t is None:
            return 0
        if t >= last_t + c:
            return 0
        return cnt[last_s]

    # ---- timeline --------------------------------------------------------------
    points: list[tuple[float, int, str, dict | None]] = []
    for e in events:
        points.append((e["t"], 0, "event", e))
        if r is not None and e["on"]:
            for d, tag in ((r - E, "reset-eps"), (r, "reset"), (r + E, "reset+eps")):
                points.append((e["t"] + d, 1, tag, e))
        if c is not None:
            for d, tag in ((c - E, "window-eps"), (c, "window"), (c + E, "window+eps")):
                points.append((e["t"] + d, 1, tag, e))
    points.sort(key=lambda p: (p[0], p[1]))
    special = set()  # instants where a timer expiry and a telegram coincide: not judged
    expiries = set()
    for e in events:
        if r is not None and e["on"]:
            expiries.add(e["t"] + r)
        if c is not None:
            expiries.add(e["t"] + c)
    for t in times:
        if t in expiries:
            special.add(t)

    async def scenario() -> None:
        await h.start()
        t0 = h.now()

        def cb(dev) -> None:
            callbacks.append((h.now() - t0, bool(dev.state) if dev.state is not None else None, getattr(dev, "counter", None)))
            ctx.count("device_callbacks")

        if kind == "switch":
            dev = Switch(h.xknx, "sw", group_address=GA, group_address_state=GA_STATE if spec["state_address"] else None,
                         invert=inv, reset_after=r, sync_state=False, device_updated_cb=cb)
        else:
            dev = BinarySensor(h.xknx, "bs", group_address_state=GA, invert=inv, reset_after=r, context_timeout=c,
                               ignore_internal_state=spec.get("ignore_internal_state", False),
                               always_callback=spec.get("always_callback", False), sync_state=False, device_updated_cb=cb)
        h.xknx.devices.async_add(dev)

        def probe(t: float, tag: str) -> bool:
            ctx.ev()
            st = dev.state
            cnt = getattr(dev, "counter", None)
            trace.append((tag, t, st, cnt))
            if not judged:
                ctx.count("probe_recorded_only")
                exp = model_state(t)
                if kind == "bs_combo":
                    if c is not None and cnt != model_counter(t):
                        ctx.count("combo_counter_differs_from_telegram_count")
                elif exp is not None and bool(st) != exp:
                    ctx.count("response_history_state_differs_from_write_model")
                return True
            if t in special:
                ctx.count("probe_skipped_expiry_coincides_with_telegram")
                return True
            exp = model_state(t)
            if kind != "bs_counter" and exp is not None:
                ctx.count("probe_state")
                if bool(st) != exp or st is None:
                    name = "Switch" if kind == "switch" else "BinarySensor"
                    if r is not None and exp is False and any(e["on"] and e["t"] + r <= t for e in events):
                        late = [e for e in events if e["on"] and e["t"] <= t]
                        restarted = len([e for e in late if e["t"] > late[-1]["t"] - r]) > 1 if late else False
                        mech = f"{name}-still-on-after-reset-time" + ("-repeated-on" if restarted else "")
                    elif exp is True:
                        ons = [e for e in events if e["on"] and e["t"] <= t]
                        repeated = len(ons) > 1 and ons[-1]["t"] - ons[-2]["t"] < r and all(
                            not (not e["on"] and ons[-2]["t"] < e["t"] < ons[-1]["t"]) for e in events)
                        mech = f"{name}-off-before-reset-time" + ("-timer-not-restarted-by-later-on" if repeated else "")
                    else:
                        mech = f"{name}-state-differs-from-last-telegram"
                    viol(mech, f"{tag} at +{t}: state {st!r}, reference {exp}", {"at": t, "tag": tag})
                    return False
            if c is not None:
                ctx.count("probe_counter")
                expc = model_counter(t)
                if expc is not None and expc > 1:
                    ctx.count("probe_counter_above_one")
                if cnt != expc:
                    if expc == 0:
                        mech = "BinarySensor-counter-not-cleared-after-context-window"
                    elif cnt is not None and expc is not None and cnt < expc:
                        mech = "BinarySensor-counter-below-telegrams-in-chain"
                    else:
                        mech = "BinarySensor-counter-above-telegrams-in-chain"
                    viol(mech, f"{tag} at +{t}: counter {cnt!r}, reference {expc}", {"at": t, "tag": tag})
                    return False
            return True

        for t, _o, tag, e in points:
            await h.sleep_until(t0 + t)
            if tag == "event":
                payload = DPTBinary(int(e["on"]) ^ int(inv))
                ctx.count("telegram_" + ("on" if e["on"] else "off"))
                ctx.count("how_" + e["how"])
                if e["how"] == "write":
                    h.incoming_write(GA, payload)
                elif e["how"] == "write_state":
                    h.incoming_write(GA_STATE, payload)
                elif e["how"] == "response":
                    h.incoming_response(GA, payload)
                else:
                    if e["on"]:
                        await dev.set_on()
                    else:
                        await dev.set_off()
                trace.append(("tx" if e["how"] == "command" else "rx", t, e["on"], e["how"]))
                await h.settle()
                if not probe(t, "after-telegram"):
                    return
            else:
                if t in times:
                    continue  # probed by the telegram at that instant (special)
                await h.settle()
                ctx.count("probe_" + tag)
                if not probe(t, tag):
                    return
        # sanitizer diagnostics: the statement says nothing about exceptions, so these are recorded, never judged
        for ex in h.swallowed_exceptions():
            ctx.count(f"diagnostic_swallowed_{ex['exc_type']}")
            diag = ctx.extra.setdefault("diagnostics", [])
            if len(diag) < 3:
                diag.append({"log": ex, "spec_index": spec["index"], "trace": [list(map(str, t)) for t in trace[-8:]]})
        for ex in h.loop.exceptions:
            ctx.count(f"diagnostic_loop_exception_{ex['type']}")
        if kind == "switch":
            ctx.count("switch_off_telegrams_sent", sum(1 for s in h.iface.sent if s.kind == "write"))

    try:
        h.run(scenario(), max_vtime=1e4)
    finally:
        h.close()
    if not found:
        ctx.distinct((kind, "".join(("1" if e["on"] else "0") + e["how"][0] for e in events),
                      tuple(round((b["t"] - a["t"]) / (r or c), 2) for a, b in zip(events, events[1:]))))
    return found[0] if found else None


def run(ctx):
    ctx.rule = (
        "history = 3..14 on/off telegrams (incoming writes; for Switch also own set_on/set_off looped back and writes on the state address; "
        "GroupValueResponse telegrams only in 10% of the BinarySensor histories, recorded only) with gaps from {2^-6, 1/4, 1/2, 1-2^-6, 1+2^-6, 2+2^-6, random} x the configured reset / context time; "
        "distinct = (device kind, on/off+source string, gap ratios)."
    )
    ctx.require("probe_state", "probe_counter", "probe_counter_above_one", "probe_reset-eps", "probe_reset", "probe_reset+eps",
                "probe_window-eps", "probe_window", "telegram_on", "telegram_off", "how_command", "how_write")
    n = ctx.scale(420, 560 * 16)
    for i in range(n):
        if not ctx.mine(i):
            continue
        rng = random.Random(f"C42/{ctx.seed}/{i}")
        spec = gen(rng, i)
        run_case(ctx, spec)
        ctx.count("histories")
        ctx.count("histories_" + spec["kind"])
        if i < 4:
            ctx.sample(spec)


def replay(ctx, witness):
    ctx.rule = "replay of one recorded history"
    run_case(ctx, witness["spec"])
    ctx.distinct("replay")
    ctx.distinct("replay2")
