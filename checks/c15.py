"""C15 Data Secure round trip between two real xknx instances."""

from __future__ import annotations

from vlib import eqv
from vlib.ds_harness import (
    SEQ_MAX,
    Node,
    auth_only_frame,
    group_payload,
    observing_management,
    other_service_payloads,
    seq_of,
)
from vlib.vloop import new_loop
from xknx.telegram import GroupAddress, IndividualAddress, Telegram, tpci
from xknx.telegram.apci import APCI

LEVEL = "exploration"
TECHNIQUE = (
    "runtime monitor: frames secured by the real sender (DataSecure.outgoing_cemi / CEMIHandler.send_telegram / "
    "SecureData.init_from_plain_apdu) are serialised and injected into CEMIHandler.handle_raw_cemi of a second real XKNX; "
    "the delivered telegram is compared with what was sent"
)
LEVEL_TEXT = (
    "Every APDU length 1..240 x {authenticated encryption, authentication only} x {T_Data_Group, T_Data_Broadcast, "
    "T_Data_Tag_Group} with random 128 bit keys, source/destination addresses and 48 bit sequence numbers (extremes 1 and "
    "2^48-1 included), plus APDUs of other services; exploration because keys/addresses/counters are sampled."
)
LEVEL_NOTE = (
    "Trusted: the `cryptography` AES primitive, CPython. Judged: exactly one telegram delivered, payload equal (object and "
    "octets), data_secure flag, source/destination/TPCI. Not judged: Telegram.direction, counters. Sender and receiver "
    "Restart runs: senders take their start counter from the real initialisation path under a harness-owned wall clock "
    "(module-level `time` of xknx.secure.data_secure rebound and restored), frames at least 2 ms apart. Sender and receiver "
    "are both xknx, so a symmetric deviation from the standard is invisible here (that is C19)."
)
SHARDS = {"quick": 1, "thorough": 16}
TIMEOUT = {"quick": 120, "thorough": 1500}

KINDS = ("group", "broadcast", "tag")
PATHS = ("sync", "send", "auth", "enc-api")


def _tpci(kind):
    return {"group": tpci.TDataGroup, "broadcast": tpci.TDataBroadcast, "tag": tpci.TDataTagGroup}[kind]()


def _seq_class(seq):
    if seq == 1:
        return "one"
    if seq == SEQ_MAX:
        return "max"
    return f"bits{seq.bit_length() // 8}"


def _one(ctx, loop, spec):
    """Run one case described by primitives only (so it can be replayed)."""
    key = bytes.fromhex(spec["key"])
    sa, da, kind, path, seq, last = spec["sa"], spec["da"], spec["kind"], spec["path"], spec["seq"], spec["last"]
    payload = APCI.from_knx(bytes.fromhex(spec["apdu"]))
    apdu = bytes(payload.to_knx())
    telegram = Telegram(destination_address=GroupAddress(da), payload=payload, tpci=_tpci(kind))
    noise_keys = {int(k): bytes.fromhex(v) for k, v in spec.get("noise_keys", {}).items()}
    noise_keys[da] = key
    noise_senders = {int(k): v for k, v in spec.get("noise_senders", {}).items()}
    noise_senders[sa] = last
    receiver = Node(noise_keys, noise_senders, own_address=spec["rx"])
    try:
        if path == "sync":
            raw = Node({da: key}, {}, own_address=sa, last_seq_sending=seq).secure_sync(telegram)
        elif path == "send":
            # explicit source address: the sending instance has another address of its own and must keep the requested one
            sender = Node({da: key}, {}, own_address=spec.get("own", sa), last_seq_sending=seq)
            if "own" in spec:
                telegram.source_address = IndividualAddress(sa)
                ctx.count("send_with_explicit_source")
                ctx.count("send_with_explicit_source_device_part_0" if sa & 0xFF == 0 else "send_with_explicit_source_other")
            raw = loop.run(sender.send(telegram), max_vtime=30)
            ctx.check(
                telegram.data_secure is True,
                "sender-does-not-mark-outgoing-telegram-secure",
                {"spec": spec},
                "send_telegram to a keyed group address left telegram.data_secure != True",
            )
        else:
            raw = auth_only_frame(key, telegram, sa, seq, auth_only=(path == "auth"))
    except Exception as exc:  # noqa: BLE001
        ctx.violation(
            f"sender-raises-{type(exc).__name__}-{kind}-{path}",
            {"spec": spec, "exception": repr(exc)[:300]},
            f"securing a {kind} frame ({path}) with APDU length {len(apdu) - 1} raised {type(exc).__name__}",
        )
        return
    ctx.ev()
    ctx.count(f"frames_{path}")
    ctx.count(f"kind_{kind}")
    if seq_of(raw) != seq:
        ctx.violation("frame-carries-other-sequence-number", {"spec": spec, "raw": raw}, f"frame carries {seq_of(raw)} not {seq}")
    # forged / garbage frames that claim the same sender arrive first (lifted counters, bad MAC, wrong key): over any such history
    # the genuine frame still has to be accepted
    forged_seen = []
    for fkind, lift, salt in spec.get("forged", ()):
        n = min(SEQ_MAX, seq + lift)
        b = bytearray(raw)
        if fkind == "lifted":  # the counter of a recorded frame raised: MAC no longer fits
            b[12:18] = n.to_bytes(6, "big")
            if n == seq:
                b[-1] ^= 0x01
        elif fkind == "badmac":
            b[12:18] = n.to_bytes(6, "big")
            b[-1 - salt % 4] ^= 1 << (salt % 8)
        elif fkind == "wrongkey":
            b = bytearray(auth_only_frame(bytes(x ^ 0xA5 for x in key), telegram, sa, n, auth_only=False))
        else:  # "garbage": minimal A_Sec APDU, no key needed
            tpdu = bytes((raw[9], 0xF1, 0x10)) + n.to_bytes(6, "big") + salt.to_bytes(4, "big")
            b = bytearray(raw[:8] + bytes((len(tpdu) - 1,)) + tpdu)
            b[2] |= 0x80
        fo = receiver.feed(bytes(b))
        ctx.count("forged_frames_before_genuine")
        ctx.count(f"forged_{fkind}")
        forged_seen.append((fkind, n, fo.kind()))
        if fo.delivered:
            ctx.count("forged_frame_delivered")  # C16 / C17 judge that; here it would also consume the counter: stop this case
            return
    out = receiver.feed(raw)
    ctx.distinct((kind, path, len(apdu), _seq_class(seq), out.kind(), tuple(f[0] for f in forged_seen)))
    wit = {"spec": spec, "raw": raw, "outcome": out.kind(), "undecoded": out.undecoded, "parse_error": out.incoming_error,
           "forged_before": forged_seen}
    if out.exc is not None:
        ctx.violation(f"receiver-raises-{type(out.exc).__name__}", dict(wit, exception=repr(out.exc)[:300]),
                      f"handle_raw_cemi raised {type(out.exc).__name__} on a genuine secured frame")
        return
    got = out.delivered
    if len(got) != 1:
        if not got and forged_seen:
            # does the same frame pass when nothing forged came first?
            clean = Node(noise_keys, noise_senders, own_address=spec["rx"]).feed(raw)
            if len(clean.delivered) == 1:
                ctx.violation("genuine-frame-not-delivered-after-forged-frames-from-the-same-sender", wit,
                              f"{kind}/{path} frame with counter {seq} is refused after rejected forged frames {forged_seen} "
                              "(a fresh receiver accepts it)")
                return
        ctx.violation(
            f"genuine-frame-not-delivered-{kind}-{path}" if not got else f"genuine-frame-delivered-{len(got)}-times",
            wit,
            f"{kind}/{path} frame, APDU length {len(apdu) - 1}, seq {seq}: {len(got)} telegrams delivered "
            f"(undecoded={out.undecoded}, parse_error={out.incoming_error})",
        )
        return
    where = "queue" if out.queued else "management"
    ctx.count(f"delivered_via_{where}")
    if (kind == "group") != (where == "queue"):
        ctx.count("unexpected_route")  # routing is C14's business: recorded only
    t = got[0]
    try:
        same_bytes = bytes(t.payload.to_knx()) == apdu
    except Exception:  # noqa: BLE001
        same_bytes = False
    ctx.check(same_bytes and eqv.same(t.payload, payload), f"delivered-payload-differs-{kind}-{path}",
              dict(wit, delivered=repr(t.payload)[:300]),
              f"delivered payload {t.payload!r:.120} differs from the APDU sent ({len(apdu) - 1} octets)")
    ctx.check(t.data_secure is True, "delivered-telegram-not-marked-data-secure", dict(wit, data_secure=t.data_secure),
              f"delivered telegram has data_secure={t.data_secure!r}")
    ctx.check(
        t.source_address == IndividualAddress(sa) and t.destination_address == GroupAddress(da) and t.tpci == _tpci(kind),
        "delivered-addressing-differs",
        dict(wit, src=str(t.source_address), dst=str(t.destination_address), tpci=repr(t.tpci)),
        "delivered telegram has other source/destination/TPCI than the frame sent",
    )
    ctx.check(not out.key_issue and out.undecoded == 0, "genuine-frame-reported-as-key-issue", wit,
              "a genuine frame was (also) reported as undecodable")
    ctx.count("roundtrips_ok")
    if ctx.evaluations <= 3 or (len(apdu) > 200 and len(ctx.samples) < 5):
        ctx.sample({"kind": kind, "path": path, "seq": seq, "apdu_len": len(apdu) - 1, "raw": raw[:48], "delivered": repr(t.payload)[:80]})


# ---------------------------------------------------------------------------
# through the real interface: frames that arrive while / right after the tunnel connects, and after stop() + start()
# of the same XKNX with a re-exported keyring that lists an additional sender

def _tagged(tag):
    from xknx.dpt import DPTArray
    from xknx.telegram.apci import GroupValueWrite

    return GroupValueWrite(DPTArray((0xA5, tag & 0xFF, tag >> 8)))


def _tag_of(t):
    try:
        v = t.payload.value.value
        return (v[1] | (v[2] << 8)) if len(v) == 3 and v[0] == 0xA5 else None
    except Exception:  # noqa: BLE001
        return None


def _interface_case(ctx, spec):
    import os
    import shutil
    import tempfile

    from vlib.ds_harness import (
        KEYRING_PASSWORD,
        InterfaceSession,
        load_project_keyring,
        make_project,
        sync_keyring_loading,
        write_project_keyring,
    )
    from xknx.io import SecureConfig

    r = _PRng(spec["seed"])
    keys = {int(g): bytes.fromhex(k) for g, k in spec["keys"].items()}
    gas = sorted(keys)
    tmp = tempfile.mkdtemp(prefix="dsec-c15-", dir="/dev/shm" if os.path.isdir("/dev/shm") else None)
    path = os.path.join(tmp, "project.knxkeys")
    state = {"tag": 0, "counter": 100}
    expected = []  # (tag, phase, timing, sender)

    def project(phase):
        return make_project(keys, {int(a): n for a, n in spec["phases"][phase]["devices"].items()},
                            {gas[0]: spec["phases"][phase]["interface_senders"]} if spec["phases"][phase]["interface_senders"] else None)

    def frame(phase, timing):
        senders = spec["phases"][phase]["senders"]
        # after a restart favour the senders the new export added
        added = [a for a in senders if phase and a not in spec["phases"][phase - 1]["senders"]]
        sa = r.choice(added) if added and r.random() < 0.6 else r.choice(senders)
        state["tag"] += 1
        state["counter"] += r.choice((1, 2, 50))
        ga = r.choice(gas)
        raw = Node({ga: keys[ga]}, {}, own_address=sa, last_seq_sending=state["counter"]).secure_sync(
            Telegram(destination_address=GroupAddress(ga), payload=_tagged(state["tag"])))
        expected.append((state["tag"], phase, timing, sa, sa in added))
        return raw

    try:
        with sync_keyring_loading():
            if spec["mode"] == "file":
                write_project_keyring(project(0), r, path)
                cfg = SecureConfig(knxkeys_file_path=path, knxkeys_password=KEYRING_PASSWORD)
            else:
                cfg = SecureConfig(keyring=load_project_keyring(project(0), r))
            s = InterfaceSession(spec["transport"], cfg)

            async def main():
                for phase in range(len(spec["phases"])):
                    if phase:
                        await s.xknx.stop()
                        ctx.count("interface_restarts")
                        if spec["mode"] == "file":
                            write_project_keyring(project(phase), r, path)
                        else:
                            cfg.keyring = load_project_keyring(project(phase), r)
                    s.burst = [frame(phase, "with-connect-response") for _ in range(spec["nburst"])]
                    s.right_after = [frame(phase, "right-after-connect-response") for _ in range(spec["nafter"])]
                    await s.xknx.start()
                    for _ in range(spec["nlater"]):
                        s.push(frame(phase, "later"), delay=0.02)
                    await s.settle(0.5)
                await s.xknx.stop()

            try:
                s.run(main())
            except Exception as exc:  # noqa: BLE001 - connection trouble of the harness is never a verdict
                ctx.inconclusive(f"interface case did not finish: {type(exc).__name__}: {exc}")
                return
            finally:
                s.close()
    finally:
        shutil.rmtree(tmp, ignore_errors=True)
    ctx.count("interface_cases")
    ctx.count(f"interface_{spec['transport']}_{spec['mode']}")
    got = [(_tag_of(t), t) for t in s.telegrams]
    for tag, phase, timing, sa, added in expected:
        ctx.ev()
        hits = [t for g, t in got if g == tag]
        ctx.distinct(("iface", spec["transport"], spec["mode"], phase > 0, timing, added, len(hits)))
        wit = {"spec": spec, "phase": phase, "timing": timing, "sender": sa, "sender_added_by_new_keyring": added, "delivered": len(hits),
               "key_issue_reports": len(s.issues)}
        if len(hits) != 1:
            if phase and added:
                mech = "frame-from-sender-added-by-new-keyring-not-delivered-after-restart"
            elif phase:
                mech = f"genuine-frame-not-delivered-after-restart-{timing}"
            else:
                mech = f"genuine-frame-arriving-{timing}-not-delivered"
            ctx.violation(mech if not hits else f"genuine-frame-delivered-{len(hits)}-times", wit,
                          f"{spec['transport']}/{spec['mode']} phase {phase}: secured frame from {sa:#06x} arriving {timing}: {len(hits)} telegrams")
            continue
        ctx.check(hits[0].data_secure is True, "delivered-telegram-not-marked-data-secure", wit, "data_secure flag not set")
        ctx.count("interface_frames_delivered")
        ctx.count(f"interface_delivered_{timing}")
        if phase:
            ctx.count("interface_delivered_after_restart")
        if added:
            ctx.count("interface_delivered_from_added_sender")


def _interface_spec(rng, i):
    gas = rng.sample(range(1, 0x10000), rng.choice((1, 2)))
    ias = rng.sample(range(0x100, 0xFFFF), 5)
    phases = []
    members = [ias[: rng.randrange(1, 4)]]
    members.append(members[0] + [ias[3]] + ([ias[4]] if rng.random() < 0.4 else []))  # the re-export lists additional senders
    for m in members:
        via = [a for a in m if rng.random() < 0.3]
        phases.append({"senders": m, "devices": {str(a): rng.choice((None, 0, rng.randrange(1, 50))) for a in m if a not in via},
                       "interface_senders": via})
    return {"transport": ("tcp", "udp")[i % 2], "mode": ("file", "object")[(i // 2) % 2], "keys": {str(g): rng.randbytes(16).hex() for g in gas},
            "phases": phases, "nburst": 1 + i % 3, "nafter": (i // 3) % 3, "nlater": 1 + i % 2, "seed": rng.randrange(1 << 30)}


# ---------------------------------------------------------------------------
# the same CEMILData object secured again after its fields were changed

def _reuse_case(ctx, rng):
    from xknx.cemi import CEMILData

    gas = rng.sample(range(1, 0x10000), 3)
    srcs = rng.sample(range(1, 0x10000), 3)
    keys = {g: rng.randbytes(16) for g in gas}
    sender = Node(keys, {}, own_address=srcs[0], last_seq_sending=rng.randrange(1, 1 << 40))
    receiver = Node(keys, {a: 0 for a in srcs}, own_address=0x00FD)
    data = CEMILData.init_from_telegram(Telegram(destination_address=GroupAddress(gas[0]), payload=group_payload(rng, 2)),
                                        src_addr=IndividualAddress(srcs[0]))
    changed = "first"
    for step in range(rng.randrange(3, 7)):
        from xknx.cemi import CEMIFrame, CEMIMessageCode

        from vlib.ds_harness import ind_from_req

        secured = sender.ds.outgoing_cemi(data)
        raw = ind_from_req(CEMIFrame(code=CEMIMessageCode.L_DATA_REQ, data=secured).to_knx())
        out = receiver.feed(raw)
        ctx.ev()
        ctx.count("reused_cemi_data_sends")
        ctx.distinct(("reuse", changed, out.kind()))
        wit = {"changed_before_this_send": changed, "src": data.src_addr.raw, "dst": data.dst_addr.raw, "raw": raw, "outcome": out.kind(),
               "keys": {str(g): k for g, k in keys.items()}}
        ok = (len(out.delivered) == 1 and out.delivered[0].source_address == data.src_addr
              and out.delivered[0].destination_address == data.dst_addr
              and bytes(out.delivered[0].payload.to_knx()) == bytes(data.payload.to_knx()))
        if not ok:
            ctx.violation(f"reused-cemi-data-not-delivered-after-{changed}-changed", wit,
                          f"CEMILData secured again after its {changed} was changed: receiver outcome {out.kind()}")
            return
        ctx.count("reused_cemi_data_delivered")
        changed = rng.choice(("destination", "source", "payload", "tpci"))
        if changed == "destination":
            data.dst_addr = GroupAddress(rng.choice([g for g in gas if g != data.dst_addr.raw]))
        elif changed == "source":
            data.src_addr = IndividualAddress(rng.choice([a for a in srcs if a != data.src_addr.raw]))
        elif changed == "payload":
            data.payload = group_payload(rng, rng.choice((1, 3, 20)))
        else:
            data.tpci = tpci.TDataTagGroup() if isinstance(data.tpci, tpci.TDataGroup) else tpci.TDataGroup()


class _WallClock:
    """Stands in for the module-level `time` of xknx.secure.data_secure (the harness owns wall time)."""

    def __init__(self, now):
        self.now = now

    def time(self):
        return self.now


OFFSETS = (0.0, 0.001, 0.010, 0.5, 0.999, 1.0, 2.0)


def _restart_case(ctx, loop, spec):
    """Sender instances created through the real initialisation (no explicit counter), re-created later, same receiver."""
    import xknx.secure.data_secure as dsmod

    key = bytes.fromhex(spec["key"])
    sa, da = spec["sa"], spec["da"]
    clock = _WallClock(spec["t0"])
    saved = dsmod.time
    dsmod.time = clock
    counters = []
    try:
        receiver = Node({da: key}, {sa: 0}, own_address=spec["rx"])
        for session, (offset, nframes) in enumerate(spec["sessions"]):
            clock.now += offset
            sender = Node({da: key}, {}, own_address=sa, last_seq_sending=None)  # DataSecure takes its start value from the clock
            ctx.count("sender_sessions_started_from_clock")
            for i in range(nframes):
                clock.now += spec["gap"]  # the bus carries well below one frame per millisecond
                payload = group_payload(_PRng(spec["pseed"] + 31 * session + i), 1 + (i % 3))
                telegram = Telegram(destination_address=GroupAddress(da), payload=payload)
                raw = sender.secure_sync(telegram) if spec["path"] == "sync" else loop.run(sender.send(telegram), max_vtime=30)
                out = receiver.feed(raw)
                ctx.ev()
                ctx.count("restart_frames")
                counters.append(seq_of(raw))
                wit = {"spec": spec, "session": session, "frame": i, "offset_before_session": offset, "counters_so_far": counters,
                       "raw": raw, "outcome": out.kind()}
                ctx.distinct(("restart", session > 0, offset, out.kind()))
                if out.exc is not None:
                    ctx.violation(f"receiver-raises-{type(out.exc).__name__}", wit, "receiver raised")
                    return
                ok = len(out.delivered) == 1 and bytes(out.delivered[0].payload.to_knx()) == bytes(payload.to_knx())
                if not ok:
                    reused = session > 0 and counters[-1] <= max(counters[:-1])
                    ctx.violation(
                        "frame-of-restarted-sender-not-delivered-counter-reused" if reused else "frame-of-restarted-sender-not-delivered",
                        wit,
                        f"sender re-initialised {offset}s after its last frame: frame with counter {counters[-1]} not delivered "
                        f"(counters so far {counters[-6:]})")
                    return
                ctx.count("restart_frames_delivered")
                if session > 0:
                    ctx.count(f"delivered_after_restart_offset_{offset}")
    finally:
        dsmod.time = saved
    if len(ctx.samples) < 7:
        ctx.sample({"restart_offsets": [o for o, _ in spec["sessions"]], "counters": counters})


class _PRng:
    def __init__(self, seed):
        import random

        self._r = random.Random(seed)

    def __getattr__(self, name):
        return getattr(self._r, name)


def _restart_spec(rng, offset):
    sa = rng.randrange(1, 0x10000)
    sessions = [(0.0, rng.randrange(1, 6)), (offset, rng.randrange(1, 5))]
    if rng.random() < 0.4:
        sessions.append((rng.choice(OFFSETS), rng.randrange(1, 4)))
    return {"key": rng.randbytes(16).hex(), "sa": sa, "da": rng.randrange(1, 0x10000), "rx": (sa % 0xFFFF) + 1,
            # a wall clock reading between 2024 and 2030, anywhere within its second
            "t0": 1_704_067_200 + rng.randrange(0, 6 * 365 * 86400) + rng.choice((0.0, 0.0005, rng.random(), 0.9985)),
            "gap": rng.choice((0.002, 0.005, 0.05)), "sessions": sessions, "path": rng.choice(("sync", "send")),
            "pseed": rng.randrange(1 << 30)}


def _spec(ctx, rng, kind, path, payload):
    sa = rng.randrange(1, 0x10000)
    da = 0 if kind == "broadcast" else rng.randrange(1, 0x10000)
    r = rng.random()
    if r < 0.04:
        seq = 1
    elif r < 0.08:
        seq = SEQ_MAX
    elif r < 0.3:
        seq = rng.getrandbits(rng.choice((8, 16, 24, 32, 40))) + 1
    else:
        seq = rng.randrange(1, SEQ_MAX + 1)
    last = rng.choice((0, seq - 1, rng.randrange(0, seq)))
    own = None
    if path == "send" and rng.random() < 0.6:
        # explicit Telegram.source_address, incl. coupler style x.y.0, 0.0.1 and 15.15.255
        sa = rng.choice((0x1100, 0x4000, 0xFF00, 0x0100, 0x0001, 0xFFFF, rng.randrange(1, 256) << 8, rng.randrange(1, 16) << 12,
                         rng.randrange(1, 0x10000)))
        own = rng.choice([a for a in (0x1001, 0x1105, rng.randrange(1, 0x10000)) if a != sa])
    rx = rng.randrange(1, 0x10000)
    spec = {
        "key": rng.randbytes(16).hex(), "sa": sa, "da": da, "kind": kind, "path": path, "seq": seq, "last": last,
        "rx": rx if rx != sa else (sa % 0xFFFF) + 1, "apdu": bytes(payload.to_knx()).hex(),
    }
    if own is not None:
        spec["own"] = own
    if rng.random() < 0.4:
        spec["forged"] = [[rng.choice(("lifted", "badmac", "wrongkey", "garbage")), rng.choice((0, 1, 7, 1000, 1 << 24, 1 << 40)),
                           rng.randrange(1 << 32)] for _ in range(rng.randrange(1, 4))]
    if rng.random() < 0.5:
        spec["noise_keys"] = {str(rng.randrange(1, 0x10000)): rng.randbytes(16).hex() for _ in range(3)}
        spec["noise_senders"] = {str(rng.randrange(1, 0x10000)): rng.randrange(0, SEQ_MAX) for _ in range(3)}
        spec["noise_keys"].pop(str(da), None)
        spec["noise_senders"].pop(str(sa), None)
    return spec


def run(ctx):
    rng = ctx.rng
    ctx.rule = (
        "case = (TPCI kind, path, APDU length 1..240, random key/SA/DA/48-bit counter, receiver's last valid counter below it); "
        "paths: sync = DataSecure.outgoing_cemi, send = CEMIHandler.send_telegram on the virtual loop, auth / enc-api = "
        "SecureData.init_from_plain_apdu (authentication only / encryption); distinct = (kind, path, APDU octets, counter size class, outcome)"
    )
    ctx.require("roundtrips_ok", "frames_sync", "frames_send", "frames_auth", "frames_enc-api", "send_with_explicit_source_device_part_0",
                "send_with_explicit_source_other", "forged_frames_before_genuine", "forged_lifted", "forged_badmac", "forged_wrongkey",
                "forged_garbage", "kind_group", "kind_broadcast",
                "kind_tag", "delivered_via_queue", "delivered_via_management", "sender_sessions_started_from_clock", "restart_frames_delivered",
                "delivered_after_restart_offset_0.0", "delivered_after_restart_offset_0.001", "delivered_after_restart_offset_0.999",
                "delivered_after_restart_offset_2.0")
    reps = ctx.scale(3, 300)
    # interface cases use a loop of their own each (the scripted gateway owns its loop): run them first
    for i in range(ctx.scale(12, 480)):
        spec = _interface_spec(rng, i)
        if ctx.mine(i):
            with observing_management():
                _interface_case(ctx, spec)
    ctx.require("interface_cases", "interface_restarts", "interface_delivered_with-connect-response",
                "interface_delivered_right-after-connect-response", "interface_delivered_later", "interface_delivered_after_restart",
                "interface_delivered_from_added_sender", "reused_cemi_data_delivered")
    loop = new_loop()
    idx = 0
    try:
        with observing_management():
            for rep in range(reps):
                for length in range(1, 241):
                    for kind in KINDS:
                        for alg in ("enc", "auth"):
                            idx += 1
                            if not ctx.mine((idx * 0x9E3779B1) >> 12):
                                continue
                            if alg == "auth":
                                path = "auth"
                            else:
                                path = ("sync", "send", "enc-api")[(length + rep + KINDS.index(kind)) % 3]
                            _one(ctx, loop, _spec(ctx, rng, kind, path, group_payload(rng, length)))
            # senders initialised from the wall clock and re-initialised shortly afterwards (interface stop / start)
            for rep in range(ctx.scale(40, 3000)):
                for offset in OFFSETS:
                    idx += 1
                    spec = _restart_spec(rng, offset)
                    if ctx.mine((idx * 0x9E3779B1) >> 12):
                        _restart_case(ctx, loop, spec)
            for i in range(ctx.scale(200, 20000)):
                if ctx.mine(i):
                    _reuse_case(ctx, rng)
                else:
                    rng.random()
            # other services (management style APDUs are what broadcast / tag frames carry in practice)
            if ctx.shard == 0 or not ctx.quick:
                for payload in other_service_payloads(rng, ctx.scale(60, 40)):
                    for kind in KINDS:
                        path = rng.choice(PATHS)
                        ctx.count("other_service_cases")
                        _one(ctx, loop, _spec(ctx, rng, kind, path, payload))
    finally:
        loop.finish()
    ctx.extra["lengths_covered"] = "APDU length 1..240 for each kind and algorithm"


def replay(ctx, witness):
    if "phases" in witness.get("spec", {}):
        with observing_management():
            _interface_case(ctx, witness["spec"])
        ctx.distinct("replay")
        ctx.distinct("replay2")
        return
    loop = new_loop()
    try:
        with observing_management():
            if "phases" in witness.get("spec", {}):
                pass
            elif "sessions" in witness["spec"]:
                _restart_case(ctx, loop, witness["spec"])
            else:
                _one(ctx, loop, witness["spec"])
            ctx.distinct("replay")
            ctx.distinct("replay2")
    finally:
        loop.finish()
