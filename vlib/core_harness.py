"""Real XKNX core services on the virtual loop, without any I/O.

`FakeInterface` is assigned to the public slot `xknx.knxip_interface`.  With it
the *real* `XKNX.start()`, `XKNX.join()`, `XKNX.stop()`, `TelegramQueue`,
`CEMIHandler.send_telegram`, `StateUpdater`, `ValueReader`, `TaskRegistry`,
`Devices` and `ConnectionManager` run unmodified: start() finds an interface
whose `start()` reports CONNECTED through the real connection manager instead of
opening sockets, and every outgoing telegram ends in `FakeInterface.send_cemi`,
whose outcome (ok / slow / raise / confirmation delay) is scripted per hand-off.

Nothing in here decides a property; it records what happened at the public
boundary (interface hand-offs with virtual times, Device.process calls,
callback calls) for the oracles in checks/c33..c37.
"""

from __future__ import annotations

import asyncio
from collections.abc import Callable
import contextlib
from dataclasses import dataclass, field
from typing import Any

from xknx import XKNX
from xknx.cemi import CEMIFrame, CEMILData, CEMIMessageCode
from xknx.core import XknxConnectionState
from xknx.core.connection_state import XknxConnectionType
from xknx.devices import Device
from xknx.io import ConnectionConfig
from xknx.telegram import IndividualAddress, Telegram, TelegramDirection
from xknx.telegram.address import GroupAddress, InternalGroupAddress

from .vloop import Deadlock, LoopBudget, VLoop, new_loop

CONNECTED = XknxConnectionState.CONNECTED
CONNECTING = XknxConnectionState.CONNECTING
DISCONNECTED = XknxConnectionState.DISCONNECTED

T0 = 1000.0  # VLoop start of time


@dataclass
class Outcome:
    """What one `send_cemi` hand-off does.

    delay    virtual seconds the send takes before it returns / raises
    exc      exception *factory* (callable -> exception) raised after `delay`, or None
    confirm  "sync": L_DATA.con delivered inside send_cemi before it returns,
             float d: delivered d virtual seconds after send_cemi returned,
             None: never (the CEMI handler's 3 s confirmation timeout runs out),
             list of those: several copies (duplicates, copies after the timeout)
    """

    kind: str = "ok"
    delay: float = 0.0
    exc: Callable[[], BaseException] | None = None
    confirm: Any = "sync"


OK = Outcome()


@dataclass
class Handoff:
    """One call of `send_cemi`."""

    index: int
    t_start: float
    cemi: CEMIFrame
    telegram: Telegram | None
    outcome: Outcome
    active_at_start: int
    state_at_start: XknxConnectionState
    rate_limit_at_start: Any = None
    t_end: float | None = None
    raised: str | None = None
    raw: bytes | None = None


class FakeInterface:
    """Scripted stand-in for `KNXIPInterface` (slot `xknx.knxip_interface`)."""

    def __init__(
        self,
        xknx: XKNX,
        script: Callable[[CEMIFrame, int], Outcome] | list[Outcome] | None = None,
        connect_on_start: bool = True,
        serialise: bool = True,
        disconnect_on_stop: bool = True,
    ) -> None:
        self.xknx = xknx
        self.connection_config = ConnectionConfig()
        self.script = script
        self.connect_on_start = connect_on_start
        self.disconnect_on_stop = disconnect_on_stop
        self.serialise = serialise
        self.handoffs: list[Handoff] = []
        self.active = 0
        self.max_active = 0
        self.start_calls = 0
        self.stop_calls = 0
        # observers: fn(handoff) called when a hand-off starts (bus model, monitors)
        self.on_handoff: list[Callable[[Handoff], None]] = []
        self.on_handoff_end: list[Callable[[Handoff], None]] = []
        # chronological: ("start"|"end", hand-off index, vtime) and ("con", index of the hand-off it belongs to, vtime)
        self.timeline: list[tuple[str, int | None, float]] = []

    # -- what XKNX.start()/stop() call ---------------------------------------
    async def start(self) -> None:
        self.start_calls += 1
        if self.connect_on_start:
            set_state(self.xknx, CONNECTED)

    async def stop(self) -> None:
        self.stop_calls += 1
        if self.disconnect_on_stop:
            set_state(self.xknx, DISCONNECTED)

    # -- what CEMIHandler.send_telegram calls -----------------------------------
    def _outcome(self, cemi: CEMIFrame, index: int) -> Outcome:
        if self.script is None:
            return OK
        if callable(self.script):
            return self.script(cemi, index)
        if index < len(self.script):
            return self.script[index]
        return OK

    def confirm(self, cemi: CEMIFrame, index: int | None = None) -> None:
        """Deliver the L_DATA.con for `cemi` through the real CEMI handler."""
        self.timeline.append(("con", index, asyncio.get_running_loop().time()))
        con = CEMIFrame(code=CEMIMessageCode.L_DATA_CON, data=cemi.data)
        self.xknx.cemi_handler.handle_cemi_frame(con)

    def confirm_last(self) -> bool:
        """An unsolicited / repeated L_DATA.con for the most recent hand-off (if any)."""
        if not self.handoffs:
            return False
        self.confirm(self.handoffs[-1].cemi, self.handoffs[-1].index)
        return True

    async def send_cemi(self, cemi: CEMIFrame) -> None:
        loop = asyncio.get_running_loop()
        index = len(self.handoffs)
        outcome = self._outcome(cemi, index)
        telegram = None
        if isinstance(cemi.data, CEMILData):
            try:
                telegram = cemi.data.telegram()
            except Exception:  # noqa: BLE001
                telegram = None
        ho = Handoff(
            index=index,
            t_start=loop.time(),
            cemi=cemi,
            telegram=telegram,
            outcome=outcome,
            active_at_start=self.active,
            state_at_start=self.xknx.connection_manager.state,
            rate_limit_at_start=self.xknx.rate_limit,
        )
        self.handoffs.append(ho)
        self.timeline.append(("start", index, ho.t_start))
        self.active += 1
        self.max_active = max(self.max_active, self.active)
        try:
            for fn in list(self.on_handoff):
                fn(ho)
            if self.serialise:
                # what every real interface does first; raises what the real code raises
                ho.raw = cemi.to_knx()
            if outcome.delay:
                await asyncio.sleep(outcome.delay)
            if outcome.exc is not None:
                raise outcome.exc()
            copies = outcome.confirm if isinstance(outcome.confirm, (list, tuple)) else [outcome.confirm]
            for c in copies:
                if c == "sync":
                    self.confirm(cemi, index)
                elif c is not None:
                    loop.call_later(float(c), self.confirm, cemi, index)
        except BaseException as exc:
            ho.raised = type(exc).__name__
            raise
        finally:
            ho.t_end = loop.time()
            self.timeline.append(("end", index, ho.t_end))
            self.active -= 1
            for fn in list(self.on_handoff_end):
                fn(ho)


# ---------------------------------------------------------------------------
# building / driving
# ---------------------------------------------------------------------------


def make_xknx(**kwargs: Any) -> XKNX:
    """A real XKNX whose interface slot holds a `FakeInterface`.

    Call from inside a coroutine running on the virtual loop.  Keyword
    `script` / `connect_on_start` go to the fake interface, the rest to XKNX.
    """
    fake_kw = {
        k: kwargs.pop(k)
        for k in ("script", "connect_on_start", "serialise", "disconnect_on_stop")
        if k in kwargs
    }
    xknx = XKNX(**kwargs)
    xknx.knxip_interface = FakeInterface(xknx, **fake_kw)  # type: ignore[assignment]
    xknx.current_address = IndividualAddress("1.1.250")
    return xknx


def fake(xknx: XKNX) -> FakeInterface:
    iface = xknx.knxip_interface
    assert isinstance(iface, FakeInterface)
    return iface


def set_state(xknx: XKNX, state: XknxConnectionState) -> None:
    """Connection state change through the real connection manager."""
    xknx.connection_manager.connection_state_changed(
        state,
        XknxConnectionType.TUNNEL_TCP
        if state == CONNECTED
        else XknxConnectionType.NOT_CONNECTED,
    )


async def start_queue_only(xknx: XKNX) -> None:
    """The part of XKNX.start() concerning the telegram queue."""
    assert isinstance(xknx.knxip_interface, FakeInterface)
    await xknx.knxip_interface.start()
    await xknx.telegram_queue.start()
    xknx.started.set()


def inject_incoming(xknx: XKNX, telegram: Telegram) -> None:
    """A telegram arrives from the bus.

    Group-addressed telegrams take the real path (L_DATA.ind -> CEMIHandler ->
    xknx.telegrams); internal addresses have no wire form and are queued directly.
    """
    if isinstance(telegram.destination_address, InternalGroupAddress):
        telegram.direction = TelegramDirection.INCOMING
        xknx.telegrams.put_nowait(telegram)
        return
    data = CEMILData.init_from_telegram(telegram)
    xknx.cemi_handler.handle_cemi_frame(
        CEMIFrame(code=CEMIMessageCode.L_DATA_IND, data=data)
    )


def queue_outgoing(xknx: XKNX, telegram: Telegram) -> None:
    telegram.direction = TelegramDirection.OUTGOING
    xknx.telegrams.put_nowait(telegram)


# ---------------------------------------------------------------------------
# observers
# ---------------------------------------------------------------------------


@dataclass
class ProcessLog:
    """Calls of Device.process, recorded at class level."""

    calls: list[tuple[float, Device, Telegram, str | None]] = field(default_factory=list)


@contextlib.contextmanager
def watch_device_process(time_fn: Callable[[], float] | None = None, sink: Callable[[list], None] | None = None):
    """Wrap `Device.process` (never overridden by a device class) and restore it.

    Yields a ProcessLog; entry = (vtime, device, telegram, name of the exception the
    device raised or None).  Exceptions are re-raised unchanged.  `sink(entry)` is
    called before the device code runs (to keep one chronological log).
    """
    log = ProcessLog()
    original = Device.process

    def process(self: Device, telegram: Telegram) -> None:
        t = time_fn() if time_fn is not None else 0.0
        entry = [t, self, telegram, None]
        log.calls.append(entry)  # type: ignore[arg-type]
        if sink is not None:
            sink(entry)
        try:
            return original(self, telegram)
        except BaseException as exc:
            entry[3] = type(exc).__name__
            raise

    Device.process = process  # type: ignore[method-assign]
    try:
        yield log
    finally:
        Device.process = original  # type: ignore[method-assign]


class ProbeDevice(Device):
    """A user-defined device: listens on given addresses, records, may raise."""

    def __init__(
        self,
        xknx: XKNX,
        name: str,
        addresses: list[GroupAddress | InternalGroupAddress],
        raises: Callable[[], Exception] | None = None,
    ) -> None:
        super().__init__(xknx, name)
        self.addresses = list(addresses)
        self.raises = raises
        self.seen: list[Telegram] = []

    def _iter_remote_values(self):  # type: ignore[override]
        yield from ()

    def group_addresses(self):  # type: ignore[override]
        return set(self.addresses)

    def has_group_address(self, group_address):  # type: ignore[override]
        return group_address in self.addresses

    def process_group_write(self, telegram):  # type: ignore[override]
        self.seen.append(telegram)
        if self.raises is not None:
            raise self.raises()

    def process_group_read(self, telegram):  # type: ignore[override]
        self.seen.append(telegram)
        if self.raises is not None:
            raise self.raises()


# ---------------------------------------------------------------------------
# running one case
# ---------------------------------------------------------------------------


@dataclass
class CaseResult:
    value: Any = None
    deadlock: bool = False
    budget: bool = False
    error: str | None = None
    vtime: float = 0.0
    loop_exceptions: list[dict[str, Any]] = field(default_factory=list)
    leaked: list[str] = field(default_factory=list)


def run_case(
    main: Callable[[VLoop], Any], max_vtime: float = 1e6, max_iterations: int = 400_000
) -> CaseResult:
    """Run `await main(loop)` on a fresh virtual loop; classify how it ended."""
    loop = new_loop()
    loop.max_iterations = max_iterations
    res = CaseResult()
    try:
        res.value = loop.run(main(loop), max_vtime=max_vtime)
    except Deadlock:
        res.deadlock = True
    except LoopBudget:
        res.budget = True
    except Exception as exc:  # noqa: BLE001  harness or xknx error escaping the driver
        res.error = f"{type(exc).__name__}: {exc}"
    res.vtime = loop.time() - T0
    res.loop_exceptions = list(loop.exceptions)
    leaked = loop.finish()
    res.leaked = sorted(
        getattr(t.get_coro(), "__qualname__", repr(t.get_coro())) for t in leaked
    )
    asyncio.set_event_loop(None)
    return res


async def bounded(awaitable: Any, vbudget: float) -> tuple[bool, Any]:
    """Await with a *virtual* deadline: (finished?, result).  Never a wall-clock verdict.

    A Deadlock (nothing scheduled at all) cannot happen inside this wait because the
    deadline timer itself is scheduled; a hang therefore shows as finished == False
    after exactly `vbudget` virtual seconds.
    """
    task = asyncio.ensure_future(awaitable)
    done, _pending = await asyncio.wait({task}, timeout=vbudget)
    if task in done:
        return True, task.result()
    task.cancel()
    with contextlib.suppress(BaseException):
        await task
    return False, None
